import re
p='/verif/contracts/C01/pairwise.vrs'
s=open(p).read()
src=open('/repo/src/alignment/pairwise/mod.rs').read().split('\n')

def rw_asserts(lines):
    """wrap every assert!(..., "msg"); (single or multi-line) in an R18a block"""
    out=[];i=0
    while i<len(lines):
        l=lines[i]
        if l.strip().startswith('assert!('):
            j=i
            while not lines[j].rstrip().endswith(');'): j+=1
            blk=lines[i:j+1]
            txt=' '.join(x.strip() for x in blk)
            m=re.match(r'assert!\(\s*(.*?),\s*"',txt)
            ind=re.match(r'\s*',l).group(0)
            out.append('//@rw R18a')
            out+=['//@<'+x for x in blk]
            out.append('%sassert!(%s);'%(ind,m.group(1).strip()))
            out.append('//@>')
            i=j+1
        else:
            out.append(l);i+=1
    return out

def grab(start_pat, after=0):
    """return source lines of fn starting at first line matching start_pat after index"""
    for i in range(after,len(src)):
        if re.search(start_pat,src[i]):
            # find body end by brace count
            d=0;started=False
            for j in range(i,len(src)):
                d+=src[j].count('{')-src[j].count('}')
                if '{' in src[j]: started=True
                if started and d==0:
                    return i,src[i:j+1]
    raise Exception(start_pat)

def region(hdr,lines,ret_ann,spec):
    # lines: fn source; insert return naming and spec before the body's opening '{'
    # find the line with ') -> Self {'
    out=[]
    done=False
    for l in lines:
        if not done and re.search(r'-> (Self|i32) \{\s*$',l):
            ty=re.search(r'-> (Self|i32) \{',l).group(1)
            out.append(l[:l.index('->')]+'-> /*@+(r:@*/ %s/*@+)@*/'%ty)
            out.append('//@+'); out+=spec; out.append('//@-')
            out.append(re.match(r'\s*',lines[0]).group(0)+'{')
            done=True
        else: out.append(l)
    assert done,hdr
    return ['//@extract src/alignment/pairwise/mod.rs :: '+hdr]+rw_asserts(out)+['//@end']

blocks=[]
# MatchParams struct
i,l=grab(r'^pub struct MatchParams')
blocks.append(['//@extract src/alignment/pairwise/mod.rs :: struct MatchParams']+l+['//@end'])
i,l=grab(r'pub fn new\(match_score: i32, mismatch_score: i32\)')
mp_new=region('impl MatchParams :: fn new',l,None,['        requires match_score >= 0, mismatch_score <= 0','        ensures r.match_score == match_score, r.mismatch_score == mismatch_score'])
i,l=grab(r'fn score\(&self, a: u8, b: u8\) -> i32 \{')
mp_score=region('impl MatchFunc for MatchParams :: fn score',l,None,['        ensures r == (if a == b { self.match_score } else { self.mismatch_score })'])
i,l=grab(r'pub fn from_scores\(')
fs=region('impl Scoring<MatchParams> :: fn from_scores',l,None,[
 '        requires gap_open <= 0, gap_extend <= 0, match_score >= 0, mismatch_score <= 0',
 '        ensures r.gap_open == gap_open, r.gap_extend == gap_extend, r.match_scores == Some((match_score, mismatch_score)),',
 '            r.match_fn.match_score == match_score, r.match_fn.mismatch_score == mismatch_score,',
 '            r.xclip_prefix == MIN_SCORE, r.xclip_suffix == MIN_SCORE, r.yclip_prefix == MIN_SCORE, r.yclip_suffix == MIN_SCORE'])
i,l=grab(r'pub fn new\(gap_open: i32, gap_extend: i32, match_fn: F\) -> Self')
sn=region('impl<F: MatchFunc> Scoring<F> :: fn new',l,None,[
 '        requires gap_open <= 0, gap_extend <= 0',
 '        ensures r.gap_open == gap_open, r.gap_extend == gap_extend, r.match_fn == match_fn, r.match_scores == None::<(i32, i32)>,',
 '            r.xclip_prefix == MIN_SCORE, r.xclip_suffix == MIN_SCORE, r.yclip_prefix == MIN_SCORE, r.yclip_suffix == MIN_SCORE'])
clips=[]
for name,fields in [('xclip',['xclip_prefix','xclip_suffix']),('xclip_prefix',['xclip_prefix']),('xclip_suffix',['xclip_suffix']),('yclip',['yclip_prefix','yclip_suffix']),('yclip_prefix',['yclip_prefix']),('yclip_suffix',['yclip_suffix'])]:
    i,l=grab(r'pub fn %s\(mut self, penalty: i32\)'%name)
    upd=', '.join('%s: penalty'%f for f in fields)
    ind='    '
    body=[x.replace('self','this') for x in l[1:-1]]
    body=[(ind*2+'assert!(penalty <= 0);' if 'assert!' in x else x) for x in body]
    clips.append(['//@extract src/alignment/pairwise/mod.rs :: impl<F: MatchFunc> Scoring<F> :: fn %s'%name,'//@rw R52']+['//@<'+x for x in l]+
      [ind+'pub fn %s(self, penalty: i32) -> /*@+(r:@*/ Self/*@+)@*/'%name,'//@g+',
      '        requires penalty <= 0',
      '        // exactly the named clip penalties change; every other field (gaps, match function, the other clips) is kept',
      '        ensures r == (Scoring { %s, ..self })'%upd,'//@g-',ind+'{',ind*2+'let mut this = self;']+body+[ind+'}','//@>','//@end'])
al=[]
i,l=grab(r'pub fn new\(gap_open: i32, gap_extend: i32, match_fn: F\) -> Self',after=430)
al.append(region('impl<F: MatchFunc> Aligner<F> :: fn new',l,None,[
 '        requires gap_open <= 0, gap_extend <= 0',
 '        ensures r.sc() == fresh_scoring(gap_open, gap_extend, match_fn), r.empty_tables()']))
i,l=grab(r'pub fn with_capacity\(m: usize, n: usize, gap_open: i32')
al.append(region('impl<F: MatchFunc> Aligner<F> :: fn with_capacity',l,None,[
 '        requires gap_open <= 0, gap_extend <= 0, (m + 1) * (n + 1) <= usize::MAX',
 '        ensures r.sc() == fresh_scoring(gap_open, gap_extend, match_fn), r.empty_tables()']))
i,l=grab(r'pub fn with_scoring\(scoring: Scoring<F>\)')
al.append(region('impl<F: MatchFunc> Aligner<F> :: fn with_scoring',l,None,[
 '        requires scoring_ok(scoring)',
 '        ensures r.sc() == scoring, r.empty_tables()']))
i,l=grab(r'pub fn with_capacity_and_scoring\(')
al.append(region('impl<F: MatchFunc> Aligner<F> :: fn with_capacity_and_scoring',l,None,[
 '        requires scoring_ok(scoring), (m + 1) * (n + 1) <= usize::MAX',
 '        ensures r.sc() == scoring, r.empty_tables()']))
l=[x for x in src if x.startswith('const DEFAULT_ALIGNER_CAPACITY')]
dc=['//@extract src/alignment/pairwise/mod.rs :: const DEFAULT_ALIGNER_CAPACITY']+l+['//@end']

# assemble
scoring_blk='\n'.join(
  sum(blocks,[])+['impl MatchParams {']+mp_new+['}','impl MatchFunc for MatchParams {']+mp_score+['}',
  '/// every penalty of a scoring is non-positive (the documented constructor precondition; the constructors panic otherwise)',
  'pub open spec fn scoring_ok<F: MatchFunc>(s: Scoring<F>) -> bool { s.gap_open <= 0 && s.gap_extend <= 0 && s.xclip_prefix <= 0 && s.xclip_suffix <= 0 && s.yclip_prefix <= 0 && s.yclip_suffix <= 0 }',
  '/// the scoring Scoring::new builds: given gaps and match function, no match scores, all four clips at MIN_SCORE',
  'pub open spec fn fresh_scoring<F: MatchFunc>(gap_open: i32, gap_extend: i32, match_fn: F) -> Scoring<F> { Scoring { gap_open, gap_extend, match_fn, match_scores: None, xclip_prefix: MIN_SCORE, xclip_suffix: MIN_SCORE, yclip_prefix: MIN_SCORE, yclip_suffix: MIN_SCORE } }',
  'impl Scoring<MatchParams> {']+fs+['}','impl<F: MatchFunc> Scoring<F> {']+sn+sum(clips,[])+['}'])
anchor='//@extract src/alignment/pairwise/mod.rs :: struct TracebackCell\n'
assert anchor in s
s=s.replace(anchor,scoring_blk+'\n\n'+anchor,1)
# aligner ctors: put inside the existing impl block before custom's doc
anchor2="    /// `custom` (the 340-line three-layer DP) is NOT verified."
assert anchor2 in s
al_blk='\n'.join(['    /// the DP columns and the traceback matrix start empty (capacity only)','    pub closed spec fn empty_tables(&self) -> bool { self.I[0]@.len() == 0 && self.I[1]@.len() == 0 && self.D[0]@.len() == 0 && self.D[1]@.len() == 0 && self.S[0]@.len() == 0 && self.S[1]@.len() == 0 && self.Lx@.len() == 0 && self.Ly@.len() == 0 && self.Sn@.len() == 0 && self.traceback.matrix@.len() == 0 }','']+sum(al,[]))
s=s.replace(anchor2,al_blk+'\n\n'+anchor2,1)
anchor3='//@extract src/alignment/pairwise/mod.rs :: struct Aligner\n'
s=s.replace(anchor3,'\n'.join(dc)+'\n'+anchor3,1)
open(p,'w').write(s)

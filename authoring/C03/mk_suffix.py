import sys, re
sys.path.insert(0, '/verif/tool')
import locate, linemark
from lex import render
REPO = '/repo/src/data_structures/suffix_array.rs'
spike = open('/tmp/k/sa4.rs').read()
def fn_text(name_line):
    a = spike.index(name_line)
    a = spike.rfind('\n', 0, a) + 1
    # include preceding doc comment lines
    while True:
        p = spike.rfind('\n', 0, a - 1) + 1
        if spike[p:a].startswith('///') and 'ASSUMED' not in spike[p:a]: a = p
        else: break
    b = spike.index('\n}\n', a) + 3
    return a, b, spike[a:b]
def region(txt, path, edits):
    for (old, new) in edits:
        assert txt.count(old) == 1, (old[:70], txt.count(old))
        txt = txt.replace(old, new)
    repo = render(locate.locate(open(REPO).read(), path))
    body = linemark.mark2(txt.rstrip('\n'), repo)
    return '//@extract src/data_structures/suffix_array.rs :: %s\n%s\n//@end\n' % (path, body)
jobs = []
a, b, t = fn_text('fn sentinel(text: &[u8]) -> (r: u8)')
jobs.append((a, b, region(t, 'fn sentinel', [('fn sentinel(text: &[u8]) -> (r: u8)', 'fn sentinel(text: &[u8]) -> /*@+(r:@*/ u8/*@+)@*/')])))
a, b, t = fn_text('fn sentinel_count(text: &[u8]) -> (r: usize)')
jobs.append((a, b, region(t, 'fn sentinel_count', [
 ('fn sentinel_count(text: &[u8]) -> (r: usize)', 'fn sentinel_count(text: &[u8]) -> /*@+(r:@*/ usize/*@+)@*/'),
 ('    for a in it: text.iter()\n        invariant sentinel == sentb(text@), multi_ok(text@)\n    { let a = *a; assert!(a >= sentinel); }\n',
  '//@rw R40\n//@<    assert!(\n//@<        text.iter().all(|&a| a >= sentinel),\n//@<        "Expecting extra sentinel symbol being lexicographically smallest at the end of the \\\n//@<         text."\n//@<    );\n    for a in /*@+it:@*/ text.iter()\n//@g+\n        invariant sentinel == sentb(text@), multi_ok(text@)\n//@g-\n    { let a = *a; assert!(a >= sentinel); }\n//@>\n'),
 ('    let mut count: usize = 0; for a in it2: text.iter()\n        invariant t == text@, sentinel == sentb(t), count == sent_upto(t, it2.index@ as int), count <= it2.index@, t.len() <= usize::MAX\n    { let a = *a;\n        proof { lemma_sent_upto(t, it2.index@ as int + 1); assert(it2.index@ < t.len()); assert(a == t[it2.index@ as int]); assert(count < usize::MAX); assert(((a == sentinel) as usize) <= 1); }\n        count = count + (a == sentinel) as usize; }\n    proof { lemma_sent_upto_all(t); lemma_sent_upto(t, t.len() as int); }\n    count\n',
  '//@rw R41 usize\n//@<    text.iter()\n//@<        .fold(0, |count, &a| count + (a == sentinel) as usize)\n    let mut count: usize = 0; for a in /*@+it2:@*/ text.iter()\n//@g+\n        invariant t == text@, sentinel == sentb(t), count == sent_upto(t, it2.index@ as int), count <= it2.index@, t.len() <= usize::MAX\n//@g-\n    { let a = *a;\n//@g+\n        proof { lemma_sent_upto(t, it2.index@ as int + 1); assert(it2.index@ < t.len()); assert(a == t[it2.index@ as int]); assert(count < usize::MAX); assert(((a == sentinel) as usize) <= 1); }\n//@g-\n        count = count + (a == sentinel) as usize; }\n//@g+\n    proof { lemma_sent_upto_all(t); lemma_sent_upto(t, t.len() as int); }\n//@g-\n    count\n//@>\n'),
])))
a, b, t = fn_text('fn transform_text<T: IntSym>(')
jobs.append((a, b, region(t, 'fn transform_text', [
 ('fn transform_text<T: IntSym>(\n', '//@rw INST T: IntSym (the numeric trait bundle is replaced by the spec trait of the integer types SA-IS is instantiated at)\n//@<fn transform_text<T: Integer + Unsigned + NumCast + Copy + Debug>(\nfn transform_text<T: IntSym>(\n//@>\n'),
 (') -> (res: Vec<T>)', ') -> /*@+(res:@*/ Vec<T>/*@+)@*/'),
 ('    for a in it: text.iter()\n        invariant t == text@, multi_ok(t), rk == transform.ranks@', '//@rw R2\n//@<    for &a in text {\n    for a in /*@+it:@*/ text.iter()\n//@g+\n        invariant t == text@, multi_ok(t), rk == transform.ranks@'),
 ('            forall|i: int| 0 <= i < it.index@ ==> (#[trigger] transformed@[i]).to_int() == tt(t, rk)[i],\n    { let a = *a;\n', '            forall|i: int| 0 <= i < it.index@ ==> (#[trigger] transformed@[i]).to_int() == tt(t, rk)[i],\n//@g-\n    { let a = *a;\n//@>\n'),
])))
a, b, t = fn_text('pub fn suffix_array(text: &[u8]) -> (r: RawSuffixArray)')
ed = [('pub fn suffix_array(text: &[u8]) -> (r: RawSuffixArray)', 'pub fn suffix_array(text: &[u8]) -> /*@+(r:@*/ RawSuffixArray/*@+)@*/')]
for ty in ['u8', 'u16', 'u32']:
    ed.append(('        a if a <= %s::MAX as usize => {\n' % ty, '//@rw R43\n//@<        a if a <= std::%s::MAX as usize => {\n        a if a <= %s::MAX as usize => {\n//@>\n' % (ty, ty)))
    ed.append(('            { let tx = transform_text::<%s>(text, &alphabet, sentinel_count);\n            proof { lemma_sa_glue(text@, alphabet.syms(), ints(tx@)); }\n            sais.construct(&tx);\n            proof { lemma_sa_done(text@, alphabet.syms(), ints(tx@), sais.pos@); }\n            }\n' % ty,
               '//@rw R42 tx\n//@<            sais.construct(&transform_text::<%s>(text, &alphabet, sentinel_count))\n            { let tx = transform_text::<%s>(text, &alphabet, sentinel_count);\n//@g+\n            proof { lemma_sa_glue(text@, alphabet.syms(), ints(tx@)); }\n//@g-\n            sais.construct(&tx);\n//@g+\n            proof { lemma_sa_done(text@, alphabet.syms(), ints(tx@), sais.pos@); }\n//@g-\n            }\n//@>\n' % (ty, ty)))
ed.append(('        _ => { let tx = transform_text::<u64>(text, &alphabet, sentinel_count);\n            proof { lemma_sa_glue(text@, alphabet.syms(), ints(tx@)); }\n            sais.construct(&tx);\n            proof { lemma_sa_done(text@, alphabet.syms(), ints(tx@), sais.pos@); }\n            },\n',
           '//@rw R42 tx\n//@<        _ => sais.construct(&transform_text::<u64>(text, &alphabet, sentinel_count)),\n        _ => { let tx = transform_text::<u64>(text, &alphabet, sentinel_count);\n//@g+\n            proof { lemma_sa_glue(text@, alphabet.syms(), ints(tx@)); }\n//@g-\n            sais.construct(&tx);\n//@g+\n            proof { lemma_sa_done(text@, alphabet.syms(), ints(tx@), sais.pos@); }\n//@g-\n            },\n//@>\n'))
jobs.append((a, b, region(t, 'fn suffix_array', ed)))
# type RawSuffixArray
ta = spike.index('pub type RawSuffixArray = Vec<usize>;\n'); tb = ta + len('pub type RawSuffixArray = Vec<usize>;\n')
jobs.append((ta, tb, '//@extract src/data_structures/suffix_array.rs :: type RawSuffixArray\npub type RawSuffixArray = Vec<usize>;\n//@end\n'))
jobs.sort()
out = []; pos = 0
for (a, b, new) in jobs:
    out.append(spike[pos:a]); out.append(new); pos = b
out.append(spike[pos:])
res = ''.join(out)
hdr = '''//@unit C03/suffix
//@rlimit 100
// suffix_array() up to SA-IS: the sentinel handling (sentinel, sentinel_count), the integer text handed to SA-IS (transform_text, generic over
// the integer type) and the dispatch in suffix_array are proved; `Sais::construct` is a stub whose ASSUMED contract is the documented one
// ("on a text over a dense alphabet that ends in a unique minimum, pos becomes the sorted permutation of all suffixes").  Proved around it:
// the integer text meets that documented requirement (lemma_tt_input_ok) and is order-isomorphic to the coding tr(t) all theorems of
// C03/C05/C06 are stated over (lemma_tt_iso, lemma_iso_sorted) - so the one hypothesis left in those units, "the suffix array is sorted in
// the order of tr(t)", is exactly the assumed contract of Sais::construct.
'''
res = res.replace('use vstd::prelude::*;\nverus!{', hdr + 'use vstd::prelude::*;\nverus! {', 1)
res = res.rstrip()
assert res.endswith('fn main(){}')
res = res[:-len('fn main(){}')].rstrip()[:-1].rstrip() + '\n} // verus!\nfn main() {}\n'
open('/verif/contracts/C03/suffix.vrs', 'w').write(res)
print('ok')

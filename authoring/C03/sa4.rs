use vstd::prelude::*;
verus!{
global size_of usize == 8;
// ---------------- suffix order theory (single-sentinel texts) ----------------
pub open spec fn lcp_len(t: Seq<int>, a: int, b: int) -> nat
    decreases (if 0 <= a < t.len() { t.len() - a } else { 0 })
{
    if 0 <= a < t.len() && 0 <= b < t.len() && t[a] == t[b] { 1 + lcp_len(t, a + 1, b + 1) } else { 0 }
}
/// suffix a is lexicographically smaller than suffix b (a shorter suffix that is a prefix of the other counts as smaller)
pub open spec fn suf_lt(t: Seq<int>, a: int, b: int) -> bool {
    let k = lcp_len(t, a, b) as int;
    a != b && (if a + k >= t.len() { true } else if b + k >= t.len() { false } else { t[a + k] < t[b + k] })
}
pub proof fn lemma_lcp_agree(t: Seq<int>, a: int, b: int, j: int)
    requires 0 <= a, 0 <= b, 0 <= j < lcp_len(t, a, b)
    ensures a + j < t.len(), b + j < t.len(), t[a + j] == t[b + j]
    decreases j
{
    if j > 0 { lemma_lcp_agree(t, a + 1, b + 1, j - 1); }
}
pub proof fn lemma_lcp_stop(t: Seq<int>, a: int, b: int)
    requires 0 <= a <= t.len(), 0 <= b <= t.len()
    ensures ({ let k = lcp_len(t, a, b) as int; a + k <= t.len() && b + k <= t.len() && (a + k == t.len() || b + k == t.len() || t[a + k] != t[b + k]) })
    decreases t.len() - a
{
    if a < t.len() && b < t.len() && t[a] == t[b] { lemma_lcp_stop(t, a + 1, b + 1); }
}
/// a common prefix of length k that cannot be extended IS the lcp
pub proof fn lemma_lcp_unique(t: Seq<int>, a: int, b: int, k: int)
    requires 0 <= a, 0 <= b, 0 <= k, a + k <= t.len(), b + k <= t.len(),
        forall|j: int| 0 <= j < k ==> #[trigger] t[a + j] == t[b + j],
        a + k == t.len() || b + k == t.len() || t[a + k] != t[b + k],
    ensures lcp_len(t, a, b) == k
    decreases k
{
    if k > 0 {
        assert(t[a + 0] == t[b + 0]);
        assert forall|j: int| 0 <= j < k - 1 implies #[trigger] t[a + 1 + j] == t[b + 1 + j] by { assert(t[a + (j + 1)] == t[b + (j + 1)]); }
        lemma_lcp_unique(t, a + 1, b + 1, k - 1);
    }
}
pub proof fn lemma_lcp_sym(t: Seq<int>, a: int, b: int)
    requires 0 <= a <= t.len(), 0 <= b <= t.len()
    ensures lcp_len(t, a, b) == lcp_len(t, b, a)
{
    let k = lcp_len(t, a, b) as int;
    lemma_lcp_stop(t, a, b);
    assert forall|j: int| 0 <= j < k implies #[trigger] t[b + j] == t[a + j] by { lemma_lcp_agree(t, a, b, j); }
    lemma_lcp_unique(t, b, a, k);
}
pub proof fn lemma_antisym(t: Seq<int>, a: int, b: int)
    requires 0 <= a < t.len(), 0 <= b < t.len()
    ensures !(suf_lt(t, a, b) && suf_lt(t, b, a)), a != b ==> (suf_lt(t, a, b) || suf_lt(t, b, a))
{
    lemma_lcp_sym(t, a, b);
    lemma_lcp_stop(t, a, b);
}
/// lcp of (a, c) is at least min(lcp(a, b), lcp(b, c))
pub proof fn lemma_lcp_min(t: Seq<int>, a: int, b: int, c: int)
    requires 0 <= a <= t.len(), 0 <= b <= t.len(), 0 <= c <= t.len()
    ensures lcp_len(t, a, c) >= (if lcp_len(t, a, b) <= lcp_len(t, b, c) { lcp_len(t, a, b) } else { lcp_len(t, b, c) })
{
    let m = (if lcp_len(t, a, b) <= lcp_len(t, b, c) { lcp_len(t, a, b) } else { lcp_len(t, b, c) }) as int;
    let k = lcp_len(t, a, c) as int;
    lemma_lcp_stop(t, a, c);
    if k < m {
        lemma_lcp_agree(t, a, b, k); lemma_lcp_agree(t, b, c, k);
        // a+k, c+k < len and t[a+k] == t[b+k] == t[c+k]: contradiction with stop
        assert(false);
    }
}
pub proof fn lemma_trans(t: Seq<int>, a: int, b: int, c: int)
    requires 0 <= a < t.len(), 0 <= b < t.len(), 0 <= c < t.len(), suf_lt(t, a, b), suf_lt(t, b, c)
    ensures suf_lt(t, a, c)
{
    let x = lcp_len(t, a, b) as int; let y = lcp_len(t, b, c) as int; let z = lcp_len(t, a, c) as int;
    lemma_lcp_stop(t, a, b); lemma_lcp_stop(t, b, c); lemma_lcp_stop(t, a, c);
    lemma_lcp_min(t, a, b, c);
    lemma_antisym(t, a, b);
    if a == c { assert(false); }
    if x < y {
        // a and b differ at x (a smaller), b and c agree beyond x: so a and c differ at x the same way
        lemma_lcp_agree(t, b, c, x);
        assert forall|j: int| 0 <= j < x implies #[trigger] t[a + j] == t[c + j] by { lemma_lcp_agree(t, a, b, j); lemma_lcp_agree(t, b, c, j); }
        lemma_lcp_unique(t, a, c, x);
    } else if y < x {
        lemma_lcp_agree(t, a, b, y);
        assert forall|j: int| 0 <= j < y implies #[trigger] t[a + j] == t[c + j] by { lemma_lcp_agree(t, a, b, j); lemma_lcp_agree(t, b, c, j); }
        lemma_lcp_unique(t, a, c, y);
    } else {
        // x == y: a < b at x, b < c at x
        assert forall|j: int| 0 <= j < x implies #[trigger] t[a + j] == t[c + j] by { lemma_lcp_agree(t, a, b, j); lemma_lcp_agree(t, b, c, j); }
        if a + x >= t.len() { lemma_lcp_unique(t, a, c, x); }
        else {
            // b + x < len (else b would be smaller), t[a+x] < t[b+x]; c + x < len, t[b+x] < t[c+x]
            lemma_lcp_unique(t, a, c, x);
        }
    }
}
/// sandwich: x <= y < z in suffix order ==> lcp(y, z) >= lcp(x, z)
pub proof fn lemma_sandwich(t: Seq<int>, x: int, y: int, z: int)
    requires 0 <= x < t.len(), 0 <= y < t.len(), 0 <= z < t.len(), x == y || suf_lt(t, x, y), suf_lt(t, y, z)
    ensures lcp_len(t, y, z) >= lcp_len(t, x, z)
{
    if x != y {
        let k = lcp_len(t, x, z) as int; let j = lcp_len(t, y, z) as int;
        if j < k {
            lemma_lcp_stop(t, y, z); lemma_lcp_stop(t, x, y);
            lemma_lcp_agree(t, x, z, j);
            // x and y agree on the first j symbols, and at j: y exhausted or t[y+j] < t[z+j] == t[x+j]
            assert forall|i: int| 0 <= i < j implies #[trigger] t[x + i] == t[y + i] by { lemma_lcp_agree(t, x, z, i); lemma_lcp_agree(t, y, z, i); }
            lemma_lcp_unique(t, x, y, j);
            assert(!suf_lt(t, x, y));
        }
    }
}
/// dropping the first (equal) symbol keeps the order and shortens the lcp by one; needs the two suffixes not to end right after it
pub proof fn lemma_shift(t: Seq<int>, q: int, p: int)
    requires 0 <= q, 0 <= p, suf_lt(t, q, p), lcp_len(t, q, p) >= 1
    ensures lcp_len(t, q + 1, p + 1) == lcp_len(t, q, p) - 1, q + 1 < t.len() && p + 1 < t.len() ==> suf_lt(t, q + 1, p + 1)
{
}

// ---------------- sorted suffix arrays ----------------
pub open spec fn is_perm(pos: Seq<usize>, n: int) -> bool {
    &&& pos.len() == n
    &&& forall|r: int| 0 <= r < n ==> #[trigger] pos[r] < n
    &&& forall|r1: int, r2: int| 0 <= r1 < r2 < n ==> #[trigger] pos[r1] != #[trigger] pos[r2]
    &&& forall|p: int| 0 <= p < n ==> #[trigger] hits(pos, n, p)
}
/// text position p occurs in pos
pub open spec fn hits(pos: Seq<usize>, n: int, p: int) -> bool { exists|r: int| 0 <= r < n && #[trigger] pos[r] == p }
pub open spec fn sorted_sa(t: Seq<int>, pos: Seq<usize>) -> bool {
    forall|r: int| 1 <= r < pos.len() ==> suf_lt(t, #[trigger] pos[r - 1] as int, pos[r] as int)
}
/// rank is the inverse permutation of pos
pub open spec fn rank_ok(rank: Seq<usize>, pos: Seq<usize>, n: int) -> bool {
    rank.len() == n && forall|p: int| 0 <= p < n ==> #[trigger] rank[p] < n && pos[rank[p] as int] == p
}
/// the last symbol is a unique sentinel
pub open spec fn single_sentinel(t: Seq<int>) -> bool { t.len() >= 1 && forall|i: int| 0 <= i < t.len() - 1 ==> #[trigger] t[i] != t[t.len() - 1] }

pub proof fn lemma_global(t: Seq<int>, pos: Seq<usize>, r1: int, r2: int)
    requires is_perm(pos, t.len() as int), sorted_sa(t, pos), 0 <= r1 < r2 < t.len()
    ensures suf_lt(t, pos[r1] as int, pos[r2] as int)
    decreases r2 - r1
{
    if r1 + 1 < r2 {
        lemma_global(t, pos, r1, r2 - 1);
        assert(suf_lt(t, pos[r2 - 1] as int, pos[r2] as int));
        lemma_trans(t, pos[r1] as int, pos[r2 - 1] as int, pos[r2] as int);
    } else {
        assert(suf_lt(t, pos[r2 - 1] as int, pos[r2] as int));
    }
}

// ---------------- byte texts with several sentinels: the transformed text ----------------
pub open spec fn sentb(t: Seq<u8>) -> u8 { t[t.len() - 1] }
/// number of sentinels at positions >= i
pub open spec fn sent_from(t: Seq<u8>, i: int) -> nat decreases t.len() - i {
    if i >= t.len() { 0 } else { sent_from(t, i + 1) + (if t[i] == sentb(t) { 1nat } else { 0nat }) }
}
/// order-isomorphic integer coding of a sentinel-terminated byte text: the sentinels become distinct codes below every other symbol,
/// a later sentinel being smaller (what suffix_array() sorts: transform_text gives the first sentinel the largest sentinel code)
pub open spec fn tr(t: Seq<u8>) -> Seq<int> {
    Seq::new(t.len(), |i: int| if t[i] == sentb(t) { sent_from(t, i + 1) as int } else { t[i] as int + sent_from(t, 0) })
}
pub open spec fn multi_ok(t: Seq<u8>) -> bool { t.len() >= 1 && forall|i: int| 0 <= i < t.len() ==> #[trigger] t[i] >= sentb(t) }
proof fn lemma_sent_from_mono(t: Seq<u8>, i: int, j: int)
    requires 0 <= i <= j <= t.len()
    ensures sent_from(t, j) <= sent_from(t, i), i < j && t[i] == sentb(t) ==> sent_from(t, j) < sent_from(t, i)
    decreases j - i
{
    if i < j { lemma_sent_from_mono(t, i + 1, j); }
}
/// a non-sentinel byte a and its code: equality and order against text position q are preserved by the coding
pub open spec fn sym_rel(t: Seq<u8>, q: int, a: u8) -> bool {
    ((t[q] == a) <==> (tr(t)[q] == a + sent_from(t, 0))) && ((t[q] < a) <==> (tr(t)[q] < a + sent_from(t, 0)))
}
pub proof fn lemma_tr(t: Seq<u8>)
    requires multi_ok(t)
    ensures tr(t).len() == t.len(), single_sentinel(tr(t)), sent_from(t, 0) >= 1,
        forall|q: int, a: u8| 0 <= q < t.len() && a > sentb(t) ==> #[trigger] sym_rel(t, q, a),
{
    let n = t.len() as int; let k = sent_from(t, 0) as int;
    lemma_sent_from_mono(t, 0, n - 1);
    assert(sent_from(t, n - 1) == 1) by { assert(sent_from(t, n) == 0); }
    assert(tr(t)[n - 1] == 0) by { assert(sent_from(t, n) == 0); }
    assert forall|i: int| 0 <= i < n - 1 implies #[trigger] tr(t)[i] != tr(t)[n - 1] by {
        if t[i] == sentb(t) { lemma_sent_from_mono(t, i + 1, n - 1); }
    }
    assert forall|q: int, a: u8| 0 <= q < n && a > sentb(t) implies #[trigger] sym_rel(t, q, a) by {
        if t[q] == sentb(t) { lemma_sent_from_mono(t, 0, q); lemma_sent_from_mono(t, q, q + 1); }
    }
}

// ---------------- order-isomorphic integer texts have the same suffix order ----------------
pub open spec fn iso(u: Seq<int>, v: Seq<int>) -> bool {
    u.len() == v.len() && forall|i: int, j: int| 0 <= i < u.len() && 0 <= j < u.len() ==> ((#[trigger] u[i] < #[trigger] u[j]) <==> (v[i] < v[j]))
}
proof fn lemma_iso_eq(u: Seq<int>, v: Seq<int>, i: int, j: int)
    requires iso(u, v), 0 <= i < u.len(), 0 <= j < u.len()
    ensures (u[i] == u[j]) <==> (v[i] == v[j]), (u[i] < u[j]) <==> (v[i] < v[j])
{
    assert((u[i] < u[j]) <==> (v[i] < v[j]));
    assert((u[j] < u[i]) <==> (v[j] < v[i]));
}
proof fn lemma_iso_lcp(u: Seq<int>, v: Seq<int>, a: int, b: int)
    requires iso(u, v)
    ensures lcp_len(u, a, b) == lcp_len(v, a, b)
    decreases (if 0 <= a < u.len() { u.len() - a } else { 0 })
{
    if 0 <= a < u.len() && 0 <= b < u.len() {
        lemma_iso_eq(u, v, a, b);
        if u[a] == u[b] { lemma_iso_lcp(u, v, a + 1, b + 1); }
    }
}
proof fn lemma_iso_suf(u: Seq<int>, v: Seq<int>, a: int, b: int)
    requires iso(u, v), 0 <= a < u.len(), 0 <= b < u.len()
    ensures suf_lt(u, a, b) <==> suf_lt(v, a, b)
{
    lemma_iso_lcp(u, v, a, b);
    let k = lcp_len(u, a, b) as int;
    if a + k < u.len() && b + k < u.len() { lemma_iso_eq(u, v, a + k, b + k); }
}
pub proof fn lemma_iso_sorted(u: Seq<int>, v: Seq<int>, pos: Seq<usize>)
    requires iso(u, v), is_perm(pos, u.len() as int)
    ensures sorted_sa(u, pos) <==> sorted_sa(v, pos)
{
    if sorted_sa(u, pos) { assert forall|r: int| 1 <= r < pos.len() implies suf_lt(v, #[trigger] pos[r - 1] as int, pos[r] as int) by { lemma_iso_suf(u, v, pos[r - 1] as int, pos[r] as int); } }
    if sorted_sa(v, pos) { assert forall|r: int| 1 <= r < pos.len() implies suf_lt(u, #[trigger] pos[r - 1] as int, pos[r] as int) by { lemma_iso_suf(u, v, pos[r - 1] as int, pos[r] as int); } }
}

// ---------------- the text handed to SA-IS ----------------
/// the integer text transform_text builds: sentinels count down (the last one is 0), every other symbol is its alphabet rank shifted above them
pub open spec fn tt(t: Seq<u8>, rk: Map<usize, u8>) -> Seq<int> {
    Seq::new(t.len(), |i: int| if t[i] == sentb(t) { sent_from(t, i + 1) as int } else { rk[t[i] as usize] as int + sent_from(t, 0) - 1 })
}
/// the rank map of the alphabet of t: defined on exactly the bytes of t, order preserving, the smallest symbol has rank 0
pub open spec fn ranks_for(t: Seq<u8>, rk: Map<usize, u8>, sym: Seq<usize>) -> bool {
    &&& forall|i: int, j: int| 0 <= i < j < sym.len() ==> sym[i] < sym[j]
    &&& forall|c: usize| rk.dom().contains(c) <==> sym.contains(c)
    &&& forall|r: int| 0 <= r < sym.len() ==> #[trigger] rk[sym[r]] == r
    &&& forall|c: usize| sym.contains(c) <==> (exists|i: int| 0 <= i < t.len() && #[trigger] t[i] as usize == c)
    &&& sym.len() <= 256
}
proof fn lemma_rank_order(t: Seq<u8>, rk: Map<usize, u8>, sym: Seq<usize>, a: u8, b: u8)
    requires ranks_for(t, rk, sym), sym.contains(a as usize), sym.contains(b as usize)
    ensures (a < b) <==> (rk[a as usize] < rk[b as usize]), 0 <= rk[a as usize] < sym.len()
{
    let i = choose|i: int| 0 <= i < sym.len() && sym[i] == a as usize;
    let j = choose|j: int| 0 <= j < sym.len() && sym[j] == b as usize;
    assert(rk[sym[i]] == i && rk[sym[j]] == j);
    if i < j { assert(sym[i] < sym[j]); } else if j < i { assert(sym[j] < sym[i]); }
}
/// the text handed to SA-IS is order-isomorphic to the coding tr(t) all theorems of C03/C05/C06 are stated over
pub proof fn lemma_tt_iso(t: Seq<u8>, rk: Map<usize, u8>, sym: Seq<usize>)
    requires multi_ok(t), ranks_for(t, rk, sym)
    ensures iso(tt(t, rk), tr(t))
{
    let u = tt(t, rk); let v = tr(t); let kk = sent_from(t, 0) as int; let s = sentb(t);
    lemma_tr(t);
    assert(sym.contains(s as usize)) by { assert(t[t.len() - 1] as usize == s as usize); }
    assert forall|i: int, j: int| 0 <= i < u.len() && 0 <= j < u.len() implies ((#[trigger] u[i] < #[trigger] u[j]) <==> (v[i] < v[j])) by {
        lemma_sent_from_mono(t, 0, i + 1); lemma_sent_from_mono(t, 0, j + 1);
        assert(sym.contains(t[i] as usize)); assert(sym.contains(t[j] as usize));
        lemma_rank_order(t, rk, sym, t[i], t[j]);
        lemma_rank_order(t, rk, sym, s, t[i]); lemma_rank_order(t, rk, sym, s, t[j]);
        lemma_rank_order(t, rk, sym, t[i], s); lemma_rank_order(t, rk, sym, t[j], s);
        if t[i] == s && t[j] == s { }
        else if t[i] == s { assert(t[j] > s); assert(rk[t[j] as usize] >= 1); lemma_sent_bound(t, i); }
        else if t[j] == s { assert(t[i] > s); assert(rk[t[i] as usize] >= 1); lemma_sent_bound(t, j); }
        else { }
    }
}
/// a sentinel at position i has a code below the number of sentinels
proof fn lemma_sent_bound(t: Seq<u8>, i: int)
    requires 0 <= i < t.len(), t[i] == sentb(t)
    ensures sent_from(t, i + 1) < sent_from(t, 0)
{ lemma_sent_from_mono(t, 0, i); lemma_sent_from_mono(t, i, i + 1); }

// ---------------- stubs ----------------
/// vec_map::VecMap (external crate): a map from small integers
#[verifier::external_body]
#[verifier::reject_recursive_types(V)]
pub struct VecMap<V> { _p: std::marker::PhantomData<V> }
impl<V> VecMap<V> {
    pub uninterp spec fn view(&self) -> Map<usize, V>;
    #[verifier::external_body]
    pub fn get(&self, k: usize) -> (r: Option<&V>) ensures r == (if self.view().dom().contains(k) { Some(&self.view()[k]) } else { None }) { unimplemented!() }
}
pub type SymbolRanks = VecMap<u8>;
/// alphabets::Alphabet: the set of bytes of a text; `syms` lists them in ascending order (BitSet iteration order)
#[verifier::external_body]
pub struct Alphabet { _p: () }
impl Alphabet {
    pub uninterp spec fn syms(&self) -> Seq<usize>;
    #[verifier::external_body]
    pub fn new(text: &[u8]) -> (r: Self)
        ensures forall|i: int, j: int| 0 <= i < j < r.syms().len() ==> r.syms()[i] < r.syms()[j], r.syms().len() <= 256,
            forall|c: usize| r.syms().contains(c) <==> (exists|i: int| 0 <= i < text@.len() && #[trigger] text@[i] as usize == c),
    { unimplemented!() }
    #[verifier::external_body]
    pub fn len(&self) -> (r: usize) ensures r == self.syms().len() { unimplemented!() }
}
/// alphabets::RankTransform with the contract of RankTransform::new PROVED in unit C19/qgrams (restated)
pub struct RankTransform { pub ranks: SymbolRanks }
impl RankTransform {
    #[verifier::external_body]
    pub fn new(alphabet: &Alphabet) -> (r: Self)
        ensures forall|c: usize| r.ranks@.dom().contains(c) <==> alphabet.syms().contains(c),
            forall|k: int| 0 <= k < alphabet.syms().len() ==> #[trigger] r.ranks@[alphabet.syms()[k]] == k,
    { unimplemented!() }
}
/// the integer types SA-IS is instantiated at (stands for the bound `Integer + Unsigned + NumCast + Copy + Debug`)
pub trait IntSym: Copy {
    spec fn to_int(self) -> int;
    spec fn maxv() -> int;
}
impl IntSym for u8 { open spec fn to_int(self) -> int { self as int } open spec fn maxv() -> int { 0xff } }
impl IntSym for u16 { open spec fn to_int(self) -> int { self as int } open spec fn maxv() -> int { 0xffff } }
impl IntSym for u32 { open spec fn to_int(self) -> int { self as int } open spec fn maxv() -> int { 0xffff_ffff } }
impl IntSym for u64 { open spec fn to_int(self) -> int { self as int } open spec fn maxv() -> int { 0xffff_ffff_ffff_ffff } }
/// num_traits::cast at (usize -> T): succeeds exactly when the value fits
#[verifier::external_body]
pub fn cast<T: IntSym>(x: usize) -> (r: Option<T>)
    ensures x <= T::maxv() ==> r is Some && r->0.to_int() == x
{ unimplemented!() }
pub open spec fn ints<T: IntSym>(v: Seq<T>) -> Seq<int> { Seq::new(v.len(), |i: int| v[i].to_int()) }
pub type RawSuffixArray = Vec<usize>;
/// the requirement SA-IS documents for its input: the last symbol is the unique minimum 0 and the alphabet 0..=max is dense
pub open spec fn sais_input_ok(u: Seq<int>) -> bool {
    &&& u.len() >= 1 && u[u.len() - 1] == 0
    &&& forall|i: int| 0 <= i < u.len() - 1 ==> #[trigger] u[i] > 0
    &&& forall|c: int| #[trigger] below_some(u, c) ==> has_code(u, c)
}
pub open spec fn has_code(u: Seq<int>, c: int) -> bool { exists|j: int| 0 <= j < u.len() && u[j] == c }
pub open spec fn below_some(u: Seq<int>, c: int) -> bool { 0 <= c && exists|i: int| 0 <= i < u.len() && c <= u[i] }
/// SA-IS (Sais::{new, construct}): NOT verified - its contract is the one assumption of this unit
pub struct Sais { pub pos: Vec<usize> }
impl Sais {
    #[verifier::external_body]
    fn new(n: usize) -> (r: Self) { unimplemented!() }
    /// ASSUMED: on an input as documented, `pos` becomes the sorted permutation of all suffix positions
    #[verifier::external_body]
    fn construct<T: IntSym>(&mut self, text: &[T])
        requires sais_input_ok(ints(text@))
        ensures is_perm(final(self).pos@, text@.len() as int), sorted_sa(ints(text@), final(self).pos@)
    { unimplemented!() }
}

// ---------------- code ----------------
fn sentinel(text: &[u8]) -> (r: u8)
    requires text@.len() >= 1
    ensures r == sentb(text@)
{
    text[text.len() - 1]
}

/// Count the sentinels occurring in the text given that the last character is the sentinel.
fn sentinel_count(text: &[u8]) -> (r: usize)
    requires multi_ok(text@), text@.len() <= usize::MAX
    ensures r == sent_from(text@, 0), 1 <= r <= text@.len()
{
    let sentinel = sentinel(text);
    for a in it: text.iter()
        invariant sentinel == sentb(text@), multi_ok(text@)
    { let a = *a; assert!(a >= sentinel); }

    let ghost t = text@;
    proof { lemma_sent_upto(t, 0); }
    let mut count: usize = 0; for a in it2: text.iter()
        invariant t == text@, sentinel == sentb(t), count == sent_upto(t, it2.index@ as int), count <= it2.index@, t.len() <= usize::MAX
    { let a = *a;
        proof { lemma_sent_upto(t, it2.index@ as int + 1); assert(it2.index@ < t.len()); assert(a == t[it2.index@ as int]); assert(count < usize::MAX); assert(((a == sentinel) as usize) <= 1); }
        count = count + (a == sentinel) as usize; }
    proof { lemma_sent_upto_all(t); lemma_sent_upto(t, t.len() as int); }
    count
}
/// number of sentinels at positions < i
pub open spec fn sent_upto(t: Seq<u8>, i: int) -> nat decreases i { if i <= 0 { 0 } else { sent_upto(t, i - 1) + (if t[i - 1] == sentb(t) { 1nat } else { 0nat }) } }
proof fn lemma_sent_upto(t: Seq<u8>, i: int) ensures i >= 0 ==> sent_upto(t, i) <= i, i > 0 ==> sent_upto(t, i) == sent_upto(t, i - 1) + (if t[i - 1] == sentb(t) { 1nat } else { 0nat }) decreases i
{ if i > 0 { lemma_sent_upto(t, i - 1); } }
proof fn lemma_sent_split(t: Seq<u8>, i: int)
    requires 0 <= i <= t.len()
    ensures sent_upto(t, i) + sent_from(t, i) == sent_from(t, 0)
    decreases i
{ if i > 0 { lemma_sent_split(t, i - 1); } }
proof fn lemma_sent_upto_all(t: Seq<u8>)
    requires t.len() >= 1
    ensures sent_upto(t, t.len() as int) == sent_from(t, 0), sent_from(t, 0) >= 1
{ lemma_sent_split(t, t.len() as int); lemma_sent_split(t, t.len() - 1); }

/// Transform the given text into integers for usage in `SAIS`.
fn transform_text<T: IntSym>(
    text: &[u8],
    alphabet: &Alphabet,
    sentinel_count: usize,
) -> (res: Vec<T>)
    requires multi_ok(text@), sentinel_count == sent_from(text@, 0),
        forall|i: int, j: int| 0 <= i < j < alphabet.syms().len() ==> alphabet.syms()[i] < alphabet.syms()[j], alphabet.syms().len() <= 256,
        forall|c: usize| alphabet.syms().contains(c) <==> (exists|i: int| 0 <= i < text@.len() && #[trigger] text@[i] as usize == c),
        alphabet.syms().len() + sentinel_count <= T::maxv(), alphabet.syms().len() + sentinel_count < usize::MAX,
    ensures exists|rk: Map<usize, u8>| ranks_for(text@, rk, alphabet.syms()) && ints(res@) =~= tt(text@, rk)
{
    let sentinel = sentinel(text);
    let transform = RankTransform::new(alphabet);
    proof { lemma_sent_upto_all(text@); }
    let offset = sentinel_count - 1;
    let ghost t = text@; let ghost rk = transform.ranks@; let ghost sym = alphabet.syms();
    proof { lemma_sent_upto_all(t); assert(ranks_for(t, rk, sym)); }

    let mut transformed: Vec<T> = Vec::with_capacity(text.len());
    let mut s = sentinel_count;
    for a in it: text.iter()
        invariant t == text@, multi_ok(t), rk == transform.ranks@, sym == alphabet.syms(), ranks_for(t, rk, sym), sentinel == sentb(t), offset == sent_from(t, 0) - 1,
            sym.len() + sent_from(t, 0) <= T::maxv(), sym.len() + sent_from(t, 0) < usize::MAX,
            s == sent_from(t, it.index@ as int), transformed@.len() == it.index@,
            forall|i: int| 0 <= i < it.index@ ==> (#[trigger] transformed@[i]).to_int() == tt(t, rk)[i],
    { let a = *a;
        let ghost idx = it.index@ as int;
        proof { lemma_sent_from_mono(t, 0, idx); assert(sym.contains(a as usize)) by { assert(t[idx] as usize == a as usize); } lemma_rank_order(t, rk, sym, a, a); }
        if a == sentinel {
            s -= 1;
            transformed.push(cast(s).unwrap());
        } else {
            transformed
                .push(cast(*(transform.ranks.get(a as usize)).unwrap() as usize + offset).unwrap());
        }
    }
    proof { assert(ints(transformed@) =~= tt(t, rk)); }

    transformed
}

/// the integer text of a sentinel-terminated byte text meets the documented input requirement of SA-IS
/// every sentinel code below the number of sentinels is taken by some sentinel position
proof fn lemma_sent_codes(t: Seq<u8>, i: int, c: int)
    requires 0 <= i <= t.len(), 0 <= c < sent_from(t, i)
    ensures exists|j: int| i <= j < t.len() && t[j] == sentb(t) && sent_from(t, j + 1) == c
    decreases t.len() - i
{
    if i < t.len() {
        if t[i] == sentb(t) && sent_from(t, i + 1) == c { }
        else { lemma_sent_codes(t, i + 1, c); }
    }
}
proof fn lemma_tt_input_ok(t: Seq<u8>, rk: Map<usize, u8>, sym: Seq<usize>)
    requires multi_ok(t), ranks_for(t, rk, sym)
    ensures sais_input_ok(tt(t, rk))
{
    let u = tt(t, rk); let n = t.len() as int; let kk = sent_from(t, 0) as int; let s = sentb(t);
    lemma_tr(t);
    assert(sent_from(t, n) == 0);
    // the sentinel is the smallest symbol of the alphabet: rank 0
    assert(sym.contains(s as usize)) by { assert(t[n - 1] as usize == s as usize); }
    let i0 = choose|i0: int| 0 <= i0 < sym.len() && sym[i0] == s as usize;
    assert(i0 == 0) by {
        if i0 > 0 { assert(sym[0] < sym[i0]); assert(sym.contains(sym[0])); let q = choose|q: int| 0 <= q < t.len() && #[trigger] t[q] as usize == sym[0]; assert(t[q] >= s); }
    }
    assert(rk[sym[0]] == 0);
    assert forall|i: int| 0 <= i < n - 1 implies #[trigger] u[i] > 0 by {
        if t[i] == s { lemma_sent_from_mono(t, i + 1, n - 1); assert(sent_from(t, n - 1) == 1); }
        else { assert(sym.contains(t[i] as usize)); lemma_rank_order(t, rk, sym, s, t[i]); }
    }
    assert forall|c: int| #[trigger] below_some(u, c) implies has_code(u, c) by {
        let i = choose|i: int| 0 <= i < u.len() && c <= u[i];
        if c < kk {
            lemma_sent_codes(t, 0, c);
            let j = choose|j: int| 0 <= j < t.len() && t[j] == s && sent_from(t, j + 1) == c;
            assert(u[j] == c);
        } else {
            // u[i] >= c >= kk: position i is not a sentinel (sentinel codes are below kk)
            if t[i] == s { lemma_sent_bound(t, i); }
            assert(sym.contains(t[i] as usize));
            lemma_rank_order(t, rk, sym, t[i], t[i]);
            let r = c - kk + 1;
            assert(1 <= r <= rk[t[i] as usize] && r < sym.len());
            assert(sym.contains(sym[r]));
            let j = choose|j: int| 0 <= j < t.len() && #[trigger] t[j] as usize == sym[r];
            assert(rk[sym[r]] == r);
            assert(t[j] != s) by { if t[j] == s { assert(sym[r] == sym[0]); assert(sym[0] < sym[r]); } }
            assert(u[j] == c);
        }
    }
}

pub fn suffix_array(text: &[u8]) -> (r: RawSuffixArray)
    requires multi_ok(text@), text@.len() < 0x7fff_ffff_ffff_0000
    // GIVEN the assumed contract of Sais::construct: the sorted permutation of all suffix positions, in the order of the coding tr
    ensures is_perm(r@, text@.len() as int), sorted_sa(tr(text@), r@)
{
    let n = text.len();
    let alphabet = Alphabet::new(text);
    let sentinel_count = sentinel_count(text);
    let mut sais = Sais::new(n);
    proof { lemma_sent_split(text@, 0); }

    match alphabet.len() + sentinel_count {
        a if a <= u8::MAX as usize => {
            { let tx = transform_text::<u8>(text, &alphabet, sentinel_count);
            proof { lemma_sa_glue(text@, alphabet.syms(), ints(tx@)); }
            sais.construct(&tx);
            proof { lemma_sa_done(text@, alphabet.syms(), ints(tx@), sais.pos@); }
            }
        }
        a if a <= u16::MAX as usize => {
            { let tx = transform_text::<u16>(text, &alphabet, sentinel_count);
            proof { lemma_sa_glue(text@, alphabet.syms(), ints(tx@)); }
            sais.construct(&tx);
            proof { lemma_sa_done(text@, alphabet.syms(), ints(tx@), sais.pos@); }
            }
        }
        a if a <= u32::MAX as usize => {
            { let tx = transform_text::<u32>(text, &alphabet, sentinel_count);
            proof { lemma_sa_glue(text@, alphabet.syms(), ints(tx@)); }
            sais.construct(&tx);
            proof { lemma_sa_done(text@, alphabet.syms(), ints(tx@), sais.pos@); }
            }
        }
        _ => { let tx = transform_text::<u64>(text, &alphabet, sentinel_count);
            proof { lemma_sa_glue(text@, alphabet.syms(), ints(tx@)); }
            sais.construct(&tx);
            proof { lemma_sa_done(text@, alphabet.syms(), ints(tx@), sais.pos@); }
            },
    }

    sais.pos
}
proof fn lemma_sa_glue(t: Seq<u8>, sym: Seq<usize>, u: Seq<int>)
    requires multi_ok(t), exists|rk: Map<usize, u8>| ranks_for(t, rk, sym) && u =~= tt(t, rk)
    ensures sais_input_ok(u)
{
    let rk = choose|rk: Map<usize, u8>| ranks_for(t, rk, sym) && u =~= tt(t, rk);
    lemma_tt_input_ok(t, rk, sym);
}
proof fn lemma_sa_done(t: Seq<u8>, sym: Seq<usize>, u: Seq<int>, pos: Seq<usize>)
    requires multi_ok(t), exists|rk: Map<usize, u8>| ranks_for(t, rk, sym) && u =~= tt(t, rk), is_perm(pos, u.len() as int), sorted_sa(u, pos)
    ensures is_perm(pos, t.len() as int), sorted_sa(tr(t), pos)
{
    let rk = choose|rk: Map<usize, u8>| ranks_for(t, rk, sym) && u =~= tt(t, rk);
    lemma_tt_iso(t, rk, sym);
    lemma_iso_sorted(tt(t, rk), tr(t), pos);
}
}
fn main(){}

    pub fn all_smems(&self, pattern: &[u8], l: usize) -> (res: Vec<(BiInterval, usize, usize)>)
        requires
            exists|t: Seq<u8>, pos: Seq<usize>| fmd_of(self.fm(), t, pos),
            self.fm().wf(), forall|a: u8| a > 36 ==> #[trigger] self.fm().sless(a as int) >= 1,
            dna_word(pattern@), pattern@.len() < 0x7fff_ffff_fff0, l >= 1,
        ensures
            // nothing else: every reported triple is a supermaximal match of length >= l with its exact bi-interval
            forall|x: int| 0 <= x < res@.len() ==> res_any(self.fm(), pattern@, l as int, #[trigger] res@[x]),
            // every supermaximal match of length >= l is reported at least once
            forall|p: int, e: int| #[trigger] smem(self.fm(), pattern@, l as int, p, e) ==> reported(res@, p, e - p),
    {
        let ghost fm = self.fm(); let ghost pat = pattern@; let ghost ll = l as int;
        let mut smems = Vec::new();
        let mut i0: usize = 0;
        while i0 < pattern.len()
            invariant
                fm == self.fm(), pat == pattern@, ll == l, fm.wf(), forall|a: u8| a > 36 ==> #[trigger] fm.sless(a as int) >= 1,
                exists|t: Seq<u8>, pos: Seq<usize>| fmd_of(fm, t, pos), dna_word(pat), pat.len() < 0x7fff_ffff_fff0, l >= 1,
                i0 <= pat.len(),
                forall|x: int| 0 <= x < smems@.len() ==> res_any(fm, pat, ll, #[trigger] smems@[x]),
                upto(fm, pat, ll, i0 as int, smems@),
            decreases pat.len() - i0
        {
            let mut curr_smems = self.smems(pattern, i0, l);
            let mut next_i0 = i0 + 1; // this always works since:
                                      // if we have a SMEM overlapping i0, it is at least 1bp long.
                                      // If we don't have a smem, then we'll reiterate from i0+1
            let ghost cs = curr_smems@;
            for (_, p, l) in it: curr_smems.iter()
                invariant cs == curr_smems@, i0 < pat.len() < 0x7fff_ffff_fff0, pat == pattern@,
                    forall|x: int| 0 <= x < cs.len() ==> res_ok(fm, pat, i0 as int, ll, #[trigger] cs[x]),
                    i0 + 1 <= next_i0 <= pat.len(),
                    forall|x: int| 0 <= x < it.index@ ==> (#[trigger] cs[x]).1 + cs[x].2 <= next_i0,
                    next_i0 == i0 + 1 || exists|x: int| 0 <= x < it.index@ && next_i0 == (#[trigger] cs[x]).1 + cs[x].2,
            {
                proof { let m = cs[it.index@ as int]; assert(*p == m.1 && *l == m.2); assert(res_ok(fm, pat, i0 as int, ll, m)); }
                if p + l > next_i0 {
                    next_i0 = p + l;
                }
            }
            proof {
                lemma_all_step(fm, pat, ll, i0 as int, next_i0 as int, smems@, cs);
                assert forall|x: int| 0 <= x < (smems@ + cs).len() implies res_any(fm, pat, ll, #[trigger] (smems@ + cs)[x]) by {
                    if x < smems@.len() { assert((smems@ + cs)[x] == smems@[x]); }
                    else { assert((smems@ + cs)[x] == cs[x - smems@.len()]); assert(res_ok(fm, pat, i0 as int, ll, cs[x - smems@.len()])); }
                }
            }
            i0 = next_i0;
            smems.append(&mut curr_smems);
        }
        smems
    }

import sys, subprocess
base = open('/tmp/k/fmd_base.vrs').read()     # fmd.vrs before smems
s = base
def rep(old, new, cnt=1):
    global s
    assert s.count(old) >= 1, old[:80]
    s = s.replace(old, new, cnt)
# 1. header: derive, isize, swap, reverse spec
rep('global size_of usize == 8;\n', '''global size_of usize == 8;
global size_of isize == 8;
use std::mem::swap;
/// std: slice::reverse (trusted: the elements in reverse order)
pub assume_specification<T> [<[T]>::reverse] (s: &mut [T])
    ensures final(s)@ == old(s)@.reverse();
''')
rep('//@extract src/data_structures/fmindex.rs :: struct BiInterval\n', '/// (derived Copy / Clone of BiInterval: trusted, field-wise copy)\n#[derive(Clone, Copy)]\n//@extract src/data_structures/fmindex.rs :: struct BiInterval\n')
# 2. init: the reverse bound in terms of compb
rep('''            r.sz() == self.fm().sless(a + 1) - self.fm().sless(a as int), r.msz() == 1,
''', '''            r.sz() == self.fm().sless(a + 1) - self.fm().sless(a as int), r.msz() == 1,
            dna::in_srt(a) ==> r.lo_rev() == self.fm().sless(dna::compb(a) as int),
''')
# 3. forward_ext precondition over the eleven symbols
rep('requires self.fm().wf(), self.fits(interval), in_order(dna::comp(a)),', 'requires self.fm().wf(), self.fits(interval), dna::in_srt(a),')
rep('''        let comp_a = dna::complement(a);

//@rw R21 r
//@<        self.backward_ext(&interval.swapped(), comp_a).swapped()''', '''        let comp_a = dna::complement(a);
//@+
        proof { lemma_order_srt(); lemma_in_order(comp_a); }
//@-

//@rw R21 r
//@<        self.backward_ext(&interval.swapped(), comp_a).swapped()''')
# 4. SMEM prelude before `impl FMDIndex {`
prelude = open('/tmp/k/smems_prelude.rs').read()
rep('impl FMDIndex {\n    pub closed spec fn fm(&self)', prelude + '\nimpl FMDIndex {\n    pub closed spec fn fm(&self)')
# 5. regions at the end of impl FMDIndex
import importlib.util
spec = importlib.util.spec_from_file_location('mk_smems', '/tmp/k/mk_smems.py'); mk = importlib.util.module_from_spec(spec); spec.loader.exec_module(mk)
regions = mk.region('/tmp/k/smems_spike.rs', 'smems', mk.smems_edits)
extra = ''
try:
    extra = mk.extra_regions()
except AttributeError:
    pass
tail = '}\n} // verus!\nfn main() {}'
assert s.rstrip().endswith(tail), s[-200:]
s = s.rstrip()[:-len(tail)] + '\n' + regions + extra + tail + '\n'
open('/verif/contracts/C06/fmd.vrs', 'w').write(s)

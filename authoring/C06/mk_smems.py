import sys, re
sys.path.insert(0, '/verif/tool')
import locate, linemark
from lex import render
REPO = '/repo/src/data_structures/fmindex.rs'
HDR = 'impl<DBWT: Borrow<BWT>, DLess: Borrow<Less>, DOcc: Borrow<Occ>> FMDIndex<DBWT, DLess, DOcc> :: '
def region(spike_file, name, edits):
    txt = open(spike_file).read().rstrip('\n')
    for (old, new) in edits:
        assert txt.count(old) == 1, (old[:70], txt.count(old))
        txt = txt.replace(old, new)
    repo = render(locate.locate(open(REPO).read(), HDR + 'fn ' + name))
    body = linemark.mark2(txt, repo)
    return '//@extract src/data_structures/fmindex.rs :: %sfn %s\n%s\n//@end\n' % (HDR, name, body)
def rwfor(first_line_new, orig, rule):
    return None
smems_edits = [
 ('    pub fn smems(&self, pattern: &[u8], i: usize, l: usize) -> (res: Vec<(BiInterval, usize, usize)>)',
  '    pub fn smems(&self, pattern: &[u8], i: usize, l: usize) -> /*@+(res:@*/ Vec<(BiInterval, usize, usize)>/*@+)@*/'),
 ('        let mut match_len: usize = 0;', '//@rw RTY usize\n//@<        let mut match_len = 0;\n        let mut match_len: usize = 0;\n//@>'),
 ('        for __i in it: i + 1..pattern.len()\n', '//@rw R34\n//@<        for &a in &pattern[i + 1..] {\n        for __i in /*@+it:@*/ i + 1..pattern.len()\n//@g+\n'),
 ('        { let a = pattern[__i];\n', '//@g-\n        { let a = pattern[__i];\n//@>\n'),
 ('        { let mut k: isize = i as isize; while k > -1\n', '//@rw R35 isize\n//@<        for k in (-1..i as isize).rev() {\n        { let mut k: isize = i as isize; while k > -1\n//@g+\n'),
 ('        { k -= 1;\n', '//@g-\n        { k -= 1;\n//@>\n'),
 ('            let mut last_size: isize = -1;', '//@rw RTY isize\n//@<            let mut last_size = -1;\n            let mut last_size: isize = -1;\n//@>'),
 ('            for __e in it2: prev.iter()\n', '//@rw R36\n//@<            for (interval, match_len) in prev.iter() {\n            for __e in /*@+it2:@*/ prev.iter()\n//@g+\n'),
 ('            { let (interval, match_len) = __e;\n', '//@g-\n            { let (interval, match_len) = __e;\n//@>\n'),
 ('                        *match_len >= l\n', '//@rw R37\n//@<                        match_len >= &l\n                        *match_len >= l\n//@>\n'),
 ('            swap(curr, prev);\n        } }\n', '            swap(curr, prev);\n//@rw R35t\n//@<        }\n        } }\n//@>\n'),
]
all_edits = [
 ('    pub fn all_smems(&self, pattern: &[u8], l: usize) -> (res: Vec<(BiInterval, usize, usize)>)',
  '    pub fn all_smems(&self, pattern: &[u8], l: usize) -> /*@+(res:@*/ Vec<(BiInterval, usize, usize)>/*@+)@*/'),
 ('        let mut i0: usize = 0;', '//@rw RTY usize\n//@<        let mut i0 = 0;\n        let mut i0: usize = 0;\n//@>'),
 ('            for (_, p, l) in it: curr_smems.iter()', '            for (_, p, l) in /*@+it:@*/ curr_smems.iter()'),
]
def extra_regions():
    return region('/tmp/k/all_smems_spike.rs', 'all_smems', all_edits)
if __name__ == '__main__':
    print(region('/tmp/k/smems_spike.rs', 'smems', smems_edits))

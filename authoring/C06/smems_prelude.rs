// ---------------- SMEM search ----------------
proof fn lemma_in_order(a: u8)
    requires in_srt(a)
    ensures in_order(a), in_order(compb(a)), in_srt(compb(a)), a != 36 ==> compb(a) != 36
{
    lemma_idx_of();
    assert(order()[idx_of(a)] == a);
    assert(order()[idx_of(compb(a))] == compb(a));
}
/// iv is the exact bi-interval of w on every text this index can stand for
pub open spec fn exact(fm: &FMIndex, w: Seq<u8>, iv: BiInterval) -> bool {
    forall|t: Seq<u8>, pos: Seq<usize>| #[trigger] fmd_of(fm, t, pos) ==> bi_ok(t, pos, w, iv.lo(), iv.lo_rev(), iv.sz())
}
/// w occurs nowhere in any text this index can stand for
pub open spec fn absent(fm: &FMIndex, w: Seq<u8>) -> bool {
    forall|t: Seq<u8>, pos: Seq<usize>, q: int| #[trigger] fmd_of(fm, t, pos) && 0 <= q < t.len() ==> !#[trigger] occurs_b(t, q, w)
}
proof fn lemma_absent(fm: &FMIndex, w: Seq<u8>, iv: BiInterval)
    requires exact(fm, w, iv), iv.sz() == 0
    ensures absent(fm, w)
{
    assert forall|t: Seq<u8>, pos: Seq<usize>, q: int| #[trigger] fmd_of(fm, t, pos) && 0 <= q < t.len() implies !#[trigger] occurs_b(t, q, w) by {
        assert(bi_ok(t, pos, w, iv.lo(), iv.lo_rev(), iv.sz()));
        assert(hits(pos, t.len() as int, q));
        let x = choose|x: int| 0 <= x < t.len() && #[trigger] pos[x] == q;
        assert(!occurs_b(t, pos[x] as int, w));
    }
}

// ---------------- right-maximality bookkeeping ----------------
/// every occurrence of w1 (in any text this index can stand for) is also an occurrence of w2
pub open spec fn ext(fm: &FMIndex, w1: Seq<u8>, w2: Seq<u8>) -> bool {
    forall|t: Seq<u8>, pos: Seq<usize>, q: int| #![trigger fmd_of(fm, t, pos), occurs_b(t, q, w1)] fmd_of(fm, t, pos) && 0 <= q < t.len() && occurs_b(t, q, w1) ==> occurs_b(t, q, w2)
}
/// pat[s..e] cannot be extended to the right
pub open spec fn rmaxp(fm: &FMIndex, pat: Seq<u8>, s: int, e: int) -> bool { e == pat.len() || absent(fm, pat.subrange(s, e + 1)) }
proof fn lemma_ext_trans(fm: &FMIndex, w1: Seq<u8>, w2: Seq<u8>, w3: Seq<u8>)
    requires ext(fm, w1, w2), ext(fm, w2, w3)
    ensures ext(fm, w1, w3)
{
    assert forall|t: Seq<u8>, pos: Seq<usize>, q: int| #![trigger fmd_of(fm, t, pos), occurs_b(t, q, w1)] fmd_of(fm, t, pos) && 0 <= q < t.len() && occurs_b(t, q, w1) implies occurs_b(t, q, w3) by {
        assert(occurs_b(t, q, w2));
    }
}
proof fn lemma_ext_prefix(fm: &FMIndex, w1: Seq<u8>, w2: Seq<u8>)
    requires w2.len() <= w1.len(), w1.subrange(0, w2.len() as int) =~= w2
    ensures ext(fm, w1, w2)
{
    assert forall|t: Seq<u8>, pos: Seq<usize>, q: int| #![trigger fmd_of(fm, t, pos), occurs_b(t, q, w1)] fmd_of(fm, t, pos) && 0 <= q < t.len() && occurs_b(t, q, w1) implies occurs_b(t, q, w2) by {
        assert(t.subrange(q, q + w2.len()) =~= t.subrange(q, q + w1.len()).subrange(0, w2.len() as int));
    }
}
proof fn lemma_occurs_prepend(t: Seq<u8>, q: int, a: u8, w: Seq<u8>)
    requires 0 <= q < t.len()
    ensures occurs_b(t, q, seq![a] + w) <==> (t[q] == a && occurs_b(t, q + 1, w))
{
    let aw = seq![a] + w; let m = w.len() as int;
    if occurs_b(t, q, aw) {
        assert(t.subrange(q, q + m + 1)[0] == aw[0]);
        assert(t.subrange(q + 1, q + 1 + m) =~= aw.subrange(1, m + 1));
        assert(aw.subrange(1, m + 1) =~= w);
    }
    if t[q] == a && occurs_b(t, q + 1, w) {
        assert(t.subrange(q, q + m + 1) =~= seq![a] + t.subrange(q + 1, q + 1 + m));
    }
}
proof fn lemma_ext_prepend(fm: &FMIndex, a: u8, w1: Seq<u8>, w2: Seq<u8>)
    requires ext(fm, w1, w2), w1.len() >= 1
    ensures ext(fm, seq![a] + w1, seq![a] + w2)
{
    let aw1 = seq![a] + w1;
    assert forall|t: Seq<u8>, pos: Seq<usize>, q: int| #![trigger fmd_of(fm, t, pos), occurs_b(t, q, aw1)] fmd_of(fm, t, pos) && 0 <= q < t.len() && occurs_b(t, q, aw1) implies occurs_b(t, q, seq![a] + w2) by {
        lemma_occurs_prepend(t, q, a, w1); lemma_occurs_prepend(t, q, a, w2);
        assert(occurs_b(t, q + 1, w1));
    }
}
proof fn lemma_absent_ext(fm: &FMIndex, w1: Seq<u8>, w2: Seq<u8>)
    requires ext(fm, w1, w2), absent(fm, w2)
    ensures absent(fm, w1)
{
    assert forall|t: Seq<u8>, pos: Seq<usize>, q: int| #[trigger] fmd_of(fm, t, pos) && 0 <= q < t.len() implies !#[trigger] occurs_b(t, q, w1) by {
        if occurs_b(t, q, w1) { assert(occurs_b(t, q, w2)); }
    }
}
proof fn lemma_absent_gives_ext(fm: &FMIndex, w1: Seq<u8>, w2: Seq<u8>)
    requires absent(fm, w1)
    ensures ext(fm, w1, w2)
{ }
proof fn lemma_absent_prepend(fm: &FMIndex, a: u8, w: Seq<u8>)
    requires absent(fm, w), w.len() >= 1
    ensures absent(fm, seq![a] + w)
{
    let aw = seq![a] + w;
    assert forall|t: Seq<u8>, pos: Seq<usize>, q: int| #[trigger] fmd_of(fm, t, pos) && 0 <= q < t.len() implies !#[trigger] occurs_b(t, q, aw) by {
        lemma_occurs_prepend(t, q, a, w);
        if occurs_b(t, q, aw) { assert(!occurs_b(t, q + 1, w)); }
    }
}
/// nested words whose exact intervals have the same non-zero size have the same occurrences
proof fn lemma_same_size(fm: &FMIndex, w1: Seq<u8>, iv1: BiInterval, w2: Seq<u8>, iv2: BiInterval)
    requires exact(fm, w1, iv1), exact(fm, w2, iv2), w1.len() <= w2.len(), w2.subrange(0, w1.len() as int) =~= w1, iv1.sz() == iv2.sz(), iv1.sz() >= 1
    ensures ext(fm, w1, w2)
{
    assert forall|t: Seq<u8>, pos: Seq<usize>, q: int| #![trigger fmd_of(fm, t, pos), occurs_b(t, q, w1)] fmd_of(fm, t, pos) && 0 <= q < t.len() && occurs_b(t, q, w1) implies occurs_b(t, q, w2) by {
        assert(bi_ok(t, pos, w1, iv1.lo(), iv1.lo_rev(), iv1.sz()));
        assert(bi_ok(t, pos, w2, iv2.lo(), iv2.lo_rev(), iv2.sz()));
        let n = t.len() as int;
        assert(hits(pos, n, q));
        let x = choose|x: int| 0 <= x < n && #[trigger] pos[x] == q;
        assert(occurs_b(t, pos[x] as int, w1));
        // the first row of w2 is a row of w1, and so is the last: equal sizes force equal bounds
        let y0 = iv2.lo(); let y1 = iv2.lo() + iv2.sz() - 1;
        assert(occurs_b(t, pos[y0] as int, w2)); assert(occurs_b(t, pos[y1] as int, w2));
        assert(t.subrange(pos[y0] as int, pos[y0] as int + w1.len()) =~= t.subrange(pos[y0] as int, pos[y0] as int + w2.len()).subrange(0, w1.len() as int));
        assert(t.subrange(pos[y1] as int, pos[y1] as int + w1.len()) =~= t.subrange(pos[y1] as int, pos[y1] as int + w2.len()).subrange(0, w1.len() as int));
        assert(occurs_b(t, pos[y0] as int, w1)); assert(occurs_b(t, pos[y1] as int, w1));
        assert(occurs_b(t, pos[x] as int, w2));
    }
}
/// the work list at start s, longest first: match lengths never increase; the longest entry is right-maximal at s; every occurrence of an
/// entry extended by one symbol extends all the way to the next longer entry
#[verifier::opaque]
pub open spec fn chain_ok(fm: &FMIndex, pat: Seq<u8>, s: int, lst: Seq<(BiInterval, usize)>) -> bool {
    &&& forall|x: int, y: int| 0 <= x < y < lst.len() ==> (#[trigger] lst[x]).1 >= (#[trigger] lst[y]).1
    &&& forall|x: int| 0 <= x < lst.len() ==> (#[trigger] lst[x]).1 >= 1 || lst.len() == 1
    &&& (lst.len() >= 1 && lst[0].1 >= 1) ==> rmaxp(fm, pat, s, s + lst[0].1)
    &&& forall|x: int| 1 <= x < lst.len() ==> s + (#[trigger] lst[x]).1 + 1 <= pat.len()
            && ext(fm, pat.subrange(s, s + lst[x].1 + 1), pat.subrange(s, s + lst[x - 1].1))
}
/// what an entry of length ml at start k+1 needs in order to be appended (one symbol longer) to the list cur at start k
pub open spec fn join_req(fm: &FMIndex, pat: Seq<u8>, k: int, cur: Seq<(BiInterval, usize)>, ml: int) -> bool {
    let e = k + 1 + ml;
    if cur.len() == 0 { rmaxp(fm, pat, k, e) }
    else { cur[cur.len() - 1].1 >= ml + 1 && ext(fm, pat.subrange(k, e + 1), pat.subrange(k, k + cur[cur.len() - 1].1)) }
}
proof fn lemma_chain_empty(fm: &FMIndex, pat: Seq<u8>, k: int)
    ensures chain_ok(fm, pat, k, Seq::<(BiInterval, usize)>::empty())
{ reveal(chain_ok); }
proof fn lemma_chain_facts(fm: &FMIndex, pat: Seq<u8>, s: int, lst: Seq<(BiInterval, usize)>)
    requires chain_ok(fm, pat, s, lst)
    ensures forall|x: int, y: int| 0 <= x < y < lst.len() ==> (#[trigger] lst[x]).1 >= (#[trigger] lst[y]).1,
        (lst.len() >= 1 && lst[0].1 >= 1) ==> rmaxp(fm, pat, s, s + lst[0].1),
        forall|x: int| 0 <= x < lst.len() ==> (#[trigger] lst[x]).1 >= 1 || lst.len() == 1,
        forall|x: int| 1 <= x < lst.len() ==> s + (#[trigger] lst[x]).1 + 1 <= pat.len(),
{ reveal(chain_ok); }
proof fn lemma_chain_push(fm: &FMIndex, pat: Seq<u8>, k: int, c0: Seq<(BiInterval, usize)>, nw: (BiInterval, usize))
    requires chain_ok(fm, pat, k, c0), nw.1 >= 1, join_req(fm, pat, k, c0, nw.1 - 1), c0.len() >= 1 ==> k + nw.1 + 1 <= pat.len()
    ensures chain_ok(fm, pat, k, c0.push(nw))
{
    reveal(chain_ok);
    let c1 = c0.push(nw); let m = c0.len() as int;
    assert forall|y: int, z: int| 0 <= y < z < c1.len() implies (#[trigger] c1[y]).1 >= (#[trigger] c1[z]).1 by {
        assert(c1[y] == c0[y]);
        if z < m { assert(c1[z] == c0[z]); } else if y < m - 1 { assert(c0[y].1 >= c0[m - 1].1); }
    }
    assert forall|y: int| 0 <= y < c1.len() implies (#[trigger] c1[y]).1 >= 1 || c1.len() == 1 by { if y < m { assert(c1[y] == c0[y]); if y < m - 1 { assert(c0[y].1 >= c0[m - 1].1); } } }
    assert forall|y: int| 1 <= y < c1.len() implies k + (#[trigger] c1[y]).1 + 1 <= pat.len() && ext(fm, pat.subrange(k, k + c1[y].1 + 1), pat.subrange(k, k + c1[y - 1].1)) by {
        if y < m { assert(c1[y] == c0[y] && c1[y - 1] == c0[y - 1]); } else { assert(c1[y - 1] == c0[m - 1]); }
    }
    if m >= 1 { assert(c1[0] == c0[0]); }
}
/// first requirement of a round: the longest entry stays right-maximal when the start moves left
proof fn lemma_join_first(fm: &FMIndex, pat: Seq<u8>, k: int, pv: Seq<(BiInterval, usize)>)
    requires chain_ok(fm, pat, k + 1, pv), pv.len() >= 1, pv[0].1 >= 1, 0 <= k, k + 1 + pv[0].1 <= pat.len()
    ensures join_req(fm, pat, k, Seq::<(BiInterval, usize)>::empty(), pv[0].1 as int)
{
    reveal(chain_ok);
    let e = k + 1 + pv[0].1;
    if e < pat.len() {
        lemma_absent_prepend(fm, pat[k], pat.subrange(k + 1, e + 1));
        assert(seq![pat[k]] + pat.subrange(k + 1, e + 1) =~= pat.subrange(k, e + 1));
    }
}
/// requirement of the next entry after entry x has been pushed (c1 = c0 + [(fwd, ml+1)]), has failed (fwd empty) or has been dropped
/// (fwd as large as the last entry kept)
proof fn lemma_join_next(fm: &FMIndex, pat: Seq<u8>, ii: int, k: int, pv: Seq<(BiInterval, usize)>, x: int, c0: Seq<(BiInterval, usize)>, c1: Seq<(BiInterval, usize)>, fwd: BiInterval)
    requires 0 <= k, chain_ok(fm, pat, k + 1, pv), 0 <= x, x + 1 < pv.len(), pv[x + 1].1 >= 1, k + 1 + pv[x].1 <= pat.len(), pat.len() < 0x7fff_ffff_fff0,
        exact(fm, pat.subrange(k, k + 1 + pv[x].1), fwd),
        forall|y: int| 0 <= y < c0.len() ==> elem_ok(fm, pat, ii, k, #[trigger] c0[y]),
        c0.len() >= 1 ==> c0[c0.len() - 1].1 >= pv[x].1 + 1,
        c1 == c0.push((fwd, (pv[x].1 + 1) as usize)) || (c1 == c0 && (fwd.sz() == 0 || (c0.len() >= 1 && fwd.sz() == c0[c0.len() - 1].0.sz()))),
        fwd.sz() >= 0,
    ensures join_req(fm, pat, k, c1, pv[x + 1].1 as int)
{
    reveal(chain_ok);
    let s = k + 1; let a = pat[k]; let ml = pv[x].1 as int; let e = s + ml; let ml1 = pv[x + 1].1 as int; let e1 = s + ml1;
    assert(pv[x].1 >= pv[x + 1].1);
    let aw = pat.subrange(k, e);
    let u1 = pat.subrange(s, e1 + 1); let u2 = pat.subrange(s, e);
    assert(ext(fm, u1, u2)) by { assert(ext(fm, pat.subrange(s, s + pv[x + 1].1 + 1), pat.subrange(s, s + pv[x + 1 - 1].1))); }
    let v1 = pat.subrange(k, e1 + 1);
    assert(e1 + 1 <= pat.len());
    lemma_ext_prepend(fm, a, u1, u2);
    assert(seq![a] + u1 =~= v1);
    assert(seq![a] + u2 =~= aw);
    assert(ext(fm, v1, aw));
    if c1 == c0 {
        if fwd.sz() == 0 {
            lemma_absent(fm, aw, fwd);
            lemma_absent_ext(fm, v1, aw);
            if c0.len() >= 1 { lemma_absent_gives_ext(fm, v1, pat.subrange(k, k + c0[c0.len() - 1].1)); }
        } else {
            let c = c0[c0.len() - 1]; let wc = pat.subrange(k, k + c.1);
            assert(elem_ok(fm, pat, ii, k, c));
            assert(wc.subrange(0, aw.len() as int) =~= aw);
            lemma_same_size(fm, aw, fwd, wc, c.0);
            lemma_ext_trans(fm, v1, aw, wc);
        }
    } else {
        assert(c1[c1.len() - 1] == (fwd, (pv[x].1 + 1) as usize));
    }
}
/// the forward list (shortest first) while the current word has length cur: every occurrence of a recorded word extended by one
/// symbol extends to the next recorded word, and those of the last recorded one to the current word
#[verifier::opaque]
pub open spec fn fwd_chain(fm: &FMIndex, pat: Seq<u8>, i: int, lst: Seq<(BiInterval, usize)>, cur: int) -> bool {
    &&& i + cur <= pat.len()
    &&& forall|x: int, y: int| 0 <= x < y < lst.len() ==> (#[trigger] lst[x]).1 < (#[trigger] lst[y]).1
    &&& forall|x: int| 0 <= x < lst.len() ==> 1 <= (#[trigger] lst[x]).1 < cur
    &&& forall|x: int| 0 <= x < lst.len() - 1 ==> ext(fm, pat.subrange(i, i + (#[trigger] lst[x]).1 + 1), pat.subrange(i, i + lst[x + 1].1))
    &&& lst.len() >= 1 ==> ext(fm, pat.subrange(i, i + lst[lst.len() - 1].1 + 1), pat.subrange(i, i + cur))
}
proof fn lemma_fwd_empty(fm: &FMIndex, pat: Seq<u8>, i: int, cur: int)
    requires i + cur <= pat.len()
    ensures fwd_chain(fm, pat, i, Seq::<(BiInterval, usize)>::empty(), cur)
{ reveal(fwd_chain); }
proof fn lemma_fwd_push(fm: &FMIndex, pat: Seq<u8>, i: int, c0: Seq<(BiInterval, usize)>, iv: BiInterval, ml: usize)
    requires fwd_chain(fm, pat, i, c0, ml as int), ml >= 1, i + ml + 1 <= pat.len()
    ensures fwd_chain(fm, pat, i, c0.push((iv, ml)), ml + 1)
{
    reveal(fwd_chain);
    let c1 = c0.push((iv, ml)); let m = c0.len() as int;
    let wa = pat.subrange(i, i + ml + 1);
    lemma_ext_prefix(fm, wa, wa);
    assert forall|x: int| 0 <= x < c1.len() - 1 implies ext(fm, pat.subrange(i, i + (#[trigger] c1[x]).1 + 1), pat.subrange(i, i + c1[x + 1].1)) by {
        if x < m - 1 { assert(c1[x] == c0[x] && c1[x + 1] == c0[x + 1]); } else { assert(c1[x] == c0[x]); }
    }
    assert forall|x: int, y: int| 0 <= x < y < c1.len() implies (#[trigger] c1[x]).1 < (#[trigger] c1[y]).1 by { assert(c1[x] == c0[x]); if y < m { assert(c1[y] == c0[y]); } }
    assert forall|x: int| 0 <= x < c1.len() implies 1 <= (#[trigger] c1[x]).1 < ml + 1 by { if x < m { assert(c1[x] == c0[x]); } }
}
proof fn lemma_fwd_same(fm: &FMIndex, pat: Seq<u8>, i: int, c0: Seq<(BiInterval, usize)>, ml: int, iv: BiInterval, fwd: BiInterval)
    requires fwd_chain(fm, pat, i, c0, ml), ml >= 1, i + ml + 1 <= pat.len(), 0 <= i,
        exact(fm, pat.subrange(i, i + ml), iv), exact(fm, pat.subrange(i, i + ml + 1), fwd), iv.sz() == fwd.sz(), iv.sz() >= 1
    ensures fwd_chain(fm, pat, i, c0, ml + 1)
{
    reveal(fwd_chain);
    let w = pat.subrange(i, i + ml); let wa = pat.subrange(i, i + ml + 1);
    assert(wa.subrange(0, w.len() as int) =~= w);
    lemma_same_size(fm, w, iv, wa, fwd);
    if c0.len() >= 1 { lemma_ext_trans(fm, pat.subrange(i, i + c0[c0.len() - 1].1 + 1), w, wa); }
}
/// the forward list plus the final interval, reversed, is a work list at start i
proof fn lemma_fwd_to_chain(fm: &FMIndex, pat: Seq<u8>, i: int, c1: Seq<(BiInterval, usize)>, iv: BiInterval, ml: usize, brk: bool, rv: Seq<(BiInterval, usize)>)
    requires fwd_chain(fm, pat, i, c1, ml + (if brk { 1int } else { 0int })), 0 <= i,
        ml >= 1 ==> rmaxp(fm, pat, i, i + ml), ml == 0 ==> c1.len() == 0,
        brk && ml >= 1 ==> c1.len() >= 1 && c1[c1.len() - 1].1 == ml,
        rv == c1.push((iv, ml)).reverse(),
    ensures chain_ok(fm, pat, i, rv), forall|x: int| 0 <= x < rv.len() ==> #[trigger] rv[x] == c1.push((iv, ml))[rv.len() - 1 - x], rv.len() == c1.len() + 1
{
    reveal(fwd_chain); reveal(chain_ok);
    let c2 = c1.push((iv, ml)); let n = rv.len() as int;
    assert forall|x: int| 0 <= x < n implies #[trigger] rv[x] == c2[n - 1 - x] by { }
    assert forall|x: int, y: int| 0 <= x < y < n implies (#[trigger] rv[x]).1 >= (#[trigger] rv[y]).1 by {
        assert(c2[n - 1 - y] == c1[n - 1 - y]);
        if x > 0 { assert(c2[n - 1 - x] == c1[n - 1 - x]); }
    }
    assert forall|x: int| 0 <= x < n implies (#[trigger] rv[x]).1 >= 1 || n == 1 by { if x > 0 { assert(c2[n - 1 - x] == c1[n - 1 - x]); } }
    assert forall|x: int| 1 <= x < n implies i + (#[trigger] rv[x]).1 + 1 <= pat.len() && ext(fm, pat.subrange(i, i + rv[x].1 + 1), pat.subrange(i, i + rv[x - 1].1)) by {
        assert(c2[n - 1 - x] == c1[n - 1 - x]);
        if x >= 2 { assert(c2[n - x] == c1[n - x]); }
        else if brk {
            let e = pat.subrange(i, i + ml + 1);
            assert(e.subrange(0, ml as int) =~= pat.subrange(i, i + ml));
            lemma_ext_prefix(fm, e, pat.subrange(i, i + ml));
        }
    }
}

// ---------------- completeness bookkeeping ----------------
/// pat[p..e] is a supermaximal exact match that covers position i and has length at least l
#[verifier::opaque]
pub open spec fn tgt(fm: &FMIndex, pat: Seq<u8>, i: int, l: int, p: int, e: int) -> bool {
    &&& 0 <= p <= i < e <= pat.len() && e - p >= l
    &&& !absent(fm, pat.subrange(p, e))
    &&& p == 0 || absent(fm, pat.subrange(p - 1, e))
    &&& rmaxp(fm, pat, p, e)
}
pub open spec fn recorded(lst: Seq<(BiInterval, usize)>, from: int, m: int) -> bool { exists|y: int| from <= y < lst.len() && 0 <= y && (#[trigger] lst[y]).1 == m }
pub open spec fn reported(ms: Seq<(BiInterval, usize, usize)>, p: int, len: int) -> bool { exists|y: int| 0 <= y < ms.len() && (#[trigger] ms[y]).1 == p && ms[y].2 == len }
/// a sub-word of a word that occurs occurs
proof fn lemma_absent_sub(fm: &FMIndex, pat: Seq<u8>, p: int, e: int, p2: int, e2: int)
    requires 0 <= p <= p2 < e2 <= e <= pat.len(), absent(fm, pat.subrange(p2, e2))
    ensures absent(fm, pat.subrange(p, e))
{
    let w = pat.subrange(p, e); let w2 = pat.subrange(p2, e2);
    assert forall|t: Seq<u8>, pos: Seq<usize>, q: int| #[trigger] fmd_of(fm, t, pos) && 0 <= q < t.len() implies !#[trigger] occurs_b(t, q, w) by {
        if occurs_b(t, q, w) {
            assert(t.subrange(q + (p2 - p), q + (p2 - p) + w2.len()) =~= t.subrange(q, q + w.len()).subrange(p2 - p, e2 - p));
            assert(w.subrange(p2 - p, e2 - p) =~= w2);
            assert(occurs_b(t, q + (p2 - p), w2));
        }
    }
}
/// if every occurrence of pat[i..e] continues with pat[e], so does every occurrence of pat[p..e] (p <= i)
proof fn lemma_glue_ext(fm: &FMIndex, pat: Seq<u8>, p: int, i: int, e: int, e2: int)
    requires 0 <= p <= i < e < e2 <= pat.len(), ext(fm, pat.subrange(i, e), pat.subrange(i, e2))
    ensures ext(fm, pat.subrange(p, e), pat.subrange(p, e2))
{
    let w = pat.subrange(p, e); let w2 = pat.subrange(p, e2); let u = pat.subrange(i, e); let u2 = pat.subrange(i, e2);
    assert forall|t: Seq<u8>, pos: Seq<usize>, q: int| #![trigger fmd_of(fm, t, pos), occurs_b(t, q, w)] fmd_of(fm, t, pos) && 0 <= q < t.len() && occurs_b(t, q, w) implies occurs_b(t, q, w2) by {
        let d = i - p;
        assert(t.subrange(q + d, q + d + u.len()) =~= t.subrange(q, q + w.len()).subrange(d, e - p));
        assert(w.subrange(d, e - p) =~= u);
        assert(occurs_b(t, q + d, u));
        assert(occurs_b(t, q + d, u2));
        assert(t.subrange(q, q + w2.len()) =~= w2) by {
            assert forall|z: int| 0 <= z < w2.len() implies t[q + z] == w2[z] by {
                if z < e - p { assert(t.subrange(q, q + w.len())[z] == w[z]); } else { assert(t.subrange(q + d, q + d + u2.len())[z - d] == u2[z - d]); }
            }
        }
    }
}
/// an exact interval of a word that occurs is not empty; of a word that does not occur, it is
proof fn lemma_exact_size(fm: &FMIndex, w: Seq<u8>, iv: BiInterval)
    requires exact(fm, w, iv), exists|t: Seq<u8>, pos: Seq<usize>| fmd_of(fm, t, pos)
    ensures absent(fm, w) <==> iv.sz() == 0, iv.sz() >= 0
{
    let (t, pos) = choose|t: Seq<u8>, pos: Seq<usize>| fmd_of(fm, t, pos);
    assert(bi_ok(t, pos, w, iv.lo(), iv.lo_rev(), iv.sz()));
    if iv.sz() == 0 { lemma_absent(fm, w, iv); }
    else { assert(occurs_b(t, pos[iv.lo()] as int, w)); }
}

/// forward phase: every length at which some occurrence of pat[i..i+m] does not continue with the next pattern symbol has been recorded
#[verifier::opaque]
pub open spec fn fwd_rec(fm: &FMIndex, pat: Seq<u8>, i: int, lst: Seq<(BiInterval, usize)>, cur: int) -> bool {
    forall|m: int| 1 <= m < cur && !#[trigger] ext(fm, pat.subrange(i, i + m), pat.subrange(i, i + m + 1)) ==> recorded(lst, 0, m)
}
proof fn lemma_fwd_rec_empty(fm: &FMIndex, pat: Seq<u8>, i: int, lst: Seq<(BiInterval, usize)>, cur: int)
    requires cur <= 1
    ensures fwd_rec(fm, pat, i, lst, cur)
{ reveal(fwd_rec); }
proof fn lemma_fwd_rec_push(fm: &FMIndex, pat: Seq<u8>, i: int, c0: Seq<(BiInterval, usize)>, iv: BiInterval, ml: usize)
    requires fwd_rec(fm, pat, i, c0, ml as int)
    ensures fwd_rec(fm, pat, i, c0.push((iv, ml)), ml + 1)
{
    reveal(fwd_rec);
    let c1 = c0.push((iv, ml));
    assert forall|m: int| 1 <= m < ml + 1 && !#[trigger] ext(fm, pat.subrange(i, i + m), pat.subrange(i, i + m + 1)) implies recorded(c1, 0, m) by {
        if m < ml { let y = choose|y: int| 0 <= y < c0.len() && 0 <= y && (#[trigger] c0[y]).1 == m; assert(c1[y] == c0[y]); }
        else { assert(c1[c0.len() as int].1 == m); }
    }
}
proof fn lemma_fwd_rec_same(fm: &FMIndex, pat: Seq<u8>, i: int, c0: Seq<(BiInterval, usize)>, ml: int)
    requires fwd_rec(fm, pat, i, c0, ml), ext(fm, pat.subrange(i, i + ml), pat.subrange(i, i + ml + 1))
    ensures fwd_rec(fm, pat, i, c0, ml + 1)
{ reveal(fwd_rec); }
pub open spec fn c1_inv(fm: &FMIndex, pat: Seq<u8>, i: int, l: int, k: int, lst: Seq<(BiInterval, usize)>) -> bool {
    forall|p: int, e: int| #[trigger] tgt(fm, pat, i, l, p, e) && p <= k ==> recorded(lst, 0, e - k)
}
pub open spec fn c2_inv(fm: &FMIndex, pat: Seq<u8>, i: int, l: int, k: int, ms: Seq<(BiInterval, usize, usize)>) -> bool {
    forall|p: int, e: int| #[trigger] tgt(fm, pat, i, l, p, e) && p > k ==> reported(ms, p, e - p)
}
pub open spec fn i1_inv(fm: &FMIndex, pat: Seq<u8>, i: int, l: int, k: int, pv: Seq<(BiInterval, usize)>, x: int, cur: Seq<(BiInterval, usize)>) -> bool {
    forall|p: int, e: int| #[trigger] tgt(fm, pat, i, l, p, e) && p <= k ==> recorded(cur, 0, e - k) || recorded(pv, x, e - (k + 1))
}
pub open spec fn i3_inv(fm: &FMIndex, pat: Seq<u8>, i: int, l: int, s: int, pv: Seq<(BiInterval, usize)>, x: int, ms: Seq<(BiInterval, usize, usize)>) -> bool {
    forall|e: int| #[trigger] tgt(fm, pat, i, l, s, e) ==> (x == 0 && recorded(pv, 0, e - s)) || reported(ms, s, e - s)
}
/// every supermaximal match covering i has its end recorded by the forward phase
proof fn lemma_fwd_targets(fm: &FMIndex, pat: Seq<u8>, i: int, l: int, c1: Seq<(BiInterval, usize)>, iv: BiInterval, ml: usize, brk: bool, rv: Seq<(BiInterval, usize)>)
    requires fwd_rec(fm, pat, i, c1, ml + (if brk { 1int } else { 0int })), rv == c1.push((iv, ml)).reverse(), 0 <= i < pat.len(), i + ml <= pat.len(),
        ml >= 1 ==> rmaxp(fm, pat, i, i + ml), ml == 0 ==> absent(fm, pat.subrange(i, i + 1)),
    ensures c1_inv(fm, pat, i, l, i, rv)
{
    let c2 = c1.push((iv, ml)); let n = rv.len() as int;
    assert forall|x: int| 0 <= x < n implies #[trigger] rv[x] == c2[n - 1 - x] by { }
    assert forall|p: int, e: int| #[trigger] tgt(fm, pat, i, l, p, e) && p <= i implies recorded(rv, 0, e - i) by {
        reveal(tgt); reveal(fwd_rec);
        let m = e - i;
        if ml == 0 { lemma_absent_sub(fm, pat, p, e, i, i + 1); assert(false); }
        if m > ml { lemma_absent_sub(fm, pat, p, e, i, i + ml + 1); assert(false); }
        if m == ml { assert(rv[0] == c2[n - 1]); assert(rv[0].1 == m); }
        else {
            if ext(fm, pat.subrange(i, e), pat.subrange(i, e + 1)) {
                lemma_glue_ext(fm, pat, p, i, e, e + 1);
                lemma_absent_ext(fm, pat.subrange(p, e), pat.subrange(p, e + 1));
                assert(false);
            }
            assert(i + m == e && i + m + 1 == e + 1);
            assert(!ext(fm, pat.subrange(i, i + m), pat.subrange(i, i + m + 1)));
            assert(recorded(c1, 0, m));
            let y = choose|y: int| 0 <= y < c1.len() && 0 <= y && (#[trigger] c1[y]).1 == m;
            assert(c2[y] == c1[y]);
            assert(rv[n - 1 - y] == c2[y]);
            assert(rv[n - 1 - y].1 == m);
        }
    }
}
proof fn lemma_reported_push(ms: Seq<(BiInterval, usize, usize)>, nw: (BiInterval, usize, usize), p: int, len: int)
    requires reported(ms, p, len)
    ensures reported(ms.push(nw), p, len)
{
    let y = choose|y: int| 0 <= y < ms.len() && (#[trigger] ms[y]).1 == p && ms[y].2 == len;
    assert(ms.push(nw)[y] == ms[y]);
}
/// start of a round
proof fn lemma_round_start(fm: &FMIndex, pat: Seq<u8>, i: int, l: int, k: int, pv: Seq<(BiInterval, usize)>, ms: Seq<(BiInterval, usize, usize)>)
    requires c1_inv(fm, pat, i, l, k + 1, pv), c2_inv(fm, pat, i, l, k + 1, ms)
    ensures i1_inv(fm, pat, i, l, k, pv, 0, Seq::<(BiInterval, usize)>::empty()), i3_inv(fm, pat, i, l, k + 1, pv, 0, ms)
{ }
/// end of a round: what is left in curr carries all the matches that start further left; everything starting at k+1 or later is reported
proof fn lemma_round_end(fm: &FMIndex, pat: Seq<u8>, i: int, l: int, k: int, pv: Seq<(BiInterval, usize)>, cur: Seq<(BiInterval, usize)>, ms: Seq<(BiInterval, usize, usize)>)
    requires k >= 0 ==> i1_inv(fm, pat, i, l, k, pv, pv.len() as int, cur), c2_inv(fm, pat, i, l, k + 1, ms), i3_inv(fm, pat, i, l, k + 1, pv, pv.len() as int, ms), pv.len() >= 1, k >= -1
    ensures k >= 0 ==> c1_inv(fm, pat, i, l, k, cur), c2_inv(fm, pat, i, l, k, ms),
        cur.len() == 0 ==> forall|p: int, e: int| #[trigger] tgt(fm, pat, i, l, p, e) ==> reported(ms, p, e - p),
{
    assert forall|p: int, e: int| #[trigger] tgt(fm, pat, i, l, p, e) && p > k implies reported(ms, p, e - p) by { }
    if cur.len() == 0 {
        assert forall|p: int, e: int| #[trigger] tgt(fm, pat, i, l, p, e) implies reported(ms, p, e - p) by {
            if p <= k { if k >= 0 { assert(recorded(cur, 0, e - k) || recorded(pv, pv.len() as int, e - (k + 1))); } else { reveal(tgt); } }
        }
    }
}
/// one entry of a round
proof fn lemma_round_step(fmd: &FMDIndex, pat: Seq<u8>, i: int, l: int, k: int, j: int, pv: Seq<(BiInterval, usize)>, x: int,
        c0: Seq<(BiInterval, usize)>, c1: Seq<(BiInterval, usize)>, fwd: BiInterval, ms0: Seq<(BiInterval, usize, usize)>, ms1: Seq<(BiInterval, usize, usize)>)
    requires -1 <= k < i < pat.len(), pat.len() < 0x7fff_ffff_fff0, 0 <= x < pv.len(), l >= 1,
        exists|t: Seq<u8>, pos: Seq<usize>| fmd_of(fmd.fm(), t, pos),
        forall|y: int| 0 <= y < pv.len() ==> elem_ok(fmd.fm(), pat, i, k + 1, #[trigger] pv[y]),
        chain_ok(fmd.fm(), pat, k + 1, pv),
        k >= 0 ==> forall|y: int| 0 <= y < c0.len() ==> elem_ok(fmd.fm(), pat, i, k, #[trigger] c0[y]),
        (k >= 0 && pv[x].1 >= 1) ==> exact(fmd.fm(), pat.subrange(k, k + 1 + pv[x].1), fwd),
        (k >= 0 && pv[x].1 >= 1) ==> join_req(fmd.fm(), pat, k, c0, pv[x].1 as int),
        fwd.sz() >= 0, c0.len() <= x, x == 0 ==> k < j,
        // what the code did with this entry
        ({ let last_size = if c0.len() == 0 { -1 } else { c0[c0.len() - 1].0.sz() };
           if fwd.sz() != 0 && fwd.sz() != last_size { c1 == c0.push((fwd, (pv[x].1 + 1) as usize)) } else { c1 == c0 } }),
        if (fwd.sz() == 0 || k == -1) && c0.len() == 0 && k < j && pv[x].1 >= l { ms1 == ms0.push((pv[x].0, (k + 1) as usize, pv[x].1)) } else { ms1 == ms0 },
        k >= 0 ==> i1_inv(fmd.fm(), pat, i, l, k, pv, x, c0), c2_inv(fmd.fm(), pat, i, l, k + 1, ms0), i3_inv(fmd.fm(), pat, i, l, k + 1, pv, x, ms0),
    ensures k >= 0 ==> i1_inv(fmd.fm(), pat, i, l, k, pv, x + 1, c1), c2_inv(fmd.fm(), pat, i, l, k + 1, ms1), i3_inv(fmd.fm(), pat, i, l, k + 1, pv, x + 1, ms1),
{
    let fm = fmd.fm(); let s = k + 1; let ml = pv[x].1 as int; let e0 = s + ml;
    lemma_chain_facts(fm, pat, s, pv);
    assert(elem_ok(fm, pat, i, s, pv[x]));
    // reports persist
    assert forall|p: int, e: int| #[trigger] tgt(fm, pat, i, l, p, e) && p > s implies reported(ms1, p, e - p) by {
        if ms1 != ms0 { lemma_reported_push(ms0, (pv[x].0, (k + 1) as usize, pv[x].1), p, e - p); }
    }
    // matches that start at s: the first entry is the one, and it is reported now
    assert forall|e: int| #[trigger] tgt(fm, pat, i, l, s, e) implies reported(ms1, s, e - s) by {
        if reported(ms0, s, e - s) {
            if ms1 != ms0 { lemma_reported_push(ms0, (pv[x].0, (k + 1) as usize, pv[x].1), s, e - s); }
        } else {
            reveal(tgt);
            assert(x == 0 && recorded(pv, 0, e - s));
            let y = choose|y: int| 0 <= y < pv.len() && 0 <= y && (#[trigger] pv[y]).1 == e - s;
            if y > 0 { assert(pv[0].1 >= pv[y].1); }
            if pv[0].1 > e - s {
                // a longer entry occurs, but the match cannot be extended to the right
                assert(elem_ok(fm, pat, i, s, pv[0]));
                lemma_exact_size(fm, pat.subrange(s, s + pv[0].1), pv[0].0);
                lemma_absent_sub(fm, pat, s, s + pv[0].1, s, e + 1);
                assert(false);
            }
            assert(ml == e - s);
            if k >= 0 { lemma_exact_size(fm, pat.subrange(k, e), fwd); }
            assert(ms1 == ms0.push((pv[x].0, (k + 1) as usize, pv[x].1)));
            assert(ms1[ms0.len() as int] == (pv[x].0, (k + 1) as usize, pv[x].1));
        }
    }
    if k >= 0 {
        assert forall|p: int, e: int| #[trigger] tgt(fm, pat, i, l, p, e) && p <= k implies recorded(c1, 0, e - k) || recorded(pv, x + 1, e - s) by {
            if recorded(c0, 0, e - k) {
                let y = choose|y: int| 0 <= y < c0.len() && 0 <= y && (#[trigger] c0[y]).1 == e - k;
                if c1 != c0 { assert(c1[y] == c0[y]); }
            } else {
                assert(recorded(pv, x, e - s));
                let y = choose|y: int| x <= y < pv.len() && 0 <= y && (#[trigger] pv[y]).1 == e - s;
                if y == x {
                    reveal(tgt);
                    let aw = pat.subrange(k, e);
                    assert(ml == e - s && ml >= 1);
                    // the extended word occurs, being part of the match
                    if absent(fm, aw) { lemma_absent_sub(fm, pat, p, e, k, e); }
                    lemma_exact_size(fm, aw, fwd);
                    if c1 == c0 {
                        // dropped: same size as the last entry kept, which is strictly longer - impossible for a right-maximal match
                        let c = c0[c0.len() - 1]; let wc = pat.subrange(k, k + c.1);
                        assert(elem_ok(fm, pat, i, k, c));
                        if c.1 == ml + 1 { assert(recorded(c0, 0, e - k)); }
                        else {
                            assert(wc.subrange(0, aw.len() as int) =~= aw);
                            lemma_same_size(fm, aw, fwd, wc, c.0);
                            let a1 = pat.subrange(k, e + 1);
                            assert(wc.subrange(0, a1.len() as int) =~= a1);
                            lemma_ext_prefix(fm, wc, a1);
                            lemma_ext_trans(fm, aw, wc, a1);
                            if p < k { lemma_glue_ext(fm, pat, p, k, e, e + 1); }
                            lemma_absent_ext(fm, pat.subrange(p, e), pat.subrange(p, e + 1));
                            assert(false);
                        }
                    } else {
                        assert(c1[c0.len() as int] == (fwd, (pv[x].1 + 1) as usize));
                        assert(c1[c0.len() as int].1 == e - k);
                    }
                }
            }
        }
    }
}
/// an entry (interval, match length) of the work lists: the exact, non-empty bi-interval of pat[start..start+ml], which covers position i
/// (or the one degenerate entry when pat[i] does not occur at all)
pub open spec fn elem_ok(fm: &FMIndex, pat: Seq<u8>, i: int, start: int, e: (BiInterval, usize)) -> bool {
    let iv = e.0; let ml = e.1 as int;
    &&& 0 <= start <= i && start + ml <= pat.len() && iv.msz() <= ml + 1
    &&& if ml >= 1 { iv.sz() >= 1 && start + ml > i && exact(fm, pat.subrange(start, start + ml), iv) }
        else { iv.sz() == 0 && 1 <= iv.lo() <= fm.n() && 1 <= iv.lo_rev() <= fm.n() }
}
/// a reported match (interval, start, length)
pub open spec fn res_ok(fm: &FMIndex, pat: Seq<u8>, i: int, l: int, m: (BiInterval, usize, usize)) -> bool {
    let iv = m.0; let p = m.1 as int; let len = m.2 as int;
    &&& 0 <= p <= i < p + len <= pat.len() && len >= l
    // its forward interval holds exactly the occurrences of the match, its reverse interval exactly those of the reverse complement
    &&& iv.sz() >= 1 && exact(fm, pat.subrange(p, p + len), iv)
    // it cannot be extended to the left
    &&& p == 0 || absent(fm, pat.subrange(p - 1, p + len))
    // nor to the right
    &&& rmaxp(fm, pat, p, p + len)
}
proof fn lemma_elem_fits(fmd: &FMDIndex, pat: Seq<u8>, i: int, start: int, e: (BiInterval, usize))
    requires elem_ok(fmd.fm(), pat, i, start, e), exists|t: Seq<u8>, pos: Seq<usize>| fmd_of(fmd.fm(), t, pos), pat.len() < 0x7fff_ffff_fff0,
    ensures fmd.fits(&e.0)
{
    let fm = fmd.fm();
    let (t, pos) = choose|t: Seq<u8>, pos: Seq<usize>| fmd_of(fm, t, pos);
    if e.1 >= 1 { assert(bi_ok(t, pos, pat.subrange(start, start + e.1), e.0.lo(), e.0.lo_rev(), e.0.sz())); }
}
/// the laws of the abstract index follow from its counting the BWT of a text; '$' occurs, so every other symbol has a smaller one
proof fn lemma_count_sub(b: Seq<u8>, l: int, r: int, a: u8)
    requires 0 <= l <= r <= b.len()
    ensures 0 <= count(b.subrange(0, r), a) - count(b.subrange(0, l), a) <= r - l, count(b.subrange(0, 0), a) == 0
    decreases r - l
{
    assert(b.subrange(0, 0) =~= Seq::<u8>::empty());
    if r > l { lemma_count_sub(b, l, r - 1, a); assert(b.subrange(0, r).drop_last() =~= b.subrange(0, r - 1)); }
}
proof fn lemma_countlt_mono(b: Seq<u8>, c: int, d: int)
    requires c <= d
    ensures 0 <= count_lt(b, c) <= count_lt(b, d) <= b.len()
    decreases b.len()
{ if b.len() > 0 { lemma_countlt_mono(b.drop_last(), c, d); } }
proof fn lemma_countlt_pos(b: Seq<u8>, c: int, x: int)
    requires 0 <= x < b.len(), (b[x] as int) < c
    ensures count_lt(b, c) >= 1
    decreases b.len()
{
    if x < b.len() - 1 { lemma_countlt_pos(b.drop_last(), c, x); }
    else { lemma_countlt_mono(b.drop_last(), c, c); }
}
proof fn lemma_wf_of(fm: &FMIndex, t: Seq<u8>, pos: Seq<usize>)
    requires fmd_of(fm, t, pos), t.len() < 0x7fff_ffff_ffff,
        // sless is only constrained on bytes by index_of; beyond 255 it is the total
        fm.sless(256) == fm.n(),
    ensures fm.wf(), forall|a: u8| a > 36 ==> #[trigger] fm.sless(a as int) >= 1
{
    let n = t.len() as int; let b = bwseq_b(t, pos); let ix = ix_of(fm);
    assert forall|r: int, a: u8| 0 <= r < n implies 0 <= #[trigger] fm.socc(r, a) <= r + 1 by {
        assert((ix.occ)(r, a) == count(b.subrange(0, r + 1), a));
        lemma_count_sub(b, 0, r + 1, a);
    }
    assert forall|l: int, r: int, a: u8| 0 <= l <= r < n implies 0 <= #[trigger] fm.socc(r, a) - #[trigger] fm.socc(l, a) <= r - l by {
        assert((ix.occ)(r, a) == count(b.subrange(0, r + 1), a)); assert((ix.occ)(l, a) == count(b.subrange(0, l + 1), a));
        lemma_count_sub(b, l + 1, r + 1, a);
    }
    assert forall|a: int| 0 <= a <= 256 implies 0 <= #[trigger] fm.sless(a) <= n by {
        if a < 256 { assert((ix.less)(a as u8) == count_lt(b, a)); lemma_countlt_mono(b, a, a); }
    }
    assert forall|a: int, c: int| 0 <= a <= c <= 256 implies #[trigger] fm.sless(a) <= #[trigger] fm.sless(c) by {
        if c < 256 { assert((ix.less)(a as u8) == count_lt(b, a)); assert((ix.less)(c as u8) == count_lt(b, c)); lemma_countlt_mono(b, a, c); }
        else if a < 256 { assert((ix.less)(a as u8) == count_lt(b, a)); lemma_countlt_mono(b, a, a); }
    }
    assert forall|a: u8| a > 36 implies #[trigger] fm.sless(a as int) >= 1 by {
        assert((ix.less)(a) == count_lt(b, a as int));
        assert(hits(pos, n, 0));
        let x = choose|x: int| 0 <= x < n && #[trigger] pos[x] == 0;
        assert(b[x] == t[n - 1]);
        lemma_countlt_pos(b, a as int, x);
    }
}


// ---------------- all_smems ----------------
/// pat[p..e] is a supermaximal exact match of length at least l (covering whatever position)
pub open spec fn smem(fm: &FMIndex, pat: Seq<u8>, l: int, p: int, e: int) -> bool {
    &&& 0 <= p < e <= pat.len() && e - p >= l
    &&& !absent(fm, pat.subrange(p, e))
    &&& p == 0 || absent(fm, pat.subrange(p - 1, e))
    &&& rmaxp(fm, pat, p, e)
}
proof fn lemma_smem_tgt(fm: &FMIndex, pat: Seq<u8>, i: int, l: int, p: int, e: int)
    ensures tgt(fm, pat, i, l, p, e) <==> (smem(fm, pat, l, p, e) && p <= i < e)
{ reveal(tgt); }
/// m is a supermaximal match (covering some position) of length at least l with its exact bi-interval
pub open spec fn res_any(fm: &FMIndex, pat: Seq<u8>, l: int, m: (BiInterval, usize, usize)) -> bool { exists|i: int| res_ok(fm, pat, i, l, m) }
/// all matches that end at or before position i0 have been reported
pub open spec fn upto(fm: &FMIndex, pat: Seq<u8>, l: int, i0: int, ms: Seq<(BiInterval, usize, usize)>) -> bool {
    forall|p: int, e: int| #[trigger] smem(fm, pat, l, p, e) && e <= i0 ==> reported(ms, p, e - p)
}
proof fn lemma_reported_append(ms: Seq<(BiInterval, usize, usize)>, more: Seq<(BiInterval, usize, usize)>, p: int, len: int)
    requires reported(ms, p, len) || reported(more, p, len)
    ensures reported(ms + more, p, len)
{
    if reported(ms, p, len) {
        let y = choose|y: int| 0 <= y < ms.len() && (#[trigger] ms[y]).1 == p && ms[y].2 == len;
        assert((ms + more)[y] == ms[y]);
    } else {
        let y = choose|y: int| 0 <= y < more.len() && (#[trigger] more[y]).1 == p && more[y].2 == len;
        assert((ms + more)[ms.len() + y] == more[y]);
    }
}
/// one round of all_smems: after the matches covering i0 have been added, everything ending at or before the furthest end is reported
proof fn lemma_all_step(fm: &FMIndex, pat: Seq<u8>, l: int, i0: int, nx: int, ms: Seq<(BiInterval, usize, usize)>, cs: Seq<(BiInterval, usize, usize)>)
    requires 0 <= i0 < pat.len(), l >= 1, upto(fm, pat, l, i0, ms),
        forall|x: int| 0 <= x < cs.len() ==> res_ok(fm, pat, i0, l, #[trigger] cs[x]),
        forall|p: int, e: int| #[trigger] tgt(fm, pat, i0, l, p, e) ==> reported(cs, p, e - p),
        nx >= i0 + 1, forall|x: int| 0 <= x < cs.len() ==> (#[trigger] cs[x]).1 + cs[x].2 <= nx,
        nx == i0 + 1 || exists|x: int| 0 <= x < cs.len() && nx == (#[trigger] cs[x]).1 + cs[x].2,
    ensures upto(fm, pat, l, nx, ms + cs)
{
    assert forall|p: int, e: int| #[trigger] smem(fm, pat, l, p, e) && e <= nx implies reported(ms + cs, p, e - p) by {
        if e <= i0 { lemma_reported_append(ms, cs, p, e - p); }
        else if p <= i0 { lemma_smem_tgt(fm, pat, i0, l, p, e); lemma_reported_append(ms, cs, p, e - p); }
        else {
            // i0 < p < e <= nx: nx is the end of a reported match that starts at or before i0 and so contains pat[p-1..e]
            let x = choose|x: int| 0 <= x < cs.len() && nx == (#[trigger] cs[x]).1 + cs[x].2;
            assert(res_ok(fm, pat, i0, l, cs[x]));
            let p1 = cs[x].1 as int; let e1 = p1 + cs[x].2;
            lemma_exact_nonabsent(fm, pat.subrange(p1, e1), cs[x].0);
            if absent(fm, pat.subrange(p - 1, e)) { lemma_absent_sub(fm, pat, p1, e1, p - 1, e); }
            assert(false);
        }
    }
}
proof fn lemma_exact_nonabsent(fm: &FMIndex, w: Seq<u8>, iv: BiInterval)
    requires exact(fm, w, iv), iv.sz() >= 1, exists|t: Seq<u8>, pos: Seq<usize>| fmd_of(fm, t, pos)
    ensures !absent(fm, w)
{ lemma_exact_size(fm, w, iv); }

// ---------------- SMEM search ----------------
proof fn lemma_in_order(a: u8)
    requires in_srt(a)
    ensures in_order(a), in_order(compb(a)), in_srt(compb(a)), a != 36 ==> compb(a) != 36
{
    lemma_idx_of();
    assert(order()[idx_of(a)] == a);
    assert(order()[idx_of(compb(a))] == compb(a));
}
/// iv is the exact bi-interval of w on every text this index can stand for
pub open spec fn exact(fm: &FMIndex, w: Seq<u8>, iv: BiInterval) -> bool {
    forall|t: Seq<u8>, pos: Seq<usize>| #[trigger] fmd_of(fm, t, pos) ==> bi_ok(t, pos, w, iv.lo(), iv.lo_rev(), iv.sz())
}
/// w occurs nowhere in any text this index can stand for
pub open spec fn absent(fm: &FMIndex, w: Seq<u8>) -> bool {
    forall|t: Seq<u8>, pos: Seq<usize>, q: int| #[trigger] fmd_of(fm, t, pos) && 0 <= q < t.len() ==> !#[trigger] occurs_b(t, q, w)
}
proof fn lemma_absent(fm: &FMIndex, w: Seq<u8>, iv: BiInterval)
    requires exact(fm, w, iv), iv.sz() == 0
    ensures absent(fm, w)
{
    assert forall|t: Seq<u8>, pos: Seq<usize>, q: int| #[trigger] fmd_of(fm, t, pos) && 0 <= q < t.len() implies !#[trigger] occurs_b(t, q, w) by {
        assert(bi_ok(t, pos, w, iv.lo(), iv.lo_rev(), iv.sz()));
        assert(hits(pos, t.len() as int, q));
        let x = choose|x: int| 0 <= x < t.len() && #[trigger] pos[x] == q;
        assert(!occurs_b(t, pos[x] as int, w));
    }
}
/// an entry (interval, match length) of the work lists: the exact, non-empty bi-interval of pat[start..start+ml], which covers position i
/// (or the one degenerate entry when pat[i] does not occur at all)
pub open spec fn elem_ok(fm: &FMIndex, pat: Seq<u8>, i: int, start: int, e: (BiInterval, usize)) -> bool {
    let iv = e.0; let ml = e.1 as int;
    &&& 0 <= start <= i && start + ml <= pat.len() && iv.msz() <= ml + 1
    &&& if ml >= 1 { iv.sz() >= 1 && start + ml > i && exact(fm, pat.subrange(start, start + ml), iv) }
        else { iv.sz() == 0 && 1 <= iv.lo() <= fm.n() && 1 <= iv.lo_rev() <= fm.n() }
}
/// a reported match (interval, start, length)
pub open spec fn res_ok(fm: &FMIndex, pat: Seq<u8>, i: int, l: int, m: (BiInterval, usize, usize)) -> bool {
    let iv = m.0; let p = m.1 as int; let len = m.2 as int;
    &&& 0 <= p <= i < p + len <= pat.len() && len >= l
    // its forward interval holds exactly the occurrences of the match, its reverse interval exactly those of the reverse complement
    &&& iv.sz() >= 1 && exact(fm, pat.subrange(p, p + len), iv)
    // it cannot be extended to the left
    &&& p == 0 || absent(fm, pat.subrange(p - 1, p + len))
}
proof fn lemma_elem_fits(fmd: &FMDIndex, pat: Seq<u8>, i: int, start: int, e: (BiInterval, usize))
    requires elem_ok(fmd.fm(), pat, i, start, e), exists|t: Seq<u8>, pos: Seq<usize>| fmd_of(fmd.fm(), t, pos), pat.len() < 0x7fff_ffff_fff0,
    ensures fmd.fits(&e.0)
{
    let fm = fmd.fm();
    let (t, pos) = choose|t: Seq<u8>, pos: Seq<usize>| fmd_of(fm, t, pos);
    if e.1 >= 1 { assert(bi_ok(t, pos, pat.subrange(start, start + e.1), e.0.lo(), e.0.lo_rev(), e.0.sz())); }
}
/// the laws of the abstract index follow from its counting the BWT of a text; '$' occurs, so every other symbol has a smaller one
proof fn lemma_count_sub(b: Seq<u8>, l: int, r: int, a: u8)
    requires 0 <= l <= r <= b.len()
    ensures 0 <= count(b.subrange(0, r), a) - count(b.subrange(0, l), a) <= r - l, count(b.subrange(0, 0), a) == 0
    decreases r - l
{
    assert(b.subrange(0, 0) =~= Seq::<u8>::empty());
    if r > l { lemma_count_sub(b, l, r - 1, a); assert(b.subrange(0, r).drop_last() =~= b.subrange(0, r - 1)); }
}
proof fn lemma_countlt_mono(b: Seq<u8>, c: int, d: int)
    requires c <= d
    ensures 0 <= count_lt(b, c) <= count_lt(b, d) <= b.len()
    decreases b.len()
{ if b.len() > 0 { lemma_countlt_mono(b.drop_last(), c, d); } }
proof fn lemma_countlt_pos(b: Seq<u8>, c: int, x: int)
    requires 0 <= x < b.len(), (b[x] as int) < c
    ensures count_lt(b, c) >= 1
    decreases b.len()
{
    if x < b.len() - 1 { lemma_countlt_pos(b.drop_last(), c, x); }
    else { lemma_countlt_mono(b.drop_last(), c, c); }
}
proof fn lemma_wf_of(fm: &FMIndex, t: Seq<u8>, pos: Seq<usize>)
    requires fmd_of(fm, t, pos), t.len() < 0x7fff_ffff_ffff,
        // sless is only constrained on bytes by index_of; beyond 255 it is the total
        fm.sless(256) == fm.n(),
    ensures fm.wf(), forall|a: u8| a > 36 ==> #[trigger] fm.sless(a as int) >= 1
{
    let n = t.len() as int; let b = bwseq_b(t, pos); let ix = ix_of(fm);
    assert forall|r: int, a: u8| 0 <= r < n implies 0 <= #[trigger] fm.socc(r, a) <= r + 1 by {
        assert((ix.occ)(r, a) == count(b.subrange(0, r + 1), a));
        lemma_count_sub(b, 0, r + 1, a);
    }
    assert forall|l: int, r: int, a: u8| 0 <= l <= r < n implies 0 <= #[trigger] fm.socc(r, a) - #[trigger] fm.socc(l, a) <= r - l by {
        assert((ix.occ)(r, a) == count(b.subrange(0, r + 1), a)); assert((ix.occ)(l, a) == count(b.subrange(0, l + 1), a));
        lemma_count_sub(b, l + 1, r + 1, a);
    }
    assert forall|a: int| 0 <= a <= 256 implies 0 <= #[trigger] fm.sless(a) <= n by {
        if a < 256 { assert((ix.less)(a as u8) == count_lt(b, a)); lemma_countlt_mono(b, a, a); }
    }
    assert forall|a: int, c: int| 0 <= a <= c <= 256 implies #[trigger] fm.sless(a) <= #[trigger] fm.sless(c) by {
        if c < 256 { assert((ix.less)(a as u8) == count_lt(b, a)); assert((ix.less)(c as u8) == count_lt(b, c)); lemma_countlt_mono(b, a, c); }
        else if a < 256 { assert((ix.less)(a as u8) == count_lt(b, a)); lemma_countlt_mono(b, a, a); }
    }
    assert forall|a: u8| a > 36 implies #[trigger] fm.sless(a as int) >= 1 by {
        assert((ix.less)(a) == count_lt(b, a as int));
        assert(hits(pos, n, 0));
        let x = choose|x: int| 0 <= x < n && #[trigger] pos[x] == 0;
        assert(b[x] == t[n - 1]);
        lemma_countlt_pos(b, a as int, x);
    }
}


    #[verifier::exec_allows_no_decreases_clause]
    pub fn smems(&self, pattern: &[u8], i: usize, l: usize) -> (res: Vec<(BiInterval, usize, usize)>)
        requires
            // the index stands for a reverse-complement-closed DNA text with a sorted suffix array
            exists|t: Seq<u8>, pos: Seq<usize>| fmd_of(self.fm(), t, pos),
            self.fm().wf(), forall|a: u8| a > 36 ==> #[trigger] self.fm().sless(a as int) >= 1,
            dna_word(pattern@), i < pattern@.len() < 0x7fff_ffff_fff0, l >= 1,
        ensures forall|x: int| 0 <= x < res@.len() ==> res_ok(self.fm(), pattern@, i as int, l as int, #[trigger] res@[x]),
    {
        let ghost fm = &self.fmindex; let ghost pat = pattern@;
        let curr = &mut Vec::new(); // pairs (biinterval, current match length)
        let prev = &mut Vec::new(); // """
        let mut matches = Vec::new(); // triples (biinterval, position on pattern, smem length)

        let mut match_len: usize = 0;
        let mut interval = self.init_interval_with(pattern[i]);
        proof { assert(in_srt(pat[i as int]) && pat[i as int] != 36); lemma_in_order(pat[i as int]); }
        if interval.size != 0 {
            match_len += 1;
        }
        proof {
            assert(pat.subrange(i as int, i + 1) =~= seq![pat[i as int]]);
            assert(pat[i as int] > 36 && compb(pat[i as int]) > 36);
            assert(elem_ok(fm, pat, i as int, i as int, (interval, match_len)));
        }

        for __i in it: i + 1..pattern.len()
            invariant_except_break
                match_len >= 1 ==> i + match_len == __i,
            invariant
                fm == &self.fmindex, pat == pattern@, fm.wf(), dna_word(pat), i < pat.len() < 0x7fff_ffff_fff0,
                exists|t: Seq<u8>, pos: Seq<usize>| fmd_of(fm, t, pos),
                elem_ok(fm, pat, i as int, i as int, (interval, match_len)),
                forall|x: int| 0 <= x < curr@.len() ==> elem_ok(fm, pat, i as int, i as int, #[trigger] curr@[x]),
        { let a = pattern[__i];
            proof { lemma_elem_fits(self, pat, i as int, i as int, (interval, match_len)); assert(in_srt(pat[__i as int]) && pat[__i as int] != 36); }
            // forward extend interval
            let forward_interval = self.forward_ext(&interval, a);

            // if size changed, add last interval to list
            if interval.size != forward_interval.size {
                curr.push((interval, match_len));
            }
            // if new interval size is zero, stop, as no further forward extension is possible
            if forward_interval.size == 0 {
                break;
            }
            proof {
                let w = pat.subrange(i as int, i + match_len);
                assert(match_len >= 1);
                assert(w.push(a) =~= pat.subrange(i as int, i + match_len + 1));
                assert forall|t: Seq<u8>, pos: Seq<usize>| #[trigger] fmd_of(fm, t, pos) implies bi_ok(t, pos, w.push(a), forward_interval.lo(), forward_interval.lo_rev(), forward_interval.sz()) by {
                    assert(bi_ok(t, pos, w, interval.lo(), interval.lo_rev(), interval.sz()));
                }
            }
            interval = forward_interval;
            match_len += 1;
        }
        // add the last non-zero interval
        curr.push((interval, match_len));
        // reverse intervals such that longest comes first
        curr.reverse();

        swap(curr, prev);
        let mut j = pattern.len() as isize;

        { let mut k: isize = i as isize; while k > -1
            invariant_except_break
                k >= 0 ==> forall|x: int| 0 <= x < prev@.len() ==> elem_ok(fm, pat, i as int, k as int, #[trigger] prev@[x]),
            invariant
                fm == &self.fmindex, pat == pattern@, fm.wf(), dna_word(pat), i < pat.len() < 0x7fff_ffff_fff0, l >= 1,
                exists|t: Seq<u8>, pos: Seq<usize>| fmd_of(fm, t, pos),
                -1 <= k <= i, -1 <= j <= pat.len(),
                forall|x: int| 0 <= x < matches@.len() ==> res_ok(fm, pat, i as int, l as int, #[trigger] matches@[x]),
        { k -= 1;
            let a = if k == -1 { b'$' } else { pattern[k as usize] };
            curr.clear();
            // size of the last confirmed interval
            let mut last_size: isize = -1;

            for __e in it2: prev.iter()
                invariant
                    fm == &self.fmindex, pat == pattern@, fm.wf(), dna_word(pat), i < pat.len() < 0x7fff_ffff_fff0, l >= 1,
                    exists|t: Seq<u8>, pos: Seq<usize>| fmd_of(fm, t, pos),
                    -1 <= k < i, -1 <= j <= pat.len(), a == (if k == -1 { 36u8 } else { pat[k as int] }),
                    forall|x: int| 0 <= x < prev@.len() ==> elem_ok(fm, pat, i as int, k + 1, #[trigger] prev@[x]),
                    k >= 0 ==> forall|x: int| 0 <= x < curr@.len() ==> elem_ok(fm, pat, i as int, k as int, #[trigger] curr@[x]),
                    forall|x: int| 0 <= x < matches@.len() ==> res_ok(fm, pat, i as int, l as int, #[trigger] matches@[x]),
            { let (interval, match_len) = __e;
                proof {
                    assert(*__e == prev@[it2.index@ as int]);
                    lemma_elem_fits(self, pat, i as int, k + 1, *__e);
                    if k >= 0 { assert(in_srt(pat[k as int]) && pat[k as int] != 36); lemma_in_order(a); } else { lemma_idx_of(); assert(order()[0] == 36); }
                }
                // backward extend interval
                let forward_interval = self.backward_ext(interval, a);
                proof {
                    if *match_len >= 1 && k >= 0 {
                        let ml = *match_len as int; let w = pat.subrange(k + 1, k + 1 + ml);
                        assert(seq![a] + w =~= pat.subrange(k as int, k + 1 + ml));
                        assert forall|t: Seq<u8>, pos: Seq<usize>| #[trigger] fmd_of(fm, t, pos) implies bi_ok(t, pos, seq![a] + w, forward_interval.lo(), forward_interval.lo_rev(), forward_interval.sz()) by {
                            assert(bi_ok(t, pos, w, interval.lo(), interval.lo_rev(), interval.sz()));
                        }
                        if forward_interval.sz() == 0 { lemma_absent(fm, seq![a] + w, forward_interval); }
                    }
                }

                if (forward_interval.size == 0 || k == -1) &&
                        // interval could not be extended further
                        // if no interval has been extended this iteration,
                        // interval is maximal and can be added to the matches
                        curr.is_empty() && k < j &&
                        *match_len >= l
                {
                    j = k;
                    matches.push((*interval, (k + 1) as usize, *match_len));
                }
                // add _interval to curr (will be further extended next iteration)
                if forward_interval.size != 0 && forward_interval.size as isize != last_size {
                    last_size = forward_interval.size as isize;
                    curr.push((forward_interval, match_len + 1));
                }
            }
            if curr.is_empty() {
                break;
            }
            swap(curr, prev);
        } }

        matches
    }

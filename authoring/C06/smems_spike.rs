    #[verifier::exec_allows_no_decreases_clause]
    pub fn smems(&self, pattern: &[u8], i: usize, l: usize) -> (res: Vec<(BiInterval, usize, usize)>)
        requires
            // the index stands for a reverse-complement-closed DNA text with a sorted suffix array
            exists|t: Seq<u8>, pos: Seq<usize>| fmd_of(self.fm(), t, pos),
            self.fm().wf(), forall|a: u8| a > 36 ==> #[trigger] self.fm().sless(a as int) >= 1,
            dna_word(pattern@), i < pattern@.len() < 0x7fff_ffff_fff0, l >= 1,
        ensures
            // nothing else: every reported triple is a supermaximal match covering i of length >= l, with its exact bi-interval
            forall|x: int| 0 <= x < res@.len() ==> res_ok(self.fm(), pattern@, i as int, l as int, #[trigger] res@[x]),
            // everything: every supermaximal match covering i of length >= l is reported
            forall|p: int, e: int| #[trigger] tgt(self.fm(), pattern@, i as int, l as int, p, e) ==> reported(res@, p, e - p),
    {
        let ghost fm = &self.fmindex; let ghost pat = pattern@; let ghost ii = i as int; let ghost ll = l as int;
        let curr = &mut Vec::new(); // pairs (biinterval, current match length)
        let prev = &mut Vec::new(); // """
        let mut matches = Vec::new(); // triples (biinterval, position on pattern, smem length)

        let mut match_len: usize = 0;
        let mut interval = self.init_interval_with(pattern[i]);
        proof { assert(in_srt(pat[ii]) && pat[ii] != 36); lemma_in_order(pat[ii]); }
        if interval.size != 0 {
            match_len += 1;
        }
        proof {
            assert(pat.subrange(ii, ii + 1) =~= seq![pat[ii]]);
            assert(pat[ii] > 36 && compb(pat[ii]) > 36);
            assert(elem_ok(fm, pat, ii, ii, (interval, match_len)));
            lemma_fwd_empty(fm, pat, ii, match_len as int);
            lemma_fwd_rec_empty(fm, pat, ii, curr@, match_len as int);
            assert(exact(fm, seq![pat[ii]], interval));
            if match_len == 0 { lemma_absent(fm, seq![pat[ii]], interval); }
        }
        let ghost mut brk = false;

        for __i in it: i + 1..pattern.len()
            invariant_except_break
                !brk, match_len >= 1 ==> match_len == it.index@ + 1,
            invariant
                fm == &self.fmindex, pat == pattern@, ii == i, fm.wf(), dna_word(pat), i < pat.len() < 0x7fff_ffff_fff0,
                exists|t: Seq<u8>, pos: Seq<usize>| fmd_of(fm, t, pos),
                elem_ok(fm, pat, ii, ii, (interval, match_len)),
                forall|x: int| 0 <= x < curr@.len() ==> elem_ok(fm, pat, ii, ii, #[trigger] curr@[x]),
                fwd_chain(fm, pat, ii, curr@, match_len + (if brk { 1int } else { 0int })),
                fwd_rec(fm, pat, ii, curr@, match_len + (if brk { 1int } else { 0int })),
                match_len == 0 ==> curr@.len() == 0 && absent(fm, pat.subrange(ii, ii + 1)),
                brk && match_len >= 1 ==> curr@.len() >= 1 && curr@[curr@.len() - 1].1 == match_len && rmaxp(fm, pat, ii, ii + match_len),
            ensures
                !brk && match_len >= 1 ==> ii + match_len == pat.len(),
        { let a = pattern[__i];
            proof { assert(self.fm() == fm); assert(__i == i + 1 + it.index@); lemma_elem_fits(self, pat, ii, ii, (interval, match_len)); assert(in_srt(pat[__i as int]) && pat[__i as int] != 36); }
            // forward extend interval
            let forward_interval = self.forward_ext(&interval, a);
            let ghost w = pat.subrange(ii, ii + match_len);
            let ghost wa = pat.subrange(ii, ii + match_len + 1);
            proof {
                if match_len >= 1 {
                    assert(w.push(a) =~= wa);
                    assert forall|t: Seq<u8>, pos: Seq<usize>| #[trigger] fmd_of(fm, t, pos) implies bi_ok(t, pos, wa, forward_interval.lo(), forward_interval.lo_rev(), forward_interval.sz()) by {
                        assert(bi_ok(t, pos, w, interval.lo(), interval.lo_rev(), interval.sz()));
                    }
                    assert(exact(fm, wa, forward_interval));
                }
            }

            // if size changed, add last interval to list
            if interval.size != forward_interval.size {
                proof { lemma_fwd_push(fm, pat, ii, curr@, interval, match_len); lemma_fwd_rec_push(fm, pat, ii, curr@, interval, match_len); }
                curr.push((interval, match_len));
            }
            proof {
                if interval.sz() == forward_interval.sz() {
                    if match_len >= 1 {
                        lemma_fwd_same(fm, pat, ii, curr@, match_len as int, interval, forward_interval);
                        assert(wa.subrange(0, w.len() as int) =~= w);
                        lemma_same_size(fm, w, interval, wa, forward_interval);
                        lemma_fwd_rec_same(fm, pat, ii, curr@, match_len as int);
                    } else { lemma_fwd_empty(fm, pat, ii, 1); lemma_fwd_rec_empty(fm, pat, ii, curr@, 1); assert(curr@ =~= Seq::<(BiInterval, usize)>::empty()); }
                }
            }
            // if new interval size is zero, stop, as no further forward extension is possible
            if forward_interval.size == 0 {
                proof {
                    brk = true;
                    if match_len >= 1 { lemma_absent(fm, wa, forward_interval); }
                }
                break;
            }
            interval = forward_interval;
            match_len += 1;
        }
        let ghost c1 = curr@;
        // add the last non-zero interval
        curr.push((interval, match_len));
        // reverse intervals such that longest comes first
        curr.reverse();
        proof {
            lemma_fwd_to_chain(fm, pat, ii, c1, interval, match_len, brk, curr@);
            lemma_fwd_targets(fm, pat, ii, ll, c1, interval, match_len, brk, curr@);
            let c2 = c1.push((interval, match_len)); let n = curr@.len() as int;
            assert forall|x: int| 0 <= x < n implies elem_ok(fm, pat, ii, ii, #[trigger] curr@[x]) by { if n - 1 - x < c1.len() { assert(c2[n - 1 - x] == c1[n - 1 - x]); } }
        }

        swap(curr, prev);
        let mut j = pattern.len() as isize;
        let ghost mut done = false; let ghost mut kk = ii;
        proof { assert forall|p: int, e: int| #[trigger] tgt(fm, pat, ii, ll, p, e) && p > ii implies reported(matches@, p, e - p) by { reveal(tgt); } }

        { let mut k: isize = i as isize; while k > -1
            invariant_except_break
                k >= 0 ==> forall|x: int| 0 <= x < prev@.len() ==> elem_ok(fm, pat, ii, k as int, #[trigger] prev@[x]),
                k >= 0 ==> chain_ok(fm, pat, k as int, prev@),
                k >= 0 ==> c1_inv(fm, pat, ii, ll, k as int, prev@),
                prev@.len() >= 1, !done,
            invariant
                kk == k, c2_inv(fm, pat, ii, ll, kk, matches@),
                done ==> forall|p: int, e: int| #[trigger] tgt(fm, pat, ii, ll, p, e) ==> reported(matches@, p, e - p),
                fm == &self.fmindex, pat == pattern@, ii == i, ll == l, fm.wf(), dna_word(pat), i < pat.len() < 0x7fff_ffff_fff0, l >= 1,
                exists|t: Seq<u8>, pos: Seq<usize>| fmd_of(fm, t, pos),
                -1 <= k <= i, k <= j <= pat.len(),
                forall|x: int| 0 <= x < matches@.len() ==> res_ok(fm, pat, ii, l as int, #[trigger] matches@[x]),
            ensures !done ==> kk == -1,
        { k -= 1;
            let a = if k == -1 { b'$' } else { pattern[k as usize] };
            curr.clear();
            // size of the last confirmed interval
            let mut last_size: isize = -1;
            let ghost pv = prev@; let ghost s = k + 1;
            proof {
                lemma_chain_empty(fm, pat, k as int);
                lemma_chain_facts(fm, pat, s, pv);
                if k >= 0 && pv.len() >= 1 && pv[0].1 >= 1 { assert(elem_ok(fm, pat, ii, s, pv[0])); lemma_join_first(fm, pat, k as int, pv); }
                lemma_round_start(fm, pat, ii, ll, k as int, pv, matches@);
            }

            for __e in it2: prev.iter()
                invariant
                    fm == &self.fmindex, pat == pattern@, ii == i, ll == l, fm.wf(), dna_word(pat), i < pat.len() < 0x7fff_ffff_fff0, l >= 1,
                    exists|t: Seq<u8>, pos: Seq<usize>| fmd_of(fm, t, pos),
                    k >= 0 ==> i1_inv(fm, pat, ii, ll, k as int, pv, it2.index@ as int, curr@), c2_inv(fm, pat, ii, ll, s, matches@), i3_inv(fm, pat, ii, ll, s, pv, it2.index@ as int, matches@),
                    -1 <= k < i, k <= j <= pat.len(), a == (if k == -1 { 36u8 } else { pat[k as int] }), s == k + 1, pv == prev@,
                    forall|x: int| 0 <= x < pv.len() ==> elem_ok(fm, pat, ii, s, #[trigger] pv[x]),
                    chain_ok(fm, pat, s, pv),
                    forall|x: int| 0 <= x < matches@.len() ==> res_ok(fm, pat, ii, l as int, #[trigger] matches@[x]),
                    // no second report in one round: once the first entry has been seen, either it was reported (j == k), or it was extended
                    // (curr is not empty), or it is too short - and then so are all later ones
                    it2.index@ == 0 ==> k < j, curr@.len() <= it2.index@,
                    (it2.index@ >= 1 && curr@.len() == 0) ==> (j == k || pv[0].1 < l),
                    last_size == (if curr@.len() == 0 { -1 } else { curr@[curr@.len() - 1].0.sz() }),
                    k >= 0 ==> forall|x: int| 0 <= x < curr@.len() ==> elem_ok(fm, pat, ii, k as int, #[trigger] curr@[x]),
                    k >= 0 ==> chain_ok(fm, pat, k as int, curr@),
                    // what the next entry needs in order to join curr
                    (k >= 0 && it2.index@ < pv.len() && pv[it2.index@ as int].1 >= 1) ==> join_req(fm, pat, k as int, curr@, pv[it2.index@ as int].1 as int),
            { let (interval, match_len) = __e;
                let ghost x = it2.index@ as int; let ghost ml = *match_len as int; let ghost e = s + ml; let ghost c0 = curr@; let ghost ms0 = matches@; let ghost j0 = j as int;
                proof {
                    assert(*__e == pv[x]);
                    assert(self.fm() == fm);
                    lemma_elem_fits(self, pat, ii, s, *__e);
                    lemma_chain_facts(fm, pat, s, pv);
                    if k >= 0 { assert(in_srt(pat[k as int]) && pat[k as int] != 36); lemma_in_order(a); } else { lemma_idx_of(); assert(order()[0] == 36); }
                }
                // backward extend interval
                let forward_interval = self.backward_ext(interval, a);
                let ghost w = pat.subrange(s, e); let ghost aw = pat.subrange(k as int, e);
                proof {
                    if ml >= 1 && k >= 0 {
                        assert(seq![a] + w =~= aw);
                        assert forall|t: Seq<u8>, pos: Seq<usize>| #[trigger] fmd_of(fm, t, pos) implies bi_ok(t, pos, aw, forward_interval.lo(), forward_interval.lo_rev(), forward_interval.sz()) by {
                            assert(bi_ok(t, pos, w, interval.lo(), interval.lo_rev(), interval.sz()));
                        }
                        assert(exact(fm, aw, forward_interval));
                        if forward_interval.sz() == 0 { lemma_absent(fm, aw, forward_interval); }
                    }
                }

                if (forward_interval.size == 0 || k == -1) &&
                        // interval could not be extended further
                        // if no interval has been extended this iteration,
                        // interval is maximal and can be added to the matches
                        curr.is_empty() && k < j &&
                        *match_len >= l
                {
                    proof {
                        // only the first (longest) entry can get here
                        if x >= 1 { assert(pv[0].1 >= pv[x].1); }
                        assert(x == 0);
                        assert(rmaxp(fm, pat, s, e));
                    }
                    j = k;
                    matches.push((*interval, (k + 1) as usize, *match_len));
                }
                // add _interval to curr (will be further extended next iteration)
                if forward_interval.size != 0 && forward_interval.size as isize != last_size {
                    last_size = forward_interval.size as isize;
                    proof { if k >= 0 { if x >= 1 { assert(s + pv[x].1 + 1 <= pat.len()); } lemma_chain_push(fm, pat, k as int, c0, (forward_interval, (*match_len + 1) as usize)); } }
                    curr.push((forward_interval, match_len + 1));
                }
                proof {
                    if k >= 0 && x + 1 < pv.len() && pv[x + 1].1 >= 1 {
                        assert(pv[x].1 >= pv[x + 1].1);
                        lemma_join_next(fm, pat, ii, k as int, pv, x, c0, curr@, forward_interval);
                    }
                    lemma_round_step(self, pat, ii, ll, k as int, j0, pv, x, c0, curr@, forward_interval, ms0, matches@);
                }
            }
            proof { lemma_round_end(fm, pat, ii, ll, k as int, pv, curr@, matches@); kk = k as int; }
            if curr.is_empty() {
                proof { done = true; }
                break;
            }
            swap(curr, prev);
        } }
        proof {
            if !done { assert(kk == -1); assert forall|p: int, e: int| #[trigger] tgt(fm, pat, ii, ll, p, e) implies reported(matches@, p, e - p) by { reveal(tgt); } }
        }

        matches
    }

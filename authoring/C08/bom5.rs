use vstd::prelude::*;
use std::iter::repeat;
verus!{
global size_of usize == 8;
pub open spec fn kv(k: Option<usize>) -> int { if k is Some { k->0 as int } else { -1int } }
pub type Tab = Seq<Map<usize, usize>>;
pub type Sf = Seq<Option<usize>>;
// ---------------- factor oracle: transitions, runs, suffix chains ----------------
pub open spec fn trans(tab: Tab, s: int, a: usize) -> Option<int> {
    if 0 <= s < tab.len() && tab[s].contains_key(a) { Some(tab[s][a] as int) } else { None }
}
/// state reached from state 0 by the word w (None: some transition is missing)
pub open spec fn run(tab: Tab, w: Seq<usize>) -> Option<int> decreases w.len() {
    if w.len() == 0 { Some(0int) } else { match run(tab, w.drop_last()) { Some(s) => trans(tab, s, w.last()), None => None } }
}
/// k is reachable from s along suffix links
pub open spec fn on_chain(sf: Sf, s: int, k: int) -> bool decreases s {
    s == k || (0 < s < sf.len() && sf[s] is Some && (sf[s]->0 as int) < s && on_chain(sf, sf[s]->0 as int, k))
}
/// tab1 has all transitions of tab0
pub open spec fn sub_tab(tab0: Tab, tab1: Tab) -> bool {
    tab0.len() <= tab1.len() && forall|s: int, b: usize| 0 <= s < tab0.len() && #[trigger] tab0[s].contains_key(b) ==> tab1[s].contains_key(b) && tab1[s][b] == tab0[s][b]
}
proof fn lemma_run_mono(tab0: Tab, tab1: Tab, w: Seq<usize>)
    requires sub_tab(tab0, tab1), run(tab0, w) is Some
    ensures run(tab1, w) == run(tab0, w)
    decreases w.len()
{
    if w.len() > 0 { lemma_run_mono(tab0, tab1, w.drop_last()); let s = run(tab0, w.drop_last())->0; assert(tab0[s].contains_key(w.last())); }
}
proof fn lemma_chain_le(sf: Sf, s: int, k: int)
    requires on_chain(sf, s, k)
    ensures k <= s
    decreases s
{ if s != k { lemma_chain_le(sf, sf[s]->0 as int, k); } }
proof fn lemma_chain_trans(sf: Sf, s: int, k: int, r: int)
    requires on_chain(sf, s, k), on_chain(sf, k, r)
    ensures on_chain(sf, s, r)
    decreases s
{ if s != k { lemma_chain_trans(sf, sf[s]->0 as int, k, r); } }
/// two states on the chain of s are on one chain
proof fn lemma_chain_linear(sf: Sf, s: int, u: int, v: int)
    requires on_chain(sf, s, u), on_chain(sf, s, v), v <= u
    ensures on_chain(sf, u, v)
    decreases s
{
    if s == u { } else if s == v { lemma_chain_le(sf, s, u); } else { lemma_chain_linear(sf, sf[s]->0 as int, u, v); }
}
/// chains only look at the links of states up to their start
proof fn lemma_chain_frame(sf0: Sf, sf1: Sf, s: int, k: int)
    requires on_chain(sf0, s, k), sf0.len() == sf1.len(), forall|x: int| 0 <= x <= s ==> #[trigger] sf0[x] == sf1[x]
    ensures on_chain(sf1, s, k)
    decreases s
{ if s != k { lemma_chain_frame(sf0, sf1, sf0[s]->0 as int, k); } }

/// the oracle of the first i symbols of pr (sources 0..i-1 in tab, suffix links of states 0..=i in sf)
pub open spec fn links_ok(sf: Sf, i: int) -> bool {
    sf[0] is None && forall|s: int| 1 <= s <= i ==> (#[trigger] sf[s]) is Some && (sf[s]->0 as int) < s
}
pub open spec fn edges_ok(tab: Tab, pr: Seq<usize>, i: int) -> bool {
    &&& forall|s: int, a: usize| 0 <= s < i && #[trigger] tab[s].contains_key(a) ==> s < tab[s][a] <= i && (a != pr[s] ==> tab[s][a] >= s + 2)
    &&& forall|s: int| 0 <= s < i ==> (#[trigger] tab[s]).contains_key(pr[s]) && tab[s][pr[s]] == s + 1
}
/// a transition out of k is matched by one out of its suffix state, ending on the suffix chain of the first
pub open spec fn has_edge(tab: Tab, k: int, a: usize) -> bool { tab[k].contains_key(a) }
pub open spec fn closed_ok(tab: Tab, sf: Sf, i: int) -> bool {
    forall|k: int, a: usize| 1 <= k < i && #[trigger] has_edge(tab, k, a) ==> tab[sf[k]->0 as int].contains_key(a)
        && on_chain(sf, tab[k][a] as int, tab[sf[k]->0 as int][a] as int)
}
/// every suffix of pr[0..i] is read, and ends on the suffix chain of state i
pub open spec fn suffixes_ok(tab: Tab, sf: Sf, pr: Seq<usize>, i: int) -> bool {
    forall|x: int| 0 <= x <= i ==> (#[trigger] run(tab, pr.subrange(x, i))) is Some && on_chain(sf, i, run(tab, pr.subrange(x, i))->0)
}
/// every factor of pr[0..i] is read
pub open spec fn factors_ok(tab: Tab, pr: Seq<usize>, i: int) -> bool {
    forall|x: int, y: int| 0 <= x <= y <= i ==> (#[trigger] run(tab, pr.subrange(x, y))) is Some
}
pub open spec fn oracle_ok(tab: Tab, sf: Sf, pr: Seq<usize>, i: int) -> bool {
    &&& 0 <= i <= pr.len() && tab.len() == i && sf.len() == pr.len() + 1
    &&& links_ok(sf, i) && edges_ok(tab, pr, i) && closed_ok(tab, sf, i) && suffixes_ok(tab, sf, pr, i) && factors_ok(tab, pr, i)
}
proof fn lemma_chain_zero(sf: Sf, i: int, s: int)
    requires links_ok(sf, i), 0 <= s <= i, i < sf.len()
    ensures on_chain(sf, s, 0)
    decreases s
{ if s > 0 { lemma_chain_zero(sf, i, sf[s]->0 as int); } }
/// below a state with an a-transition, every state of its chain has one, ending on the chain of the first target
proof fn lemma_chain_closed(tab: Tab, sf: Sf, i: int, k: int, r: int, a: usize)
    requires closed_ok(tab, sf, i), links_ok(sf, i), 0 <= k < i, i < sf.len(), tab.len() == i, tab[k].contains_key(a), on_chain(sf, k, r)
    ensures 0 <= r <= k, tab[r].contains_key(a), on_chain(sf, tab[k][a] as int, tab[r][a] as int)
    decreases k
{
    lemma_chain_le(sf, k, r);
    if k != r {
        let k1 = sf[k]->0 as int;
        assert(has_edge(tab, k, a));
        lemma_chain_le(sf, k1, r);
        lemma_chain_closed(tab, sf, i, k1, r, a);
        lemma_chain_trans(sf, tab[k][a] as int, tab[k1][a] as int, tab[r][a] as int);
    } else {
        // r >= 0: chains stay inside 0..
    }
}

/// what one round of the construction does: state i is added with the inner edge (i-1) --a--> i, the states of the suffix chain of i-1
/// above kstop (which had no a-edge) get an a-edge to i, and the suffix link of i is the a-target of kstop (0 if the chain was exhausted)
pub open spec fn upd(tab0: Tab, tab1: Tab, sf0: Sf, i: int, kstop: int, a: usize, s: int) -> bool {
    if on_chain(sf0, i - 1, s) && s > kstop { !tab0[s].contains_key(a) && tab1[s] == tab0[s].insert(a, i as usize) } else { tab1[s] == tab0[s] }
}
pub open spec fn step_rel(tab0: Tab, tab1: Tab, sf0: Sf, sf1: Sf, pr: Seq<usize>, i: int, kstop: int) -> bool {
    let a = pr[i - 1];
    &&& 1 <= i <= pr.len() && tab0.len() == i - 1 && tab1.len() == i && sf0.len() == pr.len() + 1 && i < usize::MAX
    &&& tab1[i - 1] == Map::<usize, usize>::empty().insert(a, i as usize)
    &&& forall|s: int| 0 <= s < i - 1 ==> #[trigger] upd(tab0, tab1, sf0, i, kstop, a, s)
    &&& kstop == -1 || (0 <= kstop < i - 1 && on_chain(sf0, i - 1, kstop) && tab0[kstop].contains_key(a))
    &&& sf1 == sf0.update(i, Some(if kstop >= 0 { tab0[kstop][a] } else { 0usize }))
}
/// the a-transition out of a state r of the chain of i-1 after the round, and where it leads
proof fn lemma_step_chain_edge(tab0: Tab, tab1: Tab, sf0: Sf, sf1: Sf, pr: Seq<usize>, i: int, kstop: int, r: int)
    requires oracle_ok(tab0, sf0, pr, i - 1), step_rel(tab0, tab1, sf0, sf1, pr, i, kstop), 0 <= r <= i - 1, on_chain(sf0, i - 1, r)
    ensures tab1[r].contains_key(pr[i - 1]), on_chain(sf1, i, tab1[r][pr[i - 1]] as int),
        r > kstop ==> tab1[r][pr[i - 1]] == i, r <= kstop ==> tab0[r].contains_key(pr[i - 1]) && tab1[r][pr[i - 1]] == tab0[r][pr[i - 1]],
{
    let a = pr[i - 1]; let j = if kstop >= 0 { tab0[kstop][a] as int } else { 0int };
    assert(on_chain(sf1, i, i));
    if r == i - 1 { }
    else {
        assert(upd(tab0, tab1, sf0, i, kstop, a, r));
        if r > kstop { }
        else {
            lemma_chain_linear(sf0, i - 1, kstop, r);
            lemma_chain_closed(tab0, sf0, i - 1, kstop, r, a);
            assert(tab1[r] == tab0[r]);
            assert(forall|x: int| 0 <= x <= j ==> #[trigger] sf0[x] == sf1[x]);
            lemma_chain_frame(sf0, sf1, j, tab0[r][a] as int);
            assert(sf1[i] == Some(j as usize));
            assert(on_chain(sf1, i, tab0[r][a] as int));
        }
    }
}
proof fn lemma_step_sub(tab0: Tab, tab1: Tab, sf0: Sf, sf1: Sf, pr: Seq<usize>, i: int, kstop: int)
    requires oracle_ok(tab0, sf0, pr, i - 1), step_rel(tab0, tab1, sf0, sf1, pr, i, kstop)
    ensures sub_tab(tab0, tab1), links_ok(sf1, i), forall|x: int| 0 <= x <= i - 1 ==> #[trigger] sf0[x] == sf1[x], sf1.len() == sf0.len()
{
    let a = pr[i - 1];
    assert forall|s: int, b: usize| 0 <= s < tab0.len() && #[trigger] tab0[s].contains_key(b) implies tab1[s].contains_key(b) && tab1[s][b] == tab0[s][b] by {
        assert(upd(tab0, tab1, sf0, i, kstop, a, s));
    }
    assert forall|s: int| 1 <= s <= i implies (#[trigger] sf1[s]) is Some && (sf1[s]->0 as int) < s by { if s < i { assert(sf0[s] == sf1[s]); } }
}
proof fn lemma_step_edges(tab0: Tab, tab1: Tab, sf0: Sf, sf1: Sf, pr: Seq<usize>, i: int, kstop: int)
    requires oracle_ok(tab0, sf0, pr, i - 1), step_rel(tab0, tab1, sf0, sf1, pr, i, kstop)
    ensures edges_ok(tab1, pr, i)
{
    let a = pr[i - 1];
    assert forall|s: int, b: usize| 0 <= s < i && #[trigger] tab1[s].contains_key(b) implies s < tab1[s][b] <= i && (b != pr[s] ==> tab1[s][b] >= s + 2) by {
        if s < i - 1 {
            assert(upd(tab0, tab1, sf0, i, kstop, a, s));
            if tab0[s].contains_key(b) { assert(tab1[s][b] == tab0[s][b]); }
            else {
                assert(b == a && on_chain(sf0, i - 1, s));
                // s is strictly below i-1 on its chain, hence at most its suffix state
                assert(on_chain(sf0, sf0[i - 1]->0 as int, s));
                lemma_chain_le(sf0, sf0[i - 1]->0 as int, s);
                assert(tab0[s].contains_key(pr[s]));
            }
        }
    }
    assert forall|s: int| 0 <= s < i implies (#[trigger] tab1[s]).contains_key(pr[s]) && tab1[s][pr[s]] == s + 1 by {
        if s < i - 1 { assert(upd(tab0, tab1, sf0, i, kstop, a, s)); assert(tab0[s].contains_key(pr[s])); }
    }
}
proof fn lemma_step_closed(tab0: Tab, tab1: Tab, sf0: Sf, sf1: Sf, pr: Seq<usize>, i: int, kstop: int)
    requires oracle_ok(tab0, sf0, pr, i - 1), step_rel(tab0, tab1, sf0, sf1, pr, i, kstop)
    ensures closed_ok(tab1, sf1, i)
{
    let a = pr[i - 1];
    lemma_step_sub(tab0, tab1, sf0, sf1, pr, i, kstop);
    assert forall|k: int, b: usize| 1 <= k < i && #[trigger] has_edge(tab1, k, b) implies tab1[sf1[k]->0 as int].contains_key(b)
        && on_chain(sf1, tab1[k][b] as int, tab1[sf1[k]->0 as int][b] as int) by {
        let k1 = sf0[k]->0 as int;
        assert(sf1[k] == sf0[k]);
        assert(sf0[k] is Some && 0 <= k1 < k);
        if k < i - 1 { assert(upd(tab0, tab1, sf0, i, kstop, a, k)); }
        assert(upd(tab0, tab1, sf0, i, kstop, a, k1));
        if k < i - 1 && tab0[k].contains_key(b) {
            // an old edge: its partner out of the suffix state is old too and unchanged
            assert(has_edge(tab0, k, b));
            assert(tab0[k1].contains_key(b));
            assert(tab1[k][b] == tab0[k][b] && tab1[k1][b] == tab0[k1][b]);
            assert(tab0[k][b] <= i - 1);
            lemma_chain_frame(sf0, sf1, tab0[k][b] as int, tab0[k1][b] as int);
        } else {
            // a new edge k --a--> i; k is on the chain of i-1 above kstop, so its suffix state is on that chain too
            assert(b == a && tab1[k][a] == i);
            assert(on_chain(sf0, i - 1, k));
            assert(on_chain(sf0, k1, k1));
            assert(on_chain(sf0, k, k1));
            lemma_chain_trans(sf0, i - 1, k, k1);
            lemma_step_chain_edge(tab0, tab1, sf0, sf1, pr, i, kstop, k1);
        }
    }
}
proof fn lemma_step_suffixes(tab0: Tab, tab1: Tab, sf0: Sf, sf1: Sf, pr: Seq<usize>, i: int, kstop: int)
    requires oracle_ok(tab0, sf0, pr, i - 1), step_rel(tab0, tab1, sf0, sf1, pr, i, kstop)
    ensures suffixes_ok(tab1, sf1, pr, i), factors_ok(tab1, pr, i)
{
    let a = pr[i - 1];
    lemma_step_sub(tab0, tab1, sf0, sf1, pr, i, kstop);
    assert forall|x: int| 0 <= x <= i implies (#[trigger] run(tab1, pr.subrange(x, i))) is Some && on_chain(sf1, i, run(tab1, pr.subrange(x, i))->0) by {
        let w = pr.subrange(x, i);
        if x == i { lemma_chain_zero(sf1, i, i); }
        else {
            let w0 = pr.subrange(x, i - 1);
            assert(w.drop_last() =~= w0); assert(w.last() == a);
            assert(run(tab0, w0) is Some);
            let r = run(tab0, w0)->0;
            lemma_run_mono(tab0, tab1, w0);
            lemma_chain_le(sf0, i - 1, r);
            lemma_run_nonneg(tab0, w0);
            lemma_step_chain_edge(tab0, tab1, sf0, sf1, pr, i, kstop, r);
            assert(run(tab1, w) == trans(tab1, r, a));
        }
    }
    assert forall|x: int, y: int| 0 <= x <= y <= i implies (#[trigger] run(tab1, pr.subrange(x, y))) is Some by {
        if y < i { assert(run(tab0, pr.subrange(x, y)) is Some); lemma_run_mono(tab0, tab1, pr.subrange(x, y)); }
    }
}
proof fn lemma_oracle_step(tab0: Tab, tab1: Tab, sf0: Sf, sf1: Sf, pr: Seq<usize>, i: int, kstop: int)
    requires oracle_ok(tab0, sf0, pr, i - 1), step_rel(tab0, tab1, sf0, sf1, pr, i, kstop)
    ensures oracle_ok(tab1, sf1, pr, i)
{
    lemma_step_sub(tab0, tab1, sf0, sf1, pr, i, kstop);
    lemma_step_edges(tab0, tab1, sf0, sf1, pr, i, kstop);
    lemma_step_closed(tab0, tab1, sf0, sf1, pr, i, kstop);
    lemma_step_suffixes(tab0, tab1, sf0, sf1, pr, i, kstop);
}
proof fn lemma_run_nonneg(tab: Tab, w: Seq<usize>)
    requires run(tab, w) is Some
    ensures run(tab, w)->0 >= 0
    decreases w.len()
{ if w.len() > 0 { lemma_run_nonneg(tab, w.drop_last()); } }
// ---------------- search-level facts ----------------
pub open spec fn occurs(p: Seq<u8>, t: Seq<u8>, i: int) -> bool {
    0 <= i && i + p.len() <= t.len() && t.subrange(i, i + p.len()) == p
}
/// the reversed pattern as a word over usize symbols (what the oracle is built from)
pub open spec fn revw(p: Seq<u8>) -> Seq<usize> { Seq::new(p.len(), |y: int| p[p.len() - 1 - y] as usize) }
/// the word read backwards from the window end e: c symbols
pub open spec fn rd(t: Seq<u8>, e: int, c: int) -> Seq<usize> { Seq::new(c as nat, |x: int| t[e - 1 - x] as usize) }
/// a run of length |w| that ends in state |w| spells a prefix of pr; runs never end below their length nor above the last state
proof fn lemma_run_len(tab: Tab, pr: Seq<usize>, m: int, w: Seq<usize>)
    requires edges_ok(tab, pr, m), tab.len() == m, m == pr.len(), run(tab, w) is Some
    ensures w.len() <= run(tab, w)->0 <= m, run(tab, w)->0 == w.len() ==> w =~= pr.subrange(0, w.len() as int)
    decreases w.len()
{
    if w.len() > 0 {
        let w0 = w.drop_last(); let r0 = run(tab, w0)->0; let b = w.last();
        lemma_run_len(tab, pr, m, w0);
        assert(tab[r0].contains_key(b));
        if run(tab, w)->0 == w.len() {
            assert(r0 == w0.len());
            assert(b == pr[r0]);
            assert(w =~= w0.push(b));
        }
    }
}
/// a segment of the text inside an occurrence of p, read backwards, is a factor of the reversed pattern
proof fn lemma_occ_factor(p: Seq<u8>, t: Seq<u8>, x: int, e: int, c: int)
    requires occurs(p, t, x), 0 <= c, x <= e - c, e <= x + p.len()
    ensures rd(t, e, c) =~= revw(p).subrange(x + p.len() - e, x + p.len() - e + c)
{
    let m = p.len() as int;
    assert forall|z: int| 0 <= z < c implies rd(t, e, c)[z] == revw(p).subrange(x + m - e, x + m - e + c)[z] by {
        assert(t.subrange(x, x + m)[e - 1 - z - x] == p[e - 1 - z - x]);
    }
}

// ---------------- code ----------------
pub type TextSlice<'a> = &'a [u8];
/// vec_map::VecMap (external crate): a map from small integers, characterised by its view
#[verifier::external_body]
#[verifier::reject_recursive_types(V)]
pub struct VecMap<V> { _p: std::marker::PhantomData<V> }
impl<V> VecMap<V> {
    pub uninterp spec fn view(&self) -> Map<usize, V>;
    #[verifier::external_body]
    pub fn with_capacity(n: usize) -> (r: Self) ensures r.view() == Map::<usize, V>::empty() { unimplemented!() }
    #[verifier::external_body]
    pub fn insert(&mut self, k: usize, v: V) -> (r: Option<V>) ensures final(self).view() == old(self).view().insert(k, v) { unimplemented!() }
    #[verifier::external_body]
    pub fn contains_key(&self, k: usize) -> (r: bool) ensures r == self.view().contains_key(k) { unimplemented!() }
    #[verifier::external_body]
    pub fn get(&self, k: usize) -> (r: Option<&V>) ensures r == (if self.view().contains_key(k) { Some(&self.view()[k]) } else { None }) { unimplemented!() }
}
pub assume_specification<'a, T: Copy> [Option::<&'a T>::copied] (o: Option<&'a T>) -> (r: Option<T>)
    ensures r == (match o { Some(x) => Some(*x), None => None });
/// the maximum of a non-empty byte iterator (only used as a capacity hint; fails on an empty pattern)
#[verifier::external_body]
fn iter_max(pattern: &[u8]) -> (r: usize) requires pattern.len() >= 1 { *pattern.iter().max().expect("Expecting non-empty pattern.") as usize }

pub open spec fn tabv(table: Seq<VecMap<usize>>) -> Tab { Seq::new(table.len(), |s: int| table[s].view()) }

pub struct BOM {
    m: usize,
    table: Vec<VecMap<usize>>,
}
impl BOM {
    pub closed spec fn p_len(&self) -> int { self.m as int }
    /// the table is the factor oracle of the reversed pattern p
    pub closed spec fn wf(&self, p: Seq<u8>) -> bool {
        &&& self.m == p.len() && self.m >= 1 && self.m < usize::MAX
        &&& exists|sf: Sf| oracle_ok(tabv(self.table@), sf, revw(p), self.m as int)
    }

    #[verifier::exec_allows_no_decreases_clause]
    pub fn new(pattern: &[u8]) -> (r: Self)
        requires 1 <= pattern.len() < usize::MAX
        ensures r.wf(pattern@)
    {
        let m = pattern.len();
        let maxsym = iter_max(pattern);
        let mut table: Vec<VecMap<usize>> = Vec::with_capacity(m);
        // init suffix table, initially all values unknown
        // suff[i] is the state in which the longest suffix of
        // pattern[..i+1] ends that does not end in i
        let mut suff: Vec<Option<usize>> = { let mut __v = Vec::new(); for __i in 0..m + 1 invariant __v@.len() == __i, forall|x: int| 0 <= x < __i ==> __v@[x] is None { __v.push(None); } __v };
        let ghost pr = revw(pattern@);
        proof {
            assert(tabv(table@) =~= Seq::<Map<usize, usize>>::empty());
            assert(run(tabv(table@), pr.subrange(0, 0)) == Some(0int));
        }

        for j in 0..pattern.len()
            invariant m == pattern.len(), 1 <= m < usize::MAX, pr == revw(pattern@), suff@.len() == m + 1,
                oracle_ok(tabv(table@), suff@, pr, j as int),
        { let b = &pattern[pattern.len() - 1 - j];
            let i = j + 1;
            let a = *b as usize;
            let mut delta = VecMap::with_capacity(maxsym);
            // reading symbol a leads into state i (this is an inner edge)
            delta.insert(a, i);
            // now, add edges for substrings ending with a
            let mut k = suff[i - 1];
            let ghost tab0 = tabv(table@); let ghost sf0 = suff@;
            proof { assert(a == pr[j as int]); }

            // for this iterate over the known suffixes until
            // reaching an edge labelled with a or the start
            let ghost mut kstop: int = -1;
            proof {
                assert(tab0 =~= tabv(table@));
                if k is Some { let kn = k->0 as int; assert(on_chain(sf0, kn, kn)); assert(on_chain(sf0, j as int, kn)); }
                assert forall|s: int| 0 <= s < j implies !(#[trigger] on_chain(sf0, j as int, s) && s > kv(k)) by {
                    if on_chain(sf0, j as int, s) { assert(on_chain(sf0, sf0[j as int]->0 as int, s)); lemma_chain_le(sf0, sf0[j as int]->0 as int, s); }
                }
            }
            while let Some(k_) = k
                invariant_except_break kstop == -1,
                invariant table@.len() == j, suff@ == sf0, sf0.len() == m + 1, i == j + 1, j < m, links_ok(sf0, j as int), tab0.len() == j,
                    (k is Some) ==> (k->0 as int) < j && on_chain(sf0, j as int, k->0 as int),
                    forall|s: int| 0 <= s < j ==> #[trigger] upd(tab0, tabv(table@), sf0, i as int, kv(k), a, s),
                ensures
                    kstop == kv(k),
                    (k is Some) ==> tab0[k->0 as int].contains_key(a),
            {
                let ghost tv0 = tabv(table@);
                proof {
                    assert(kv(k) == k_);
                    assert(upd(tab0, tv0, sf0, i as int, k_ as int, a, k_ as int));
                    assert(tv0[k_ as int] == tab0[k_ as int]); assert(tv0[k_ as int] == table@[k_ as int].view());
                }
                if table[k_].contains_key(a) {
                    proof { kstop = k_ as int; }
                    break;
                }
                table[k_].insert(a, i);
                k = suff[k_];
                proof {
                    let kn = if k is Some { k->0 as int } else { -1int };
                    assert(kn < k_);
                    if k is Some { assert(on_chain(sf0, k_ as int, kn)) by { assert(on_chain(sf0, kn, kn)); } lemma_chain_trans(sf0, j as int, k_ as int, kn); }
                    assert forall|s: int| 0 <= s < j implies #[trigger] upd(tab0, tabv(table@), sf0, i as int, kn, a, s) by {
                        assert(upd(tab0, tv0, sf0, i as int, k_ as int, a, s));
                        assert(tabv(table@)[s] == table@[s].view());
                        if s == k_ { }
                        else {
                            assert(tabv(table@)[s] == tv0[s]);
                            if on_chain(sf0, j as int, s) && s > kn && s < k_ {
                                // no chain state lies strictly between k_ and its suffix state
                                lemma_chain_linear(sf0, j as int, k_ as int, s);
                                assert(on_chain(sf0, sf0[k_ as int]->0 as int, s));
                                lemma_chain_le(sf0, sf0[k_ as int]->0 as int, s);
                                assert(false);
                            }
                        }
                    }
                }
            }

            // the longest suffix is either 0 or the state
            // reached by the edge labelled with a
            let ghost tv1 = tabv(table@);
            proof {
                if k is Some { let kk = k->0 as int; assert(upd(tab0, tv1, sf0, i as int, kstop, a, kk)); assert(tv1[kk] == table@[kk].view()); }
            }
            suff[i] = Some(match k {
                Some(k) => *table[k].get(a).unwrap(),
                None => 0,
            });

            table.push(delta);
            proof {
                let tab1 = tabv(table@);
                assert forall|s: int| 0 <= s < i - 1 implies #[trigger] upd(tab0, tab1, sf0, i as int, kstop, a, s) by {
                    assert(upd(tab0, tv1, sf0, i as int, kstop, a, s));
                    assert(tab1[s] == table@[s].view()); assert(tv1[s] == tab1[s]);
                }
                assert(tab1[i - 1] == table@[i - 1].view());
                assert(step_rel(tab0, tab1, sf0, suff@, pr, i as int, kstop));
                lemma_oracle_step(tab0, tab1, sf0, suff@, pr, i as int, kstop);
            }
        }

        let r = BOM { m, table };
        proof { assert(oracle_ok(tabv(r.table@), suff@, revw(pattern@), m as int)); }
        r
    }

    fn delta(&self, q: usize, a: u8) -> (r: Option<usize>)
        ensures r == (match trans(tabv(self.table@), q as int, a as usize) { Some(x) => Some(x as usize), None => None }),
            trans(tabv(self.table@), q as int, a as usize) is Some ==> r->0 as int == trans(tabv(self.table@), q as int, a as usize)->0,
    {
        if q >= self.table.len() {
            None
        } else {
            proof { assert(tabv(self.table@)[q as int] == self.table@[q as int].view()); }
            self.table[q].get(a as usize).copied()
        }
    }

    /// Find all matches of the pattern in the given text. Matches are returned as an iterator over start positions.
    pub fn find_all<'a>(&'a self, text: TextSlice<'a>) -> (r: Matches<'a>)
        requires text.len() < 0x3fff_ffff_ffff_0000, exists|p: Seq<u8>| self.wf(p)
        ensures forall|p: Seq<u8>| #[trigger] self.wf(p) ==> r.wf(p), r.t() == text@, r.frontier() == 0
    {
        Matches {
            bom: self,
            text,
            window: self.m,
        }
    }
}

/// Iterator over start positions of matches.
pub struct Matches<'a> {
    bom: &'a BOM,
    text: TextSlice<'a>,
    window: usize,
}
impl<'a> Matches<'a> {
    pub closed spec fn wf(&self, p: Seq<u8>) -> bool {
        self.bom.wf(p) && self.text@.len() < 0x3fff_ffff_ffff_0000 && self.bom.m <= self.window && self.window <= self.text@.len() + self.bom.m + 1
    }
    pub closed spec fn t(&self) -> Seq<u8> { self.text@ }
    /// first start position not yet decided
    pub closed spec fn frontier(&self) -> int { self.window - self.bom.m }

    #[verifier::exec_allows_no_decreases_clause]
    fn next(&mut self) -> (r: Option<usize>)
        requires exists|p: Seq<u8>| old(self).wf(p)
        ensures forall|p: Seq<u8>| #[trigger] old(self).wf(p) ==> (final(self).wf(p) && final(self).t() == old(self).t() &&
            match r {
                Some(i) => old(self).frontier() <= i < final(self).frontier() && occurs(p, old(self).t(), i as int)
                    && (forall|x: int| old(self).frontier() <= x < final(self).frontier() && x != i ==> !occurs(p, old(self).t(), x)),
                None => forall|x: int| old(self).frontier() <= x ==> !occurs(p, old(self).t(), x),
            })
    {
        let ghost p = choose|p: Seq<u8>| old(self).wf(p);
        let ghost t = self.text@; let ghost m = self.bom.m as int; let ghost f0 = self.frontier();
        let ghost sf = choose|sf: Sf| oracle_ok(tabv(self.bom.table@), sf, revw(p), m);
        let ghost tab = tabv(self.bom.table@); let ghost pr = revw(p);
        proof { lemma_wf_unique(old(self).bom, p); assert forall|p2: Seq<u8>| #[trigger] old(self).wf(p2) implies p2 == p by { assert(old(self).bom.wf(p2)); } }
        while self.window <= self.text.len()
            invariant forall|p2: Seq<u8>| #[trigger] old(self).wf(p2) ==> p2 == p, self.wf(p), self.text == old(self).text, self.bom == old(self).bom, t == self.text@, m == self.bom.m, m == p.len(), tab == tabv(self.bom.table@), pr == revw(p),
                oracle_ok(tab, sf, pr, m), f0 == old(self).frontier(), f0 <= self.frontier(),
                forall|x: int| f0 <= x < self.frontier() ==> !occurs(p, t, x),
        {
            let (mut q, mut j) = (Some(0), 1);
            let ghost w = self.window as int;
            while j <= self.bom.m
                invariant self.wf(p), self.text == old(self).text, self.bom == old(self).bom, t == self.text@, m == self.bom.m, m == p.len(), tab == tabv(self.bom.table@), pr == revw(p),
                    w == self.window, w <= t.len(), 1 <= j <= m + 1, oracle_ok(tab, sf, pr, m),
                    // q is the state after reading the last j-1 symbols of the window backwards
                    (q is Some) ==> run(tab, rd(t, w, j - 1)) == Some(q->0 as int),
                    (q is None) ==> j >= 2 && run(tab, rd(t, w, j - 1)) is None,
                ensures (q is Some) ==> j == m + 1,
            {
                match q {
                    Some(q_) => {
                        proof {
                            let u0 = rd(t, w, j - 1); let u1 = rd(t, w, j as int);
                            assert(u1.drop_last() =~= u0); assert(u1.last() == t[w - j] as usize);
                        }
                        q = self.bom.delta(q_, self.text[self.window - j]);
                        j += 1;
                    }
                    None => break,
                }
            }
            // putative start position
            let i = self.window - self.bom.m;
            proof {
                // nothing starts in i ..= w - (j-1) except possibly a match at i itself, which is there iff all m symbols were read
                let c = j - 1; let u = rd(t, w, c);
                assert forall|x: int| i <= x <= w - c && !(x == i && q is Some) implies !occurs(p, t, x) by {
                    if occurs(p, t, x) {
                        lemma_occ_factor(p, t, x, w, c);
                        assert(run(tab, pr.subrange(x + m - w, x + m - w + c)) is Some);
                        assert(false);
                    }
                }
                if q is Some {
                    assert(c == m);
                    lemma_run_len(tab, pr, m, u);
                    assert(u =~= pr);
                    assert(t.subrange(i as int, i + m) =~= p) by {
                        assert forall|z: int| 0 <= z < m implies t[i + z] == p[z] by { assert(u[m - 1 - z] == pr[m - 1 - z]); }
                    }
                }
            }
            self.window += self.bom.m + 2 - j;
            if q.is_some() {
                proof {
                    assert(self.wf(p));
                    assert(self.t() == old(self).t());
                    assert(f0 <= i < self.frontier());
                    assert(occurs(p, t, i as int));
                    assert(forall|x: int| f0 <= x < self.frontier() && x != i ==> !occurs(p, t, x));
                }
                // return match
                return Some(i);
            }
        }
        proof { assert forall|x: int| f0 <= x implies !occurs(p, t, x) by { } }
        None
    }
}
/// a BOM is the oracle of one pattern only: two patterns it is well-formed for are equal
proof fn lemma_wf_unique(b: &BOM, p: Seq<u8>)
    requires b.wf(p)
    ensures forall|p2: Seq<u8>| #[trigger] b.wf(p2) ==> p2 == p
{
    assert forall|p2: Seq<u8>| #[trigger] b.wf(p2) implies p2 == p by {
        let tab = tabv(b.table@); let m = b.m as int;
        let sf = choose|sf: Sf| oracle_ok(tab, sf, revw(p), m);
        let sf2 = choose|sf: Sf| oracle_ok(tab, sf, revw(p2), m);
        // the word of the inner edges is determined by the table
        assert(run(tab, revw(p).subrange(0, m)) is Some);
        assert(revw(p).subrange(0, m) =~= revw(p));
        lemma_run_inner(tab, revw(p), m, m);
        lemma_run_len(tab, revw(p2), m, revw(p));
        assert(revw(p) =~= revw(p2));
        assert(p2 =~= p) by { assert forall|z: int| 0 <= z < m implies p2[z] == p[z] by { assert(revw(p)[m - 1 - z] == revw(p2)[m - 1 - z]); } }
    }
}
/// reading a prefix of pr follows the inner edges
proof fn lemma_run_inner(tab: Tab, pr: Seq<usize>, m: int, c: int)
    requires edges_ok(tab, pr, m), tab.len() == m, m == pr.len(), 0 <= c <= m
    ensures run(tab, pr.subrange(0, c)) == Some(c)
    decreases c
{
    if c > 0 { lemma_run_inner(tab, pr, m, c - 1); assert(pr.subrange(0, c).drop_last() =~= pr.subrange(0, c - 1)); assert(tab[c - 1].contains_key(pr[c - 1])); }
}
}
fn main(){}

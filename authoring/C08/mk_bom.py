import sys, re
sys.path.insert(0, '/verif/tool')
import locate, linemark
from lex import render
REPO = '/repo/src/pattern_matching/bom.rs'
spike = open('/tmp/k/bom5.rs').read()
L = spike.split('\n')
def lines(a, b):  # 1-based inclusive
    return '\n'.join(L[a-1:b])
def find(prefix, start=0):
    for i in range(start, len(L)):
        if L[i].startswith(prefix): return i + 1
    raise SystemExit('not found ' + prefix)
def fn_span(start):
    # from line `start` (1-based) to the matching closing brace of the fn body at 4-space indent
    for i in range(start, len(L)):
        if L[i] == '    }': return i + 1
    raise SystemExit('no end')
def region(txt, path, edits, f=REPO, relf='src/pattern_matching/bom.rs'):
    for (old, new) in edits:
        assert txt.count(old) == 1, (old[:70], txt.count(old))
        txt = txt.replace(old, new)
    repo = render(locate.locate(open(f).read(), path))
    body = linemark.mark2(txt, repo)
    return '//@extract %s :: %s\n%s\n//@end\n' % (relf, path, body)

out = []
out.append('''//@unit C08/bom
//@rlimit 100
// Backward oracle matching (bom.rs).  The unit carries the factor-oracle theorem it needs ("every factor of the reversed pattern is read
// by the oracle", "the only word of length m that is read is the reversed pattern") proved by an invariant of the on-line construction that is
// simpler than the published proof: (closed_ok) a transition out of a state k is matched by one out of its suffix state S(k), which ends on
// the suffix chain of the first; (suffixes_ok) every suffix of the part read so far ends on the suffix chain of the last state.
use vstd::prelude::*;
use std::iter::repeat;
verus! {
global size_of usize == 8;
''')
a = find('pub open spec fn kv'); b = find('// ---------------- code ----------------')
out.append(lines(a, b - 1) + '\n')
out.append('// ---------------- code ----------------\n')
out.append('//@extract src/utils/text.rs :: type TextSlice\npub type TextSlice<\'a> = &\'a [u8];\n//@end\n')
a = find('/// vec_map::VecMap'); b = find('pub struct BOM {')
out.append(lines(a, b - 1) + '\n')
out.append(region(lines(find('pub struct BOM {'), find('pub struct BOM {') + 3), 'struct BOM', []))
# impl BOM
i0 = find('impl BOM {'); n0 = find('    #[verifier::exec_allows_no_decreases_clause]', i0)
out.append(lines(i0, n0 - 1) + '\n')
new_end = fn_span(n0)
new_txt = lines(n0, new_end)
new_edits = [
 ('    pub fn new(pattern: &[u8]) -> (r: Self)\n',
  '//@rw INST P=&[u8] (the parameter is the byte slice; C = &u8)\n//@<    pub fn new<C, P>(pattern: P) -> Self\n//@<    where\n//@<        C: Borrow<u8> + Ord,\n//@<        P: IntoIterator<Item = C>,\n//@<        P::IntoIter: DoubleEndedIterator + ExactSizeIterator + Clone,\n    pub fn new(pattern: &[u8]) -> /*@+(r:@*/ Self/*@+)@*/\n//@>\n'),
 ('        let m = pattern.len();\n        let maxsym = iter_max(pattern);\n',
  '//@rw INST P=&[u8] (a slice is its own iterator source)\n//@<        let pattern = pattern.into_iter();\n        let pattern = pattern;\n//@>\n        let m = pattern.len();\n//@rw INST P=&[u8] (maximum of the slice through the stub iter_max; the value is only a capacity hint, the call fails on an empty pattern)\n//@<        let maxsym = *pattern\n//@<            .clone()\n//@<            .max()\n//@<            .expect("Expecting non-empty pattern.")\n//@<            .borrow() as usize;\n        let maxsym = iter_max(pattern);\n//@>\n'),
 ('        let mut suff: Vec<Option<usize>> = { let mut __v = Vec::new(); for __i in 0..m + 1 invariant __v@.len() == __i, forall|x: int| 0 <= x < __i ==> __v@[x] is None { __v.push(None); } __v };\n',
  '//@rw R39\n//@<        let mut suff: Vec<Option<usize>> = repeat(None).take(m + 1).collect();\n        let mut suff: Vec<Option<usize>> = { let mut __v = Vec::new(); for __i in 0..m + 1\n//@g+\n            invariant __v@.len() == __i, forall|x: int| 0 <= x < __i ==> __v@[x] is None\n//@g-\n        { __v.push(None); } __v };\n//@>\n'),
 ('        for j in 0..pattern.len()\n', '//@rw INST P=&[u8] (reverse slice iteration with its index: the j-th item of pattern.rev() is pattern[len-1-j])\n//@<        for (j, b) in pattern.rev().enumerate() {\n        for j in 0..pattern.len()\n//@g+\n'),
 ('        { let b = &pattern[pattern.len() - 1 - j];\n', '//@g-\n        { let b = &pattern[pattern.len() - 1 - j];\n//@>\n'),
 ('            let a = *b as usize;\n', '//@rw R6b\n//@<            let a = *b.borrow() as usize;\n            let a = *b as usize;\n//@>\n'),
 ('        let r = BOM { m, table };\n        proof { assert(oracle_ok(tabv(r.table@), suff@, revw(pattern@), m as int)); }\n        r\n',
  '//@rw R21 r\n//@<        BOM { m, table }\n        let r = BOM { m, table };\n//@g+\n        proof { assert(oracle_ok(tabv(r.table@), suff@, revw(pattern@), m as int)); }\n//@g-\n        r\n//@>\n'),
]
out.append(region(new_txt, 'impl BOM :: fn new', new_edits))
d0 = find('    fn delta(', new_end); d1 = fn_span(d0)
out.append(region(lines(d0, d1), 'impl BOM :: fn delta', [('    fn delta(&self, q: usize, a: u8) -> (r: Option<usize>)', '    fn delta(&self, q: usize, a: u8) -> /*@+(r:@*/ Option<usize>/*@+)@*/')]))
f0 = find('    /// Find all matches', d1); f1 = fn_span(f0)
out.append(region(lines(f0, f1), 'impl BOM :: fn find_all', [("    pub fn find_all<'a>(&'a self, text: TextSlice<'a>) -> (r: Matches<'a>)", "    pub fn find_all<'a>(&'a self, text: TextSlice<'a>) -> /*@+(r:@*/ Matches<'_>/*@+)@*/")]))
out.append('}\n\n')
m0 = find("pub struct Matches<'a> {")
out.append(region(lines(m0, m0 + 4), 'struct Matches', []))
im0 = find("impl<'a> Matches<'a> {"); nx0 = find('    #[verifier::exec_allows_no_decreases_clause]', im0)
out.append(lines(im0, nx0 - 1) + '\n')
nx1 = fn_span(nx0)
out.append(region(lines(nx0, nx1), "impl<'a> Iterator for Matches<'a> :: fn next", [('    fn next(&mut self) -> (r: Option<usize>)', '    fn next(&mut self) -> /*@+(r:@*/ Option<usize>/*@+)@*/')]))
out.append('}\n')
rest0 = find('/// a BOM is the oracle of one pattern only'); 
rest = lines(rest0, len(L))
rest = rest[:rest.rindex('}\nfn main')]
out.append(rest)
out.append('} // verus!\nfn main() {}\n')
open('/verif/contracts/C08/bom.vrs', 'w').write(''.join(out))

use bio::alphabets;
use bio::data_structures::qgram_index::QGramIndex;

// text of 2^31 + 3 symbols: the q-gram "CGT" occurs once, at position 2^31
#[test]
fn exact_matches_beyond_2g() {
    let n: usize = 1usize << 31;
    let mut text = vec![b'A'; n];
    text.extend_from_slice(b"CGT");
    let alphabet = alphabets::dna::alphabet();
    let idx = QGramIndex::with_max_count(3, &text, &alphabet, 4);
    let m = idx.exact_matches(b"TCGT");
    assert_eq!(m.len(), 1);
    assert_eq!(m[0].pattern.start, 1);
    assert_eq!(m[0].pattern.stop, 4);
    assert_eq!(m[0].text.start, n);
    assert_eq!(m[0].text.stop, n + 3);
}

use vstd::prelude::*;
use vstd::std_specs::cmp::*;
verus!{
global size_of usize == 8;
/// fxhash::FxHashMap (std HashMap with another hasher), modelled at the one instantiation used here: a finite map from k-mers (byte strings)
/// to position lists
#[verifier::external_body]
#[verifier::reject_recursive_types(K)]
#[verifier::reject_recursive_types(V)]
pub struct HashMapFx<K, V> { _k: K, _v: V }
impl<'a> HashMapFx<&'a [u8], Vec<u32>> {
    pub uninterp spec fn view(&self) -> Map<Seq<u8>, Seq<u32>>;
    #[verifier::external_body]
    pub fn default() -> (r: Self) ensures r@ == Map::<Seq<u8>, Seq<u32>>::empty() { unimplemented!() }
    /// `self.entry(key).or_default().push(v)` (rule R50): append v to the list of key (an absent key starts with the empty list)
    #[verifier::external_body]
    pub fn push_to(&mut self, key: &'a [u8], v: u32)
        ensures final(self)@ == old(self)@.insert(key@, (if old(self)@.contains_key(key@) { old(self)@[key@] } else { Seq::<u32>::empty() }).push(v))
    { unimplemented!() }
    #[verifier::external_body]
    pub fn get(&self, key: &[u8]) -> (r: Option<&Vec<u32>>)
        ensures r is Some <==> self@.contains_key(key@), r is Some ==> r->0@ == self@[key@]
    { unimplemented!() }
}
pub assume_specification<T: Ord> [<[T]>::sort_unstable] (s: &mut [T])
    ensures final(s)@.len() == old(s)@.len(), final(s)@.to_multiset() == old(s)@.to_multiset(),
        T::obeys_cmp_spec() ==> forall|i: int, j: int| 0 <= i <= j < final(s)@.len() ==> #[trigger] final(s)@[i].cmp_spec(&#[trigger] final(s)@[j]) != core::cmp::Ordering::Greater;

/// the k-mer of s at position i
pub open spec fn kmer(s: Seq<u8>, i: int, k: int) -> Seq<u8> { s.subrange(i, i + k) }
/// number of k-mer start positions
pub open spec fn nk(s: Seq<u8>, k: int) -> int { if s.len() + 1 >= k { s.len() + 1 - k } else { 0 } }
/// lst lists, in ascending order, exactly the positions below `upto` where w occurs as a k-mer of s
pub open spec fn lists(s: Seq<u8>, k: int, upto: int, w: Seq<u8>, lst: Seq<u32>) -> bool {
    &&& forall|a: int, b: int| 0 <= a < b < lst.len() ==> lst[a] < lst[b]
    &&& forall|a: int| 0 <= a < lst.len() ==> (#[trigger] lst[a]) < upto && kmer(s, lst[a] as int, k) == w
    &&& forall|i: int| 0 <= i < upto && #[trigger] kmer(s, i, k) == w ==> lst.contains(i as u32)
}
/// the map holds, for every k-mer that occurs at a position below upto, its position list - and nothing else
pub open spec fn kmap_ok(s: Seq<u8>, k: int, upto: int, m: Map<Seq<u8>, Seq<u32>>) -> bool {
    &&& forall|w: Seq<u8>| #[trigger] m.contains_key(w) ==> lists(s, k, upto, w, m[w]) && m[w].len() >= 1
    &&& forall|i: int| 0 <= i < upto ==> m.contains_key(#[trigger] kmer(s, i, k))
}

pub fn hash_kmers(seq: &[u8], k: usize) -> (r: HashMapFx<&[u8], Vec<u32>>)
    requires seq@.len() < 0xffff_ffff
    ensures kmap_ok(seq@, k as int, nk(seq@, k as int), r@)
{
    let slc = seq;
    let mut set: HashMapFx<&[u8], Vec<u32>> = HashMapFx::default();
    let ghost s = seq@; let ghost kk = k as int;
    for i in 0..(slc.len() + 1).saturating_sub(k)
        invariant s == seq@, slc == seq, kk == k, s.len() < 0xffff_ffff, kmap_ok(s, kk, i as int, set@),
    {
        let ghost m0 = set@; let ghost w = kmer(s, i as int, kk);
        set.push_to(&slc[i..i + k], i as u32);
        proof {
            assert(slc@.subrange(i as int, i + k) == w);
            let old_l = if m0.contains_key(w) { m0[w] } else { Seq::<u32>::empty() };
            let new_l = old_l.push(i as u32);
            assert forall|w2: Seq<u8>| #[trigger] set@.contains_key(w2) implies lists(s, kk, i + 1, w2, set@[w2]) && set@[w2].len() >= 1 by {
                if w2 == w {
                    assert forall|a: int, b: int| 0 <= a < b < new_l.len() implies new_l[a] < new_l[b] by { if b == old_l.len() { assert(old_l[a] < i); } }
                    assert forall|j: int| 0 <= j < i + 1 && #[trigger] kmer(s, j, kk) == w implies new_l.contains(j as u32) by {
                        if j < i { assert(old_l.contains(j as u32)); let a = choose|a: int| 0 <= a < old_l.len() && old_l[a] == j as u32; assert(new_l[a] == j as u32); } else { assert(new_l[old_l.len() as int] == i as u32); }
                    }
                } else {
                    assert(m0.contains_key(w2)); assert(set@[w2] == m0[w2]);
                    assert(lists(s, kk, i as int, w2, m0[w2]));
                }
            }
            assert forall|j: int| 0 <= j < i + 1 implies set@.contains_key(#[trigger] kmer(s, j, kk)) by { if j < i { assert(m0.contains_key(kmer(s, j, kk))); } }
        }
    }
    set
}

pub open spec fn pair_lt(a: (u32, u32), b: (u32, u32)) -> bool { a.0 < b.0 || (a.0 == b.0 && a.1 < b.1) }
/// the unsorted match list: every entry is a pair of equal k-mers, no entry occurs twice
pub open spec fn entries_ok(s1: Seq<u8>, s2: Seq<u8>, k: int, r: Seq<(u32, u32)>) -> bool {
    &&& forall|x: int| 0 <= x < r.len() ==> (#[trigger] r[x]).0 < nk(s1, k) && r[x].1 < nk(s2, k) && kmer(s1, r[x].0 as int, k) == kmer(s2, r[x].1 as int, k)
    &&& forall|x: int, y: int| 0 <= x < y < r.len() ==> r[x] != r[y]
}
/// exactly the sorted set of position pairs with equal k-mers
pub open spec fn matches_ok(s1: Seq<u8>, s2: Seq<u8>, k: int, r: Seq<(u32, u32)>) -> bool {
    &&& forall|x: int| 0 <= x < r.len() ==> (#[trigger] r[x]).0 < nk(s1, k) && r[x].1 < nk(s2, k) && kmer(s1, r[x].0 as int, k) == kmer(s2, r[x].1 as int, k)
    &&& forall|x: int, y: int| 0 <= x < y < r.len() ==> pair_lt(r[x], r[y])
    &&& forall|a: int, b: int| 0 <= a < nk(s1, k) && 0 <= b < nk(s2, k) && #[trigger] kmer(s1, a, k) == #[trigger] kmer(s2, b, k) ==> r.contains((a as u32, b as u32))
}
proof fn lemma_dup_count<A>(s: Seq<A>, i: int, j: int)
    requires 0 <= i < j < s.len(), s[i] == s[j]
    ensures s.to_multiset().count(s[i]) >= 2
{
    s.to_multiset_ensures();
    let r = s.remove(i);
    r.to_multiset_ensures();
    assert(r[j - 1] == s[j]);
    assert(r.contains(s[i]));
    assert(r.to_multiset().count(s[i]) > 0);
    assert(r.to_multiset() =~= s.to_multiset().remove(s[i]));
}
proof fn lemma_count_dup<A>(s: Seq<A>, x: A) -> (r: (int, int))
    requires s.to_multiset().count(x) >= 2
    ensures 0 <= r.0 < r.1 < s.len(), s[r.0] == x, s[r.1] == x
{
    s.to_multiset_ensures();
    assert(s.contains(x));
    let i = choose|i: int| 0 <= i < s.len() && s[i] == x;
    let t = s.remove(i);
    t.to_multiset_ensures();
    assert(t.to_multiset() =~= s.to_multiset().remove(x));
    assert(t.to_multiset().count(x) > 0);
    assert(t.contains(x));
    let j = choose|j: int| 0 <= j < t.len() && t[j] == x;
    if j < i { assert(s[j] == x); (j, i) } else { assert(s[j + 1] == x); (i, j + 1) }
}
/// sorting a duplicate-free list of valid entries that is complete gives the sorted set
proof fn lemma_sorted_matches(s1: Seq<u8>, s2: Seq<u8>, k: int, r0: Seq<(u32, u32)>, r: Seq<(u32, u32)>)
    requires entries_ok(s1, s2, k, r0), r.len() == r0.len(), r.to_multiset() == r0.to_multiset(),
        forall|i: int, j: int| 0 <= i <= j < r.len() ==> vstd::std_specs::cmp::OrdSpec::cmp_spec(&#[trigger] r[i], &#[trigger] r[j]) != core::cmp::Ordering::Greater,
        forall|a: int, b: int| 0 <= a < nk(s1, k) && 0 <= b < nk(s2, k) && #[trigger] kmer(s1, a, k) == #[trigger] kmer(s2, b, k) ==> r0.contains((a as u32, b as u32)),
    ensures matches_ok(s1, s2, k, r)
{
    r0.to_multiset_ensures(); r.to_multiset_ensures();
    assert forall|x: int| 0 <= x < r.len() implies (#[trigger] r[x]).0 < nk(s1, k) && r[x].1 < nk(s2, k) && kmer(s1, r[x].0 as int, k) == kmer(s2, r[x].1 as int, k) by {
        assert(r.contains(r[x])); assert(r.to_multiset().count(r[x]) > 0); assert(r0.contains(r[x]));
        let y = choose|y: int| 0 <= y < r0.len() && r0[y] == r[x];
    }
    assert forall|x: int, y: int| 0 <= x < y < r.len() implies pair_lt(r[x], r[y]) by {
        assert(vstd::std_specs::cmp::OrdSpec::cmp_spec(&r[x], &r[y]) != core::cmp::Ordering::Greater);
        if r[x] == r[y] { lemma_dup_count(r, x, y); let (a, b) = lemma_count_dup(r0, r[x]); assert(false); }
    }
    assert forall|a: int, b: int| 0 <= a < nk(s1, k) && 0 <= b < nk(s2, k) && #[trigger] kmer(s1, a, k) == #[trigger] kmer(s2, b, k) implies r.contains((a as u32, b as u32)) by {
        assert(r0.contains((a as u32, b as u32))); assert(r0.to_multiset().count((a as u32, b as u32)) > 0);
    }
}

// Find all matches of length k between two strings where the first string is
// already hashed by using the function sparse::hash_kmers
pub fn find_kmer_matches_seq1_hashed(
    seq1_set: &HashMapFx<&[u8], Vec<u32>>,
    seq2: &[u8],
    k: usize,
) -> (res: Vec<(u32, u32)>)
    requires seq2@.len() < 0xffff_ffff, exists|s1: Seq<u8>| s1.len() < 0xffff_ffff && kmap_ok(s1, k as int, nk(s1, k as int), seq1_set@),
    ensures forall|s1: Seq<u8>| s1.len() < 0xffff_ffff && #[trigger] kmap_ok(s1, k as int, nk(s1, k as int), seq1_set@) ==> matches_ok(s1, seq2@, k as int, res@)
{
    let mut matches = Vec::new();
    let ghost s2 = seq2@; let ghost kk = k as int;
    let ghost s1 = choose|s1: Seq<u8>| s1.len() < 0xffff_ffff && kmap_ok(s1, kk, nk(s1, kk), seq1_set@);

    for i in 0..(seq2.len() + 1).saturating_sub(k)
        invariant s2 == seq2@, kk == k, s2.len() < 0xffff_ffff, s1.len() < 0xffff_ffff, kmap_ok(s1, kk, nk(s1, kk), seq1_set@),
            entries_ok(s1, s2, kk, matches@),
            forall|x: int| 0 <= x < matches@.len() ==> (#[trigger] matches@[x]).1 < i,
            forall|a: int, b: int| 0 <= a < nk(s1, kk) && 0 <= b < i && #[trigger] kmer(s1, a, kk) == #[trigger] kmer(s2, b, kk) ==> matches@.contains((a as u32, b as u32)),
    {
        let slc = &seq2[i..i + k];
        let ghost m0 = matches@; let ghost w = kmer(s2, i as int, kk); let ghost mut found = false;
        proof { assert(slc@ == w); }
        if let Some(matches1) = seq1_set.get(slc) {
            let ghost lst = matches1@;
            proof { found = true; assert(lists(s1, kk, nk(s1, kk), w, lst)); }
            for pos1 in it: matches1.iter()
                invariant lst == matches1@, lists(s1, kk, nk(s1, kk), w, lst), w == kmer(s2, i as int, kk), i < nk(s2, kk), s1.len() < 0xffff_ffff, s2.len() < 0xffff_ffff, kk == k,
                    matches@ =~= m0 + Seq::new(it.index@ as nat, |x: int| (lst[x], i as u32)),
            {
                matches.push((*pos1, i as u32));
            }
            proof {
                let add = Seq::new(lst.len(), |x: int| (lst[x], i as u32));
                assert(matches@ =~= m0 + add);
                assert forall|x: int| 0 <= x < matches@.len() implies (#[trigger] matches@[x]).0 < nk(s1, kk) && matches@[x].1 < nk(s2, kk) && kmer(s1, matches@[x].0 as int, kk) == kmer(s2, matches@[x].1 as int, kk) && matches@[x].1 < i + 1 by {
                    if x < m0.len() { assert(matches@[x] == m0[x]); } else { assert(matches@[x] == add[x - m0.len()]); }
                }
                assert forall|x: int, y: int| 0 <= x < y < matches@.len() implies matches@[x] != matches@[y] by {
                    if y < m0.len() { assert(matches@[x] == m0[x] && matches@[y] == m0[y]); }
                    else if x < m0.len() { assert(matches@[x] == m0[x]); assert(matches@[y] == add[y - m0.len()]); }
                    else { assert(matches@[x] == add[x - m0.len()]); assert(matches@[y] == add[y - m0.len()]); assert(lst[x - m0.len()] < lst[y - m0.len()]); }
                }
                assert forall|a: int, b: int| 0 <= a < nk(s1, kk) && 0 <= b < i + 1 && #[trigger] kmer(s1, a, kk) == #[trigger] kmer(s2, b, kk) implies matches@.contains((a as u32, b as u32)) by {
                    if b < i { assert(m0.contains((a as u32, b as u32))); let x = choose|x: int| 0 <= x < m0.len() && m0[x] == (a as u32, b as u32); assert(matches@[x] == m0[x]); }
                    else { assert(lst.contains(a as u32)); let x = choose|x: int| 0 <= x < lst.len() && lst[x] == a as u32; assert(matches@[m0.len() + x] == add[x]); }
                }
            }
        }
        proof {
            if !found {
                assert forall|a: int, b: int| 0 <= a < nk(s1, kk) && 0 <= b < i + 1 && #[trigger] kmer(s1, a, kk) == #[trigger] kmer(s2, b, kk) implies matches@.contains((a as u32, b as u32)) by {
                    if b == i { assert(seq1_set@.contains_key(kmer(s1, a, kk))); }
                }
            }
        }
    }
    let ghost r0 = matches@;
    matches.sort_unstable();
    proof {
        lemma_sorted_matches(s1, s2, kk, r0, matches@);
        assert forall|t1: Seq<u8>| t1.len() < 0xffff_ffff && #[trigger] kmap_ok(t1, kk, nk(t1, kk), seq1_set@) implies matches_ok(t1, s2, kk, matches@) by {
            lemma_kmap_same(s1, t1, kk, seq1_set@, s2, matches@);
        }
    }
    matches
}
// Find all matches of length k between two strings where the second string is
// already hashed by using the function sparse::hash_kmers
pub fn find_kmer_matches_seq2_hashed(
    seq1: &[u8],
    seq2_set: &HashMapFx<&[u8], Vec<u32>>,
    k: usize,
) -> (res: Vec<(u32, u32)>)
    requires seq1@.len() < 0xffff_ffff, exists|s2: Seq<u8>| s2.len() < 0xffff_ffff && kmap_ok(s2, k as int, nk(s2, k as int), seq2_set@),
    ensures forall|s2: Seq<u8>| s2.len() < 0xffff_ffff && #[trigger] kmap_ok(s2, k as int, nk(s2, k as int), seq2_set@) ==> matches_ok(seq1@, s2, k as int, res@)
{
    let mut matches = Vec::new();
    let ghost s1 = seq1@; let ghost kk = k as int;
    let ghost s2 = choose|s2: Seq<u8>| s2.len() < 0xffff_ffff && kmap_ok(s2, kk, nk(s2, kk), seq2_set@);

    for i in 0..(seq1.len() + 1).saturating_sub(k)
        invariant s1 == seq1@, kk == k, s1.len() < 0xffff_ffff, s2.len() < 0xffff_ffff, kmap_ok(s2, kk, nk(s2, kk), seq2_set@),
            entries_ok(s1, s2, kk, matches@),
            forall|x: int| 0 <= x < matches@.len() ==> (#[trigger] matches@[x]).0 < i,
            forall|a: int, b: int| 0 <= a < i && 0 <= b < nk(s2, kk) && #[trigger] kmer(s1, a, kk) == #[trigger] kmer(s2, b, kk) ==> matches@.contains((a as u32, b as u32)),
    {
        let slc = &seq1[i..i + k];
        let ghost m0 = matches@; let ghost w = kmer(s1, i as int, kk); let ghost mut found = false;
        proof { assert(slc@ == w); }

        if let Some(matches1) = seq2_set.get(slc) {
            let ghost lst = matches1@;
            proof { found = true; assert(lists(s2, kk, nk(s2, kk), w, lst)); }
            for pos1 in it: matches1.iter()
                invariant lst == matches1@, lists(s2, kk, nk(s2, kk), w, lst), w == kmer(s1, i as int, kk), i < nk(s1, kk), s1.len() < 0xffff_ffff, s2.len() < 0xffff_ffff, kk == k,
                    matches@ =~= m0 + Seq::new(it.index@ as nat, |x: int| (i as u32, lst[x])),
            {
                matches.push((i as u32, *pos1));
            }
            proof {
                let add = Seq::new(lst.len(), |x: int| (i as u32, lst[x]));
                assert(matches@ =~= m0 + add);
                assert forall|x: int| 0 <= x < matches@.len() implies (#[trigger] matches@[x]).0 < nk(s1, kk) && matches@[x].1 < nk(s2, kk) && kmer(s1, matches@[x].0 as int, kk) == kmer(s2, matches@[x].1 as int, kk) && matches@[x].0 < i + 1 by {
                    if x < m0.len() { assert(matches@[x] == m0[x]); } else { assert(matches@[x] == add[x - m0.len()]); }
                }
                assert forall|x: int, y: int| 0 <= x < y < matches@.len() implies matches@[x] != matches@[y] by {
                    if y < m0.len() { assert(matches@[x] == m0[x] && matches@[y] == m0[y]); }
                    else if x < m0.len() { assert(matches@[x] == m0[x]); assert(matches@[y] == add[y - m0.len()]); }
                    else { assert(matches@[x] == add[x - m0.len()]); assert(matches@[y] == add[y - m0.len()]); assert(lst[x - m0.len()] < lst[y - m0.len()]); }
                }
                assert forall|a: int, b: int| 0 <= a < i + 1 && 0 <= b < nk(s2, kk) && #[trigger] kmer(s1, a, kk) == #[trigger] kmer(s2, b, kk) implies matches@.contains((a as u32, b as u32)) by {
                    if a < i { assert(m0.contains((a as u32, b as u32))); let x = choose|x: int| 0 <= x < m0.len() && m0[x] == (a as u32, b as u32); assert(matches@[x] == m0[x]); }
                    else { assert(lst.contains(b as u32)); let x = choose|x: int| 0 <= x < lst.len() && lst[x] == b as u32; assert(matches@[m0.len() + x] == add[x]); }
                }
            }
        }
        proof {
            if !found {
                assert forall|a: int, b: int| 0 <= a < i + 1 && 0 <= b < nk(s2, kk) && #[trigger] kmer(s1, a, kk) == #[trigger] kmer(s2, b, kk) implies matches@.contains((a as u32, b as u32)) by {
                    if a == i { assert(seq2_set@.contains_key(kmer(s2, b, kk))); }
                }
            }
        }
    }
    let ghost r0 = matches@;
    matches.sort_unstable();
    proof {
        lemma_sorted_matches(s1, s2, kk, r0, matches@);
        assert forall|t2: Seq<u8>| t2.len() < 0xffff_ffff && #[trigger] kmap_ok(t2, kk, nk(t2, kk), seq2_set@) implies matches_ok(s1, t2, kk, matches@) by {
            lemma_kmap_same2(s2, t2, kk, seq2_set@, s1, matches@);
        }
    }
    matches
}
proof fn lemma_kmap_same2(s2: Seq<u8>, t2: Seq<u8>, k: int, m: Map<Seq<u8>, Seq<u32>>, s1: Seq<u8>, r: Seq<(u32, u32)>)
    requires kmap_ok(s2, k, nk(s2, k), m), kmap_ok(t2, k, nk(t2, k), m), matches_ok(s1, s2, k, r), s2.len() < 0xffff_ffff, t2.len() < 0xffff_ffff, 0 <= k
    ensures matches_ok(s1, t2, k, r)
{
    assert forall|a: int| 0 <= a < nk(s2, k) implies a < nk(t2, k) && kmer(t2, a, k) == #[trigger] kmer(s2, a, k) by {
        let w = kmer(s2, a, k);
        assert(m.contains_key(w)); assert(lists(s2, k, nk(s2, k), w, m[w])); assert(lists(t2, k, nk(t2, k), w, m[w]));
        assert(m[w].contains(a as u32));
        let x = choose|x: int| 0 <= x < m[w].len() && m[w][x] == a as u32;
        assert(kmer(t2, m[w][x] as int, k) == w);
    }
    assert forall|a: int| 0 <= a < nk(t2, k) implies a < nk(s2, k) && kmer(s2, a, k) == #[trigger] kmer(t2, a, k) by {
        let w = kmer(t2, a, k);
        assert(m.contains_key(w)); assert(lists(s2, k, nk(s2, k), w, m[w])); assert(lists(t2, k, nk(t2, k), w, m[w]));
        assert(m[w].contains(a as u32));
        let x = choose|x: int| 0 <= x < m[w].len() && m[w][x] == a as u32;
        assert(kmer(s2, m[w][x] as int, k) == w);
    }
    assert forall|x: int| 0 <= x < r.len() implies (#[trigger] r[x]).0 < nk(s1, k) && r[x].1 < nk(t2, k) && kmer(s1, r[x].0 as int, k) == kmer(t2, r[x].1 as int, k) by {
        assert(kmer(t2, r[x].1 as int, k) == kmer(s2, r[x].1 as int, k));
    }
    assert forall|a: int, b: int| 0 <= a < nk(s1, k) && 0 <= b < nk(t2, k) && #[trigger] kmer(s1, a, k) == #[trigger] kmer(t2, b, k) implies r.contains((a as u32, b as u32)) by {
        assert(kmer(s2, b, k) == kmer(t2, b, k));
    }
}
pub fn find_kmer_matches(seq1: &[u8], seq2: &[u8], k: usize) -> (res: Vec<(u32, u32)>)
    requires seq1@.len() < 0xffff_ffff, seq2@.len() < 0xffff_ffff
    // exactly the sorted set of position pairs with equal k-mers
    ensures matches_ok(seq1@, seq2@, k as int, res@)
{
    if seq1.len() < seq2.len() {
        let set = hash_kmers(seq1, k);
        find_kmer_matches_seq1_hashed(&set, seq2, k)
    } else {
        let set = hash_kmers(seq2, k);
        find_kmer_matches_seq2_hashed(seq1, &set, k)
    }
}
/// two texts with the same k-mer map have the same k-mer positions: a result that is right for one is right for the other
proof fn lemma_kmap_same(s1: Seq<u8>, t1: Seq<u8>, k: int, m: Map<Seq<u8>, Seq<u32>>, s2: Seq<u8>, r: Seq<(u32, u32)>)
    requires kmap_ok(s1, k, nk(s1, k), m), kmap_ok(t1, k, nk(t1, k), m), matches_ok(s1, s2, k, r), s1.len() < 0xffff_ffff, t1.len() < 0xffff_ffff, 0 <= k
    ensures matches_ok(t1, s2, k, r)
{
    // positions a of s1 and t1 carry the same k-mers: both are listed under the k-mer in m
    assert forall|a: int| 0 <= a < nk(s1, k) implies a < nk(t1, k) && kmer(t1, a, k) == #[trigger] kmer(s1, a, k) by {
        let w = kmer(s1, a, k);
        assert(m.contains_key(w)); assert(lists(s1, k, nk(s1, k), w, m[w])); assert(lists(t1, k, nk(t1, k), w, m[w]));
        assert(m[w].contains(a as u32));
        let x = choose|x: int| 0 <= x < m[w].len() && m[w][x] == a as u32;
        assert(kmer(t1, m[w][x] as int, k) == w);
    }
    assert forall|a: int| 0 <= a < nk(t1, k) implies a < nk(s1, k) && kmer(s1, a, k) == #[trigger] kmer(t1, a, k) by {
        let w = kmer(t1, a, k);
        assert(m.contains_key(w)); assert(lists(s1, k, nk(s1, k), w, m[w])); assert(lists(t1, k, nk(t1, k), w, m[w]));
        assert(m[w].contains(a as u32));
        let x = choose|x: int| 0 <= x < m[w].len() && m[w][x] == a as u32;
        assert(kmer(s1, m[w][x] as int, k) == w);
    }
    assert forall|x: int| 0 <= x < r.len() implies (#[trigger] r[x]).0 < nk(t1, k) && r[x].1 < nk(s2, k) && kmer(t1, r[x].0 as int, k) == kmer(s2, r[x].1 as int, k) by {
        assert(kmer(t1, r[x].0 as int, k) == kmer(s1, r[x].0 as int, k));
    }
    assert forall|a: int, b: int| 0 <= a < nk(t1, k) && 0 <= b < nk(s2, k) && #[trigger] kmer(t1, a, k) == #[trigger] kmer(s2, b, k) implies r.contains((a as u32, b as u32)) by {
        assert(kmer(s1, a, k) == kmer(t1, a, k));
    }
}
}
fn main(){}

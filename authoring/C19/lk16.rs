use vstd::prelude::*;
use vstd::std_specs::cmp::*;
use std::marker::PhantomData;
use std::cmp::max;
verus! {
global size_of usize == 8;
global size_of isize == 8;
pub type Pair = (u32, u32);
/// std: cmp::max returns one of its arguments (true of every Ord type); under obeys_cmp_spec it is the larger one
pub assume_specification<T: Ord> [std::cmp::max::<T>] (a: T, b: T) -> (r: T)
    ensures r == a || r == b, T::obeys_cmp_spec() ==> r == (if a.cmp_spec(&b) == core::cmp::Ordering::Greater { a } else { b });

pub open spec fn lowbit(i: u64) -> u64 { i & ((!i).wrapping_add(1)) }
/// node j (1-based) covers 1-based positions (j - lowbit(j), j]
pub open spec fn covers(j: int, i: int) -> bool { j - lowbit(j as u64) < i <= j }

proof fn lemma_lowbit(x: usize)
    requires 1 <= x < 0x1_0000_0000
    ensures ((x as isize) & ((-(x as isize)) as isize)) as usize == lowbit(x as u64),
        1 <= lowbit(x as u64) <= x,
{
    assert(-(x as isize) >= -0x1_0000_0000);
    assert(((x as isize) & ((-(x as isize)) as isize)) as usize == (x as u64 & ((!(x as u64)).wrapping_add(1))) as usize) by (bit_vector) requires 1 <= x < 0x1_0000_0000usize;
    assert((x as u64) & ((!(x as u64)).wrapping_add(1)) <= x as u64) by (bit_vector);
    assert((x as u64) & ((!(x as u64)).wrapping_add(1)) >= 1) by (bit_vector) requires x >= 1;
    assert(((x as isize) & ((-(x as isize)) as isize)) >= 0) by (bit_vector) requires 1 <= x < 0x1_0000_0000usize;
}
/// between a covering node and its successor in the update chain no node covers i; the successor does
proof fn lemma_chain(cur: u64, i: u64, j: u64)
    requires 1 <= cur < 0x1_0000_0000, 1 <= i, covers(cur as int, i as int), 1 <= j < 0x2_0000_0000,
    ensures
        (cur < j < cur + lowbit(cur)) ==> !covers(j as int, i as int),
        covers((cur + lowbit(cur)) as int, i as int),
{
    if cur < j && j < cur + lowbit(cur) {
        assert(!(j - (j & ((!j).wrapping_add(1))) < i && i <= j)) by (bit_vector)
          requires cur >= 1, cur < 0x1_0000_0000u64, i >= 1, j >= 1, j < 0x2_0000_0000u64,
           cur - (cur & ((!cur).wrapping_add(1))) < i && i <= cur,
           cur < j && j < cur + (cur & ((!cur).wrapping_add(1)));
    }
    assert(({ let nx = add(cur, (cur & ((!cur).wrapping_add(1)))); sub(nx, (nx & ((!nx).wrapping_add(1)))) < i && i <= nx })) by (bit_vector)
      requires cur >= 1, cur < 0x1_0000_0000u64, i >= 1,
       cur - (cur & ((!cur).wrapping_add(1))) < i && i <= cur;
    assert(cur & ((!cur).wrapping_add(1)) <= cur) by (bit_vector);
}
/// nodes below position i never cover it; node i itself does
proof fn lemma_cover_basic(j: u64, i: u64)
    requires 1 <= j < 0x1_0000_0000, 1 <= i
    ensures j < i ==> !covers(j as int, i as int), covers(i as int, i as int) || i >= 0x1_0000_0000
{
    assert(j & ((!j).wrapping_add(1)) >= 1) by (bit_vector) requires j >= 1;
    if i < 0x1_0000_0000 {
        assert(i & ((!i).wrapping_add(1)) >= 1) by (bit_vector) requires i >= 1;
    }
}
pub trait PrefixOp<T> {
    spec fn sop(t1: T, t2: T) -> T;
    fn operation(t1: T, t2: T) -> (r: T)
        ensures r == Self::sop(t1, t2)
    ;
}
pub struct FenwickTree<T: Default + Ord, Op: PrefixOp<T>> {
    tree: Vec<T>,
    phantom: PhantomData<Op>,
}
pub open spec fn laws<T, Op: PrefixOp<T>>() -> bool {
    &&& forall|a: T, b: T| #[trigger] Op::sop(a, b) == Op::sop(b, a)
    &&& forall|a: T, b: T, c: T| #[trigger] Op::sop(Op::sop(a, b), c) == Op::sop(a, Op::sop(b, c))
}
/// value accumulated by `get` walking down from 1-based position p, starting with acc
pub open spec fn dget<T, Op: PrefixOp<T>>(tree: Seq<T>, acc: T, p: int) -> T
    decreases p
{
    if p <= 0 || p >= 0x1_0000_0000 || lowbit(p as u64) < 1 || lowbit(p as u64) > p { acc } else { dget::<T, Op>(tree, Op::sop(acc, tree[p]), p - lowbit(p as u64)) }
}
proof fn lemma_dget_zero<Op: PrefixOp<Pair>>(tree: Seq<Pair>, p: int)
    requires forall|j: int| 0 <= j < tree.len() ==> tree[j] == (0u32, 0u32), 0 <= p < tree.len(), Op::sop((0u32, 0u32), (0u32, 0u32)) == (0u32, 0u32)
    ensures dget::<Pair, Op>(tree, (0u32, 0u32), p) == (0u32, 0u32)
    decreases p
{
    if p <= 0 || p >= 0x1_0000_0000 || lowbit(p as u64) < 1 || lowbit(p as u64) > p { } else { lemma_dget_zero::<Op>(tree, p - lowbit(p as u64)); }
}
proof fn lemma_dget_push<T, Op: PrefixOp<T>>(tree: Seq<T>, acc: T, v: T, p: int)
    requires laws::<T, Op>()
    ensures dget::<T, Op>(tree, Op::sop(acc, v), p) == Op::sop(dget::<T, Op>(tree, acc, p), v)
    decreases p
{
    if p <= 0 || p >= 0x1_0000_0000 || lowbit(p as u64) < 1 || lowbit(p as u64) > p { } else {
        // sop(sop(acc, v), t) == sop(sop(acc, t), v)
        let t = tree[p];
        assert(Op::sop(Op::sop(acc, v), t) == Op::sop(acc, Op::sop(v, t)));
        assert(Op::sop(v, t) == Op::sop(t, v));
        assert(Op::sop(Op::sop(acc, t), v) == Op::sop(acc, Op::sop(t, v)));
        lemma_dget_push::<T, Op>(tree, Op::sop(acc, t), v, p - lowbit(p as u64));
    }
}
/// effect of a point update on every prefix query
proof fn lemma_update<T, Op: PrefixOp<T>>(old_tree: Seq<T>, new_tree: Seq<T>, i: int, v: T, acc: T, p: int)
    requires laws::<T, Op>(), 1 <= i, 0 <= p < old_tree.len(), old_tree.len() == new_tree.len(), old_tree.len() <= 0x1_0000_0000,
        forall|j: int| 1 <= j < old_tree.len() ==> new_tree[j] == (if covers(j, i) { Op::sop(old_tree[j], v) } else { old_tree[j] }),
    ensures dget::<T, Op>(new_tree, acc, p) == (if p >= i { Op::sop(dget::<T, Op>(old_tree, acc, p), v) } else { dget::<T, Op>(old_tree, acc, p) })
    decreases p
{
    if p <= 0 { } else {
        let x = p as u64;
        assert(x & ((!x).wrapping_add(1)) >= 1 && x & ((!x).wrapping_add(1)) <= x) by (bit_vector) requires x >= 1;
        let q = p - lowbit(x);
        if covers(p, i) {
            lemma_update::<T, Op>(old_tree, new_tree, i, v, Op::sop(acc, new_tree[p]), q);
            // q < i: unchanged below
            let t = old_tree[p];
            assert(Op::sop(acc, Op::sop(t, v)) == Op::sop(Op::sop(acc, t), v));
            lemma_dget_push::<T, Op>(old_tree, Op::sop(acc, t), v, q);
        } else {
            lemma_update::<T, Op>(old_tree, new_tree, i, v, Op::sop(acc, old_tree[p]), q);
        }
    }
}

impl<Op: PrefixOp<Pair>> FenwickTree<Pair, Op> {
    pub closed spec fn wf(&self) -> bool { 1 <= self.tree.len() <= 0x1_0000_0000 }
    pub closed spec fn cap(&self) -> int { self.tree.len() - 1 }
    /// abstract prefix value for 0-based index idx
    pub closed spec fn prefix(&self, idx: int) -> Pair { dget::<Pair, Op>(self.tree@, (0u32, 0u32), idx + 1) }

    pub closed spec fn fresh(&self) -> bool { forall|j: int| 0 <= j < self.tree.len() ==> self.tree@[j] == (0u32, 0u32) }
    pub proof fn lemma_fresh_prefix(&self, col: int)
        requires self.fresh(), self.wf(), 0 <= col < self.cap(), Op::sop((0u32, 0u32), (0u32, 0u32)) == (0u32, 0u32)
        ensures self.prefix(col) == (0u32, 0u32)
    { lemma_dget_zero::<Op>(self.tree@, col + 1); }

    pub fn new(len: usize) -> (r: FenwickTree<Pair, Op>)
        requires len < 0xffff_ffff
        ensures r.wf(), r.cap() == len, r.fresh()
    {
        FenwickTree {
            tree: { let mut __v = Vec::new(); let __x = Pair::default(); let __n = len + 1; for __i in 0..__n
                invariant __v@.len() == __i, __x == (0u32, 0u32), forall|j: int| 0 <= j < __i ==> __v@[j] == (0u32, 0u32),
              { __v.push(__x); } __v },
            phantom: PhantomData,
        }
    }

    pub fn get(&self, idx: usize) -> (r: Pair)
        requires self.wf(), idx < self.cap()
        ensures r == self.prefix(idx as int)
    {
        let ghost i0 = idx as int;
        let mut idx = idx + 1;
        let mut sum = Pair::default();
        while idx > 0
            invariant self.wf(), idx < self.tree.len(),
                dget::<Pair, Op>(self.tree@, sum, idx as int) == dget::<Pair, Op>(self.tree@, (0u32, 0u32), i0 + 1),
            decreases idx
        {
            proof { lemma_lowbit(idx); }
            sum = Op::operation(sum, self.tree[idx]);
            idx -= (idx as isize & -(idx as isize)) as usize;
        }

        sum
    }

    pub fn set(&mut self, idx: usize, val: Pair)
        requires old(self).wf(), laws::<Pair, Op>(), idx < 0xffff_fffe
        ensures final(self).wf(), final(self).cap() == old(self).cap(),
            forall|q: int| 0 <= q < old(self).cap() ==> #[trigger] final(self).prefix(q) == (if q >= idx { Op::sop(old(self).prefix(q), val) } else { old(self).prefix(q) }),
    {
        let ghost i = idx as int + 1;
        let ghost old_tree = self.tree@;
        let mut idx = idx + 1;
        proof {
            assert forall|j: int| 1 <= j < old_tree.len() && j < i implies !covers(j, i) by { lemma_cover_basic(j as u64, i as u64); }
            lemma_cover_basic(1, i as u64);
        }
        while idx < self.tree.len()
            invariant self.wf(), self.tree.len() == old_tree.len(), 1 <= idx <= 0x2_0000_0000, 1 <= i < 0xffff_ffff,
                idx < self.tree.len() ==> covers(idx as int, i),
                forall|j: int| 1 <= j < old_tree.len() ==> #[trigger] self.tree@[j] == (if covers(j, i) && j < idx { Op::sop(old_tree[j], val) } else { old_tree[j] }),
            decreases (if idx < self.tree.len() { self.tree.len() - idx } else { 0 })
        {
            proof { lemma_lowbit(idx); }
            let ghost cur = idx; let ghost before = self.tree@;
            self.tree[idx] = Op::operation(self.tree[idx], val);
            idx += (idx as isize & -(idx as isize)) as usize;
            proof {
                assert(idx == cur + lowbit(cur as u64));
                assert forall|j: int| 1 <= j < old_tree.len() implies self.tree@[j] == (if covers(j, i) && j < idx { Op::sop(old_tree[j], val) } else { old_tree[j] }) by {
                    lemma_chain(cur as u64, i as u64, j as u64);
                    assert(self.tree@ == before.update(cur as int, Op::sop(before[cur as int], val)));
                    assert(before[j] == (if covers(j, i) && j < cur { Op::sop(old_tree[j], val) } else { old_tree[j] }));
                    assert(cur < idx);
                    if j == cur { assert(before[j] == old_tree[j]); assert(covers(j, i)); }
                    else if j < cur { assert(self.tree@[j] == before[j]); }
                    else if j < idx { assert(!covers(j, i)); assert(self.tree@[j] == before[j]); }
                    else { assert(self.tree@[j] == before[j]); }
                }
                lemma_chain(cur as u64, i as u64, 1);
            }
        }
        proof {
            assert forall|q: int| 0 <= q < old(self).cap() implies #[trigger] final(self).prefix(q) == (if q >= i - 1 { Op::sop(old(self).prefix(q), val) } else { old(self).prefix(q) }) by {
                lemma_update::<Pair, Op>(old_tree, self.tree@, i, val, (0u32, 0u32), q + 1);
            }
        }
    }
}
pub struct MaxOp;
pub open spec fn pair_le(a: Pair, b: Pair) -> bool { a.0 < b.0 || (a.0 == b.0 && a.1 <= b.1) }
pub open spec fn pmax(a: Pair, b: Pair) -> Pair { if pair_le(a, b) { b } else { a } }
impl PrefixOp<Pair> for MaxOp {
    open spec fn sop(t1: Pair, t2: Pair) -> Pair { pmax(t1, t2) }
    fn operation(t1: Pair, t2: Pair) -> (r: Pair)
    {
        max(t1, t2)
    }
}
/// MaxOp on pairs (lexicographic maximum) satisfies the algebraic laws the Fenwick contracts require
proof fn lemma_maxop_laws() ensures laws::<Pair, MaxOp>() {
    assert forall|a: Pair, b: Pair| #[trigger] MaxOp::sop(a, b) == MaxOp::sop(b, a) by {}
    assert forall|a: Pair, b: Pair, c: Pair| #[trigger] MaxOp::sop(MaxOp::sop(a, b), c) == MaxOp::sop(a, MaxOp::sop(b, c)) by {}
}
pub assume_specification<T: Ord> [<[T]>::sort_unstable] (s: &mut [T])
    ensures final(s)@.len() == old(s)@.len(), final(s)@.to_multiset() == old(s)@.to_multiset(),
        T::obeys_cmp_spec() ==> forall|i: int, j: int| 0 <= i <= j < final(s)@.len() ==> #[trigger] final(s)@[i].cmp_spec(&#[trigger] final(s)@[j]) != core::cmp::Ordering::Greater;
pub assume_specification<T> [<[T]>::reverse] (s: &mut [T])
    ensures final(s)@ == old(s)@.reverse();
/// std: binary search on a slice; on a slice sorted by Ord it finds the element iff it is present
pub assume_specification<T: Ord> [<[T]>::binary_search] (s: &[T], x: &T) -> (r: Result<usize, usize>)
    ensures match r { Ok(i) => i < s@.len() && (T::obeys_cmp_spec() ==> s@[i as int].cmp_spec(x) == core::cmp::Ordering::Equal),
        Err(i) => i <= s@.len() && ((T::obeys_cmp_spec() && forall|a: int, b: int| 0 <= a < b < s@.len() ==> (#[trigger] s@[a].cmp_spec(&s@[b])) == core::cmp::Ordering::Less)
            ==> forall|j: int| 0 <= j < s@.len() ==> (#[trigger] s@[j]).cmp_spec(x) != core::cmp::Ordering::Equal) };

pub struct SparseAlignmentResult {
    pub path: Vec<usize>,
    pub score: u32,
    pub dp_vector: Vec<(u32, i32)>,
}
pub open spec fn pair_lt(a: Pair, b: Pair) -> bool { a.0 < b.0 || (a.0 == b.0 && a.1 < b.1) }
pub open spec fn ev_le(a: (u32, u32, u32), b: (u32, u32, u32)) -> bool { a.0 < b.0 || (a.0 == b.0 && (a.1 < b.1 || (a.1 == b.1 && a.2 <= b.2))) }
/// b may follow a in a chain: b continues a on the diagonal, or starts at or after a's end in both coordinates
pub open spec fn good_link(a: Pair, b: Pair, k: int) -> bool { (b.0 == a.0 + 1 && b.1 == a.1 + 1) || (a.0 + k <= b.0 && a.1 + k <= b.1) }
pub open spec fn chain_ok(m: Seq<Pair>, path: Seq<usize>, k: int) -> bool {
    &&& path.len() >= 1
    &&& forall|i: int| 0 <= i < path.len() ==> (#[trigger] path[i]) < m.len()
    &&& forall|i: int| 1 <= i < path.len() ==> good_link(m[path[i - 1] as int], #[trigger] m[path[i] as int], k)
}
pub open spec fn start_ev(m: Seq<Pair>, p: int) -> (u32, u32, u32) { (m[p].0, m[p].1, (p + m.len()) as u32) }
pub open spec fn end_ev(m: Seq<Pair>, p: int, k: int) -> (u32, u32, u32) { ((m[p].0 + k) as u32, (m[p].1 + k) as u32, p as u32) }

pub type MaxBitTree<T> = FenwickTree<T, MaxOp>;
/// the sorted event list consists exactly of the start and end events of all matches
pub open spec fn events_ok(m: Seq<Pair>, k: int, evs: Seq<(u32, u32, u32)>) -> bool {
    &&& evs.len() == 2 * m.len()
    &&& forall|i: int, j: int| 0 <= i <= j < evs.len() ==> ev_le(evs[i], evs[j])
    &&& forall|p: int| 0 <= p < m.len() ==> evs.contains(#[trigger] start_ev(m, p)) && evs.contains(end_ev(m, p, k))
    &&& forall|e: int| 0 <= e < evs.len() ==> has_owner(m, k, #[trigger] evs[e])
    &&& forall|i: int, j: int| 0 <= i < j < evs.len() ==> evs[i] != evs[j]
}
pub open spec fn has_owner(m: Seq<Pair>, k: int, x: (u32, u32, u32)) -> bool { exists|p: int| 0 <= p < m.len() && #[trigger] is_ev_of(m, k, x, p) }
pub open spec fn is_ev_of(m: Seq<Pair>, k: int, x: (u32, u32, u32), p: int) -> bool { x == start_ev(m, p) || x == end_ev(m, p, k) }
/// the start (end) event of match p is among the first e events
pub open spec fn st(m: Seq<Pair>, evs: Seq<(u32, u32, u32)>, e: int, p: int) -> bool { exists|e1: int| 0 <= e1 < e && #[trigger] evs[e1] == start_ev(m, p) }
pub open spec fn en(m: Seq<Pair>, k: int, evs: Seq<(u32, u32, u32)>, e: int, p: int) -> bool { exists|e1: int| 0 <= e1 < e && #[trigger] evs[e1] == end_ev(m, p, k) }
/// a dp entry of a started match: score between k and x + k, predecessor none or a match it may follow (strictly to the left)
pub open spec fn dp_ok(m: Seq<Pair>, k: int, p: int, d: (u32, i32)) -> bool {
    &&& k <= d.0 <= m[p].0 + k
    &&& d.1 == -1 || (0 <= d.1 < m.len() && good_link(m[d.1 as int], m[p], k) && m[d.1 as int].0 < m[p].0)
}
/// admissible Fenwick values after e events: the default, or (score, p) of a match whose end event is processed, at a position beyond its end column
pub open spec fn qe(m: Seq<Pair>, k: int, evs: Seq<(u32, u32, u32)>, e: int) -> spec_fn(int, Pair) -> bool {
    |pos: int, v: Pair| v == (0u32, 0u32) || ((v.1 as int) < m.len() && en(m, k, evs, e, v.1 as int) && m[v.1 as int].1 + k + 1 <= pos && 1 <= v.0 <= m[v.1 as int].0 + k)
}
proof fn lemma_dup_count<A>(s: Seq<A>, i: int, j: int)
    requires 0 <= i < j < s.len(), s[i] == s[j]
    ensures s.to_multiset().count(s[i]) >= 2
{
    s.to_multiset_ensures();
    let r = s.remove(i);
    r.to_multiset_ensures();
    assert(r[j - 1] == s[j]);
    assert(r.contains(s[i]));
    assert(r.to_multiset().count(s[i]) > 0);
    assert(r.to_multiset() =~= s.to_multiset().remove(s[i]));
}
proof fn lemma_count_dup<A>(s: Seq<A>, x: A) -> (r: (int, int))
    requires s.to_multiset().count(x) >= 2
    ensures 0 <= r.0 < r.1 < s.len(), s[r.0] == x, s[r.1] == x
{
    s.to_multiset_ensures();
    assert(s.contains(x));
    let i = choose|i: int| 0 <= i < s.len() && s[i] == x;
    let t = s.remove(i);
    t.to_multiset_ensures();
    assert(t.to_multiset() =~= s.to_multiset().remove(x));
    assert(t.to_multiset().count(x) > 0);
    assert(t.contains(x));
    let j = choose|j: int| 0 <= j < t.len() && t[j] == x;
    if j < i { assert(s[j] == x); (j, i) } else { assert(s[j + 1] == x); (i, j + 1) }
}
proof fn lemma_events(m: Seq<Pair>, k: int, ev0: Seq<(u32, u32, u32)>, evs: Seq<(u32, u32, u32)>)
    requires 1 <= m.len() < 0x4000_0000, 1 <= k,
        forall|i: int| 0 <= i < m.len() ==> (#[trigger] m[i]).0 + k < 0xffff_fff0 && m[i].1 + k < 0xffff_fff0,
        ev0.len() == 2 * m.len(),
        forall|p: int| 0 <= p < m.len() ==> ev0[2 * p] == #[trigger] start_ev(m, p) && ev0[2 * p + 1] == end_ev(m, p, k),
        evs.len() == ev0.len(), evs.to_multiset() == ev0.to_multiset(),
        forall|i: int, j: int| 0 <= i <= j < evs.len() ==> vstd::std_specs::cmp::OrdSpec::cmp_spec(&#[trigger] evs[i], &#[trigger] evs[j]) != core::cmp::Ordering::Greater,
    ensures events_ok(m, k, evs)
{
    ev0.to_multiset_ensures(); evs.to_multiset_ensures();
    assert forall|i: int, j: int| 0 <= i <= j < evs.len() implies ev_le(evs[i], evs[j]) by {
        assert(vstd::std_specs::cmp::OrdSpec::cmp_spec(&evs[i], &evs[j]) != core::cmp::Ordering::Greater);
    }
    assert forall|p: int| 0 <= p < m.len() implies evs.contains(#[trigger] start_ev(m, p)) && evs.contains(end_ev(m, p, k)) by {
        assert(ev0[2 * p] == start_ev(m, p)); assert(ev0[2 * p + 1] == end_ev(m, p, k));
        assert(ev0.contains(start_ev(m, p))); assert(ev0.contains(end_ev(m, p, k)));
        assert(ev0.to_multiset().count(start_ev(m, p)) > 0);
        assert(ev0.to_multiset().count(end_ev(m, p, k)) > 0);
    }
    assert forall|e: int| 0 <= e < evs.len() implies has_owner(m, k, #[trigger] evs[e]) by {
        assert(evs.contains(evs[e]));
        assert(evs.to_multiset().count(evs[e]) > 0);
        assert(ev0.contains(evs[e]));
        let i0 = choose|i0: int| 0 <= i0 < ev0.len() && ev0[i0] == evs[e];
        let p = i0 / 2;
        if i0 % 2 == 0 { assert(ev0[2 * p] == start_ev(m, p)); } else { assert(ev0[2 * p + 1] == end_ev(m, p, k)); }
        assert(is_ev_of(m, k, evs[e], p));
    }
    assert forall|i: int, j: int| 0 <= i < j < evs.len() implies evs[i] != evs[j] by {
        if evs[i] == evs[j] {
            lemma_dup_count(evs, i, j);
            let (a, b) = lemma_count_dup(ev0, evs[i]);
            // two different positions of the unsorted list never hold the same event: the third components differ
            let pa = a / 2; let pb = b / 2;
            assert(ev0[2 * pa] == start_ev(m, pa) && ev0[2 * pa + 1] == end_ev(m, pa, k));
            assert(ev0[2 * pb] == start_ev(m, pb) && ev0[2 * pb + 1] == end_ev(m, pb, k));
            assert(false);
        }
    }
}
proof fn lemma_start_before_end(m: Seq<Pair>, k: int, evs: Seq<(u32, u32, u32)>, e: int, p: int)
    requires events_ok(m, k, evs), 0 <= e < evs.len(), 0 <= p < m.len(), evs[e] == end_ev(m, p, k), 1 <= k, m.len() < 0x4000_0000,
        m[p].0 + k < 0xffff_fff0, m[p].1 + k < 0xffff_fff0,
    ensures st(m, evs, e, p)
{
    assert(evs.contains(start_ev(m, p)));
    let es = choose|es: int| 0 <= es < evs.len() && evs[es] == start_ev(m, p);
    if es >= e { assert(ev_le(evs[e], evs[es])); assert(false); }
}
proof fn lemma_cont_started(m: Seq<Pair>, k: int, evs: Seq<(u32, u32, u32)>, e: int, p: int, c: int)
    requires events_ok(m, k, evs), 0 <= e < evs.len(), 0 <= p < m.len(), 0 <= c < m.len(), evs[e] == end_ev(m, p, k), 1 <= k, m.len() < 0x4000_0000,
        m[p].0 + k < 0xffff_fff0, m[p].1 + k < 0xffff_fff0, m[c].0 + 1 == m[p].0, m[c].1 + 1 == m[p].1,
    ensures st(m, evs, e, c)
{
    assert(evs.contains(start_ev(m, c)));
    let es = choose|es: int| 0 <= es < evs.len() && evs[es] == start_ev(m, c);
    if es >= e { assert(ev_le(evs[e], evs[es])); assert(false); }
}

// ---------------- score, optimality ----------------
pub open spec fn kjump(a: Pair, b: Pair, k: int) -> bool { a.0 + k <= b.0 && a.1 + k <= b.1 }
/// index versions (used as quantifier triggers)
pub open spec fn kj(m: Seq<Pair>, q: int, p: int, k: int) -> bool { kjump(m[q], m[p], k) }
pub open spec fn dg(m: Seq<Pair>, q: int, p: int) -> bool { diag1(m[q], m[p]) }
pub open spec fn gl(m: Seq<Pair>, q: int, p: int, k: int) -> bool { good_link(m[q], m[p], k) }
pub open spec fn diag1(a: Pair, b: Pair) -> bool { b.0 == a.0 + 1 && b.1 == a.1 + 1 }
/// what a link adds to the LCSk++ score: k for a match that starts at or after the end of its predecessor, 1 for a diagonal continuation
pub open spec fn gain(a: Pair, b: Pair, k: int) -> int { if kjump(a, b, k) { k } else { 1 } }
/// LCSk++ score of a chain of matches
pub open spec fn score(m: Seq<Pair>, path: Seq<usize>, k: int) -> int decreases path.len() {
    if path.len() == 0 { 0 } else if path.len() == 1 { k }
    else { score(m, path.drop_last(), k) + gain(m[path[path.len() - 2] as int], m[path[path.len() - 1] as int], k) }
}
/// no entry can be improved by a link: d[p] is at least k and at least d[q] + gain for every admissible predecessor q
pub open spec fn lo_ok(m: Seq<Pair>, k: int, d: Seq<(u32, i32)>) -> bool {
    &&& forall|p: int| 0 <= p < m.len() ==> (#[trigger] d[p]).0 >= k
    &&& forall|q: int, p: int| 0 <= q < m.len() && 0 <= p < m.len() && #[trigger] gl(m, q, p, k) ==> d[p].0 >= d[q].0 + gain(m[q], m[p], k)
}
/// every entry is justified by its pointer: k for a chain start, else the predecessor's entry plus the gain of the link
pub open spec fn pe_at(m: Seq<Pair>, k: int, d: Seq<(u32, i32)>, p: int) -> bool {
    if d[p].1 == -1 { d[p].0 == k } else { 0 <= d[p].1 < m.len() && d[p].0 == d[d[p].1 as int].0 + gain(m[d[p].1 as int], m[p], k) }
}
proof fn lemma_chain_bound(m: Seq<Pair>, k: int, d: Seq<(u32, i32)>, path: Seq<usize>)
    requires lo_ok(m, k, d), chain_ok(m, path, k)
    ensures score(m, path, k) <= d[path[path.len() - 1] as int].0
    decreases path.len()
{
    if path.len() >= 2 {
        let pre = path.drop_last();
        assert forall|i: int| 0 <= i < pre.len() implies (#[trigger] pre[i]) < m.len() by { assert(pre[i] == path[i]); }
        assert forall|i: int| 1 <= i < pre.len() implies good_link(m[pre[i - 1] as int], #[trigger] m[pre[i] as int], k) by { assert(pre[i] == path[i] && pre[i - 1] == path[i - 1]); }
        lemma_chain_bound(m, k, d, pre);
        let q = path[path.len() - 2] as int; let p = path[path.len() - 1] as int;
        assert(pre[pre.len() - 1] == path[path.len() - 2]);
        assert(gl(m, q, p, k));
    }
}
/// the chain obtained by following the pointers has exactly the score of its last entry
proof fn lemma_trace_score(m: Seq<Pair>, k: int, d: Seq<(u32, i32)>, r: Seq<usize>, i: int)
    requires r.len() >= 1, 0 <= i < r.len(), forall|j: int| 0 <= j < r.len() ==> (#[trigger] r[j]) < m.len() && pe_at(m, k, d, r[j] as int),
        d[r[0] as int].1 == -1, forall|j: int| 1 <= j < r.len() ==> d[#[trigger] r[j] as int].1 == r[j - 1],
    ensures score(m, r.subrange(0, i + 1), k) == d[r[i] as int].0
    decreases i
{
    let s = r.subrange(0, i + 1);
    if i == 0 { assert(pe_at(m, k, d, r[0] as int)); }
    else {
        lemma_trace_score(m, k, d, r, i - 1);
        assert(s.drop_last() =~= r.subrange(0, i));
        assert(s[s.len() - 2] == r[i - 1] && s[s.len() - 1] == r[i]);
        assert(pe_at(m, k, d, r[i] as int));
    }
}
/// the end event of a match q that p can jump from comes before the start event of p
proof fn lemma_end_before_start(m: Seq<Pair>, k: int, evs: Seq<(u32, u32, u32)>, e: int, p: int, q: int)
    requires events_ok(m, k, evs), 0 <= e < evs.len(), 0 <= p < m.len(), 0 <= q < m.len(), evs[e] == start_ev(m, p), 1 <= k, m.len() < 0x4000_0000,
        m[q].0 + k < 0xffff_fff0, m[q].1 + k < 0xffff_fff0, kjump(m[q], m[p], k),
    ensures en(m, k, evs, e, q)
{
    assert(evs.contains(start_ev(m, q)));
    assert(evs.contains(end_ev(m, q, k)));
    let eq = choose|eq: int| 0 <= eq < evs.len() && evs[eq] == end_ev(m, q, k);
    if eq >= e { assert(ev_le(evs[e], evs[eq])); assert(false); }
}
/// the end event of the diagonal predecessor c of p comes before the end event of p
proof fn lemma_cont_ended(m: Seq<Pair>, k: int, evs: Seq<(u32, u32, u32)>, e: int, p: int, c: int)
    requires events_ok(m, k, evs), 0 <= e < evs.len(), 0 <= p < m.len(), 0 <= c < m.len(), evs[e] == end_ev(m, p, k), 1 <= k, m.len() < 0x4000_0000,
        m[p].0 + k < 0xffff_fff0, m[p].1 + k < 0xffff_fff0, diag1(m[c], m[p]),
    ensures en(m, k, evs, e, c)
{
    assert(evs.contains(start_ev(m, c)));
    assert(evs.contains(end_ev(m, c, k)));
    let ec = choose|ec: int| 0 <= ec < evs.len() && evs[ec] == end_ev(m, c, k);
    if ec >= e { assert(ev_le(evs[e], evs[ec])); assert(false); }
}
/// strictly sorted matches are pairwise different and ordered as Ord orders pairs
/// strictly sorted matches are sorted in the sense of Ord on pairs
proof fn lemma_sorted_cmp(m: Seq<Pair>)
    requires forall|i: int| 1 <= i < m.len() ==> pair_lt(m[i - 1], #[trigger] m[i])
    ensures forall|a: int, b: int| 0 <= a < b < m.len() ==> (#[trigger] vstd::std_specs::cmp::OrdSpec::cmp_spec(&m[a], &m[b])) == core::cmp::Ordering::Less
{
    assert forall|a: int, b: int| 0 <= a < b < m.len() implies (#[trigger] vstd::std_specs::cmp::OrdSpec::cmp_spec(&m[a], &m[b])) == core::cmp::Ordering::Less by { lemma_sorted(m, a, b); }
}
proof fn lemma_sorted(m: Seq<Pair>, a: int, b: int)
    requires forall|i: int| 1 <= i < m.len() ==> pair_lt(m[i - 1], #[trigger] m[i]), 0 <= a < b < m.len()
    ensures pair_lt(m[a], m[b])
    decreases b - a
{ if b > a + 1 { lemma_sorted(m, a, b - 1); } }

/// the prefix maxima of a tree as a function of the column
pub open spec fn pfn(t: MaxBitTree<Pair>) -> spec_fn(int) -> Pair { |col: int| t.prefix(col) }
/// state of the sweep after e events
#[verifier::opaque]
pub open spec fn sweep_ok(m: Seq<Pair>, k: int, evs: Seq<(u32, u32, u32)>, e: int, d: Seq<(u32, i32)>) -> bool {
    // every started match has a justified entry (score bounds, admissible pointer, pointer equation with an ended predecessor)
    &&& forall|p: int| 0 <= p < m.len() && st(m, evs, e, p) ==> dp_ok(m, k, p, #[trigger] d[p]) && pe_at(m, k, d, p) && (d[p].1 >= 0 ==> en(m, k, evs, e, d[p].1 as int))
    // jumps from ended matches are accounted for in every started match
    &&& forall|q: int, p: int| 0 <= q < m.len() && 0 <= p < m.len() && st(m, evs, e, p) && en(m, k, evs, e, q) && #[trigger] kj(m, q, p, k) ==> d[p].0 >= d[q].0 + k
    // diagonal continuations are accounted for in every ended match
    &&& forall|q: int, p: int| 0 <= q < m.len() && 0 <= p < m.len() && en(m, k, evs, e, p) && #[trigger] dg(m, q, p) ==> d[p].0 >= d[q].0 + 1
}
/// the Fenwick tree after e events: every ended match is visible from its end column on, and every prefix value is the default or an ended match with its final score
#[verifier::opaque]
pub open spec fn tree_ok(m: Seq<Pair>, k: int, evs: Seq<(u32, u32, u32)>, e: int, d: Seq<(u32, i32)>, n: int, pf: spec_fn(int) -> Pair) -> bool {
    &&& forall|q: int, col: int| 0 <= q < m.len() && #[trigger] en(m, k, evs, e, q) && m[q].1 + k <= col < n ==> pair_le((d[q].0, q as u32), #[trigger] pf(col))
    &&& forall|col: int| 0 <= col < n ==> (#[trigger] pf(col)) == (0u32, 0u32) || ((pf(col).1 as int) < m.len() && en(m, k, evs, e, pf(col).1 as int) && m[pf(col).1 as int].1 + k <= col && pf(col).0 == d[pf(col).1 as int].0)
}
/// the running best: nothing beats it; it is the initial (k, 0) while all entries are k, else the entry of a started match
#[verifier::opaque]
pub open spec fn best_ok(m: Seq<Pair>, k: int, evs: Seq<(u32, u32, u32)>, e: int, d: Seq<(u32, i32)>, best: (u32, i32)) -> bool {
    &&& 0 <= best.1 < m.len()
    &&& forall|p: int| 0 <= p < m.len() && st(m, evs, e, p) ==> (#[trigger] d[p]).0 <= best.0
    &&& (best == (k as u32, 0i32)) || (best.0 >= k + 1 && st(m, evs, e, best.1 as int) && best.0 == d[best.1 as int].0)
}

proof fn lemma_sweep_init(m: Seq<Pair>, k: int, evs: Seq<(u32, u32, u32)>, d: Seq<(u32, i32)>, n: int, pf: spec_fn(int) -> Pair)
    requires m.len() >= 1, forall|col: int| 0 <= col < n ==> #[trigger] pf(col) == (0u32, 0u32), 1 <= k < 0x1_0000_0000
    ensures sweep_ok(m, k, evs, 0, d), tree_ok(m, k, evs, 0, d, n, pf), best_ok(m, k, evs, 0, d, (k as u32, 0i32))
{ reveal(sweep_ok); reveal(tree_ok); reveal(best_ok); }
/// facts the code needs at the start event of p: the prefix maximum at column y_p is the default or the final entry of an ended match that p can jump from
proof fn lemma_start_pre(m: Seq<Pair>, k: int, evs: Seq<(u32, u32, u32)>, e: int, p: int, d: Seq<(u32, i32)>, n: int, pf: spec_fn(int) -> Pair)
    requires events_ok(m, k, evs), 0 <= e < evs.len(), 0 <= p < m.len(), evs[e] == start_ev(m, p), 1 <= k, m.len() < 0x4000_0000,
        forall|i: int| 0 <= i < m.len() ==> (#[trigger] m[i]).0 + k < 0xffff_fff0 && m[i].1 + k < 0xffff_fff0,
        forall|i: int| 0 <= i < m.len() ==> (#[trigger] m[i]).0 + k <= n && m[i].1 + k <= n,
        sweep_ok(m, k, evs, e, d), tree_ok(m, k, evs, e, d, n, pf),
    ensures m[p].1 < n, pf(m[p].1 as int).0 > 0 ==> (pf(m[p].1 as int).1 as int) < m.len() && k + pf(m[p].1 as int).0 <= m[p].0 + k
{
    reveal(sweep_ok); reveal(tree_ok);
    let v = pf(m[p].1 as int);
    if v.0 > 0 {
        let b = v.1 as int;
        let e1 = choose|e1: int| 0 <= e1 < e && evs[e1] == end_ev(m, b, k);
        assert(ev_le(evs[e1], evs[e]));
        lemma_start_before_end(m, k, evs, e1, b);
        assert(st(m, evs, e, b));
        assert(dp_ok(m, k, b, d[b]));
    }
}
/// facts the code needs at the end event of p
proof fn lemma_end_pre(m: Seq<Pair>, k: int, evs: Seq<(u32, u32, u32)>, e: int, p: int, d: Seq<(u32, i32)>, c: int)
    requires events_ok(m, k, evs), 0 <= e < evs.len(), 0 <= p < m.len(), evs[e] == end_ev(m, p, k), 1 <= k, m.len() < 0x4000_0000,
        forall|i: int| 0 <= i < m.len() ==> (#[trigger] m[i]).0 + k < 0xffff_fff0 && m[i].1 + k < 0xffff_fff0,
        sweep_ok(m, k, evs, e, d), 0 <= c < m.len(), c != p ==> diag1(m[c], m[p]),
    ensures dp_ok(m, k, c, d[c])
{
    reveal(sweep_ok);
    lemma_start_before_end(m, k, evs, e, p);
    if c != p { lemma_cont_started(m, k, evs, e, p, c); }
}
/// at the end everything is started and ended: the entries are locally optimal and justified
proof fn lemma_all_done(m: Seq<Pair>, k: int, evs: Seq<(u32, u32, u32)>, p: int)
    requires events_ok(m, k, evs), 0 <= p < m.len()
    ensures st(m, evs, evs.len() as int, p), en(m, k, evs, evs.len() as int, p)
{
    assert(evs.contains(start_ev(m, p))); assert(evs.contains(end_ev(m, p, k)));
    let es = choose|es: int| 0 <= es < evs.len() && evs[es] == start_ev(m, p);
    let ee = choose|ee: int| 0 <= ee < evs.len() && evs[ee] == end_ev(m, p, k);
}
proof fn lemma_sweep_done(m: Seq<Pair>, k: int, evs: Seq<(u32, u32, u32)>, d: Seq<(u32, i32)>, best: (u32, i32))
    requires events_ok(m, k, evs), 1 <= k, 1 <= m.len() < 0x4000_0000, sweep_ok(m, k, evs, evs.len() as int, d), best_ok(m, k, evs, evs.len() as int, d, best),
    ensures lo_ok(m, k, d), forall|p: int| 0 <= p < m.len() ==> dp_ok(m, k, p, #[trigger] d[p]) && pe_at(m, k, d, p),
        0 <= best.1 < m.len(), d[best.1 as int].0 == best.0, forall|p: int| 0 <= p < m.len() ==> (#[trigger] d[p]).0 <= best.0,
{
    reveal(sweep_ok); reveal(best_ok);
    let e = evs.len() as int; let len = m.len() as int;
    assert forall|p: int| 0 <= p < len implies (#[trigger] d[p]).0 >= k by { lemma_all_done(m, k, evs, p); }
    assert forall|q: int, p: int| 0 <= q < len && 0 <= p < len && #[trigger] gl(m, q, p, k) implies d[p].0 >= d[q].0 + gain(m[q], m[p], k) by {
        lemma_all_done(m, k, evs, p); lemma_all_done(m, k, evs, q);
        if kjump(m[q], m[p], k) { assert(kj(m, q, p, k)); } else { assert(dg(m, q, p)); }
    }
    assert forall|p: int| 0 <= p < len implies dp_ok(m, k, p, #[trigger] d[p]) && pe_at(m, k, d, p) by { lemma_all_done(m, k, evs, p); }
    lemma_all_done(m, k, evs, best.1 as int); lemma_all_done(m, k, evs, 0);
    assert forall|p: int| 0 <= p < len implies (#[trigger] d[p]).0 <= best.0 by { lemma_all_done(m, k, evs, p); }
}

/// the basic facts at the start event of p
proof fn lemma_start_facts(m: Seq<Pair>, k: int, evs: Seq<(u32, u32, u32)>, e: int, p: int, d0: Seq<(u32, i32)>, d1: Seq<(u32, i32)>, n: int, pf: spec_fn(int) -> Pair, best0: (u32, i32), best1: (u32, i32))
    requires events_ok(m, k, evs), 0 <= e < evs.len(), 0 <= p < m.len(), evs[e] == start_ev(m, p), 1 <= k, m.len() < 0x4000_0000, d0.len() == 2 * m.len(),
        forall|i: int| 0 <= i < m.len() ==> (#[trigger] m[i]).0 + k < 0xffff_fff0 && m[i].1 + k < 0xffff_fff0,
        forall|i: int| 0 <= i < m.len() ==> (#[trigger] m[i]).0 + k <= n && m[i].1 + k <= n,
        sweep_ok(m, k, evs, e, d0), tree_ok(m, k, evs, e, d0, n, pf), best_ok(m, k, evs, e, d0, best0),
        // what the code did: the entry of p becomes (k, -1), or (k + v, q) for the prefix maximum (v, q) at column y_p if v > 0
        d1 =~= d0.update(p, if pf(m[p].1 as int).0 > 0 { ((k + pf(m[p].1 as int).0) as u32, pf(m[p].1 as int).1 as i32) } else { (k as u32, -1i32) }),
        best1 == (if pf(m[p].1 as int).0 > 0 { tmax(best0, (d1[p].0, p as i32)) } else { best0 }),
    ensures !st(m, evs, e, p), !en(m, k, evs, e + 1, p), m[p].1 < n,
        forall|p2: int| 0 <= p2 < m.len() ==> (#[trigger] st(m, evs, e + 1, p2) <==> (st(m, evs, e, p2) || p2 == p)),
        forall|p2: int| 0 <= p2 < m.len() ==> (#[trigger] en(m, k, evs, e + 1, p2) <==> en(m, k, evs, e, p2)),
        forall|p2: int| 0 <= p2 < d0.len() && p2 != p ==> #[trigger] d1[p2] == d0[p2], d1.len() == d0.len(),
        ({ let v = pf(m[p].1 as int); let b = v.1 as int;
           &&& v.0 > 0 ==> 0 <= b < m.len() && b != p && en(m, k, evs, e, b) && st(m, evs, e, b) && dp_ok(m, k, b, d0[b]) && v.0 == d0[b].0 && kjump(m[b], m[p], k)
                && d1[p] == ((k + v.0) as u32, b as i32) && k + v.0 <= m[p].0 + k
           &&& v.0 == 0 ==> d1[p] == (k as u32, -1i32) }),
{
    reveal(sweep_ok); reveal(tree_ok);
    let v = pf(m[p].1 as int); let len = m.len() as int;
    assert(!st(m, evs, e, p)) by { if st(m, evs, e, p) { let e1 = choose|e1: int| 0 <= e1 < e && evs[e1] == start_ev(m, p); assert(evs[e1] != evs[e]); } }
    assert(!en(m, k, evs, e + 1, p)) by { if en(m, k, evs, e + 1, p) { let e1 = choose|e1: int| 0 <= e1 < e + 1 && evs[e1] == end_ev(m, p, k); assert(e1 != e); lemma_start_before_end(m, k, evs, e1, p); let e0 = choose|e0: int| 0 <= e0 < e1 && evs[e0] == start_ev(m, p); assert(evs[e0] != evs[e]); } }
    assert forall|p2: int| 0 <= p2 < len implies (#[trigger] st(m, evs, e + 1, p2) <==> (st(m, evs, e, p2) || p2 == p)) by {
        if st(m, evs, e + 1, p2) && p2 != p { let e2 = choose|e2: int| 0 <= e2 < e + 1 && evs[e2] == start_ev(m, p2); assert(e2 != e); }
        if st(m, evs, e, p2) { let e2 = choose|e2: int| 0 <= e2 < e && evs[e2] == start_ev(m, p2); }
        if p2 == p { assert(evs[e] == start_ev(m, p)); }
    }
    assert forall|p2: int| 0 <= p2 < len implies (#[trigger] en(m, k, evs, e + 1, p2) <==> en(m, k, evs, e, p2)) by {
        if en(m, k, evs, e + 1, p2) { let e2 = choose|e2: int| 0 <= e2 < e + 1 && evs[e2] == end_ev(m, p2, k); assert(e2 != e); }
        if en(m, k, evs, e, p2) { let e2 = choose|e2: int| 0 <= e2 < e && evs[e2] == end_ev(m, p2, k); }
    }
    if v.0 > 0 {
        let b = v.1 as int;
        assert(en(m, k, evs, e, b) && m[b].1 + k <= m[p].1 && v.0 == d0[b].0);
        let e1 = choose|e1: int| 0 <= e1 < e && evs[e1] == end_ev(m, b, k);
        assert(ev_le(evs[e1], evs[e]));
        lemma_start_before_end(m, k, evs, e1, b);
        assert(st(m, evs, e, b)) by { let e0 = choose|e0: int| 0 <= e0 < e1 && evs[e0] == start_ev(m, b); }
        assert(dp_ok(m, k, b, d0[b]));
    }
}
proof fn lemma_start_sweep(m: Seq<Pair>, k: int, evs: Seq<(u32, u32, u32)>, e: int, p: int, d0: Seq<(u32, i32)>, d1: Seq<(u32, i32)>, n: int, pf: spec_fn(int) -> Pair, best0: (u32, i32), best1: (u32, i32))
    requires events_ok(m, k, evs), 0 <= e < evs.len(), 0 <= p < m.len(), evs[e] == start_ev(m, p), 1 <= k, m.len() < 0x4000_0000, d0.len() == 2 * m.len(),
        forall|i: int| 0 <= i < m.len() ==> (#[trigger] m[i]).0 + k < 0xffff_fff0 && m[i].1 + k < 0xffff_fff0,
        forall|i: int| 0 <= i < m.len() ==> (#[trigger] m[i]).0 + k <= n && m[i].1 + k <= n,
        sweep_ok(m, k, evs, e, d0), tree_ok(m, k, evs, e, d0, n, pf), best_ok(m, k, evs, e, d0, best0),
        // what the code did: the entry of p becomes (k, -1), or (k + v, q) for the prefix maximum (v, q) at column y_p if v > 0
        d1 =~= d0.update(p, if pf(m[p].1 as int).0 > 0 { ((k + pf(m[p].1 as int).0) as u32, pf(m[p].1 as int).1 as i32) } else { (k as u32, -1i32) }),
        best1 == (if pf(m[p].1 as int).0 > 0 { tmax(best0, (d1[p].0, p as i32)) } else { best0 }),
    ensures sweep_ok(m, k, evs, e + 1, d1), dp_ok(m, k, p, d1[p])
{
    lemma_start_facts(m, k, evs, e, p, d0, d1, n, pf, best0, best1);
    reveal(sweep_ok); reveal(tree_ok);
    let v = pf(m[p].1 as int); let len = m.len() as int;
    // jumps into p: every ended q that p can jump from is below the prefix maximum
    assert forall|q: int| 0 <= q < len && en(m, k, evs, e + 1, q) && #[trigger] kj(m, q, p, k) implies d1[p].0 >= d1[q].0 + k by {
        assert(q != p);
        assert(en(m, k, evs, e, q));
        assert(pair_le((d0[q].0, q as u32), pf(m[p].1 as int)));
        let e1 = choose|e1: int| 0 <= e1 < e && evs[e1] == end_ev(m, q, k);
        lemma_start_before_end(m, k, evs, e1, q);
        assert(st(m, evs, e, q)) by { let e0 = choose|e0: int| 0 <= e0 < e1 && evs[e0] == start_ev(m, q); }
        assert(dp_ok(m, k, q, d0[q]));
    }
    assert forall|p2: int| 0 <= p2 < len && st(m, evs, e + 1, p2) implies dp_ok(m, k, p2, #[trigger] d1[p2]) && pe_at(m, k, d1, p2) && (d1[p2].1 >= 0 ==> en(m, k, evs, e + 1, d1[p2].1 as int)) by {
        if p2 != p { assert(st(m, evs, e, p2)); assert(d1[p2] == d0[p2]); assert(pe_at(m, k, d0, p2)); if d0[p2].1 >= 0 { let t = d0[p2].1 as int; assert(en(m, k, evs, e, t)); assert(t != p); assert(en(m, k, evs, e + 1, t)); } }
        else if v.0 > 0 { let b = v.1 as int; assert(en(m, k, evs, e + 1, b)); assert(gain(m[b], m[p], k) == k); }
    }
    assert forall|q: int, p2: int| 0 <= q < len && 0 <= p2 < len && st(m, evs, e + 1, p2) && en(m, k, evs, e + 1, q) && #[trigger] kj(m, q, p2, k) implies d1[p2].0 >= d1[q].0 + k by {
        if p2 != p { assert(st(m, evs, e, p2)); assert(en(m, k, evs, e, q)); assert(q != p); assert(d0[p2].0 >= d0[q].0 + k); }
    }
    assert forall|q: int, p2: int| 0 <= q < len && 0 <= p2 < len && en(m, k, evs, e + 1, p2) && #[trigger] dg(m, q, p2) implies d1[p2].0 >= d1[q].0 + 1 by {
        assert(en(m, k, evs, e, p2)); assert(p2 != p);
        // the diagonal predecessor of an ended match is itself ended, hence not p
        let e2 = choose|e2: int| 0 <= e2 < e && evs[e2] == end_ev(m, p2, k);
        lemma_cont_ended(m, k, evs, e2, p2, q);
        assert(en(m, k, evs, e, q)) by { let e1 = choose|e1: int| 0 <= e1 < e2 && evs[e1] == end_ev(m, q, k); }
        assert(q != p);
        assert(d0[p2].0 >= d0[q].0 + 1);
    }
}
proof fn lemma_start_tree(m: Seq<Pair>, k: int, evs: Seq<(u32, u32, u32)>, e: int, p: int, d0: Seq<(u32, i32)>, d1: Seq<(u32, i32)>, n: int, pf: spec_fn(int) -> Pair, best0: (u32, i32), best1: (u32, i32))
    requires events_ok(m, k, evs), 0 <= e < evs.len(), 0 <= p < m.len(), evs[e] == start_ev(m, p), 1 <= k, m.len() < 0x4000_0000, d0.len() == 2 * m.len(),
        forall|i: int| 0 <= i < m.len() ==> (#[trigger] m[i]).0 + k < 0xffff_fff0 && m[i].1 + k < 0xffff_fff0,
        forall|i: int| 0 <= i < m.len() ==> (#[trigger] m[i]).0 + k <= n && m[i].1 + k <= n,
        sweep_ok(m, k, evs, e, d0), tree_ok(m, k, evs, e, d0, n, pf), best_ok(m, k, evs, e, d0, best0),
        // what the code did: the entry of p becomes (k, -1), or (k + v, q) for the prefix maximum (v, q) at column y_p if v > 0
        d1 =~= d0.update(p, if pf(m[p].1 as int).0 > 0 { ((k + pf(m[p].1 as int).0) as u32, pf(m[p].1 as int).1 as i32) } else { (k as u32, -1i32) }),
        best1 == (if pf(m[p].1 as int).0 > 0 { tmax(best0, (d1[p].0, p as i32)) } else { best0 }),
    ensures tree_ok(m, k, evs, e + 1, d1, n, pf)
{
    lemma_start_facts(m, k, evs, e, p, d0, d1, n, pf, best0, best1);
    reveal(tree_ok);
    let len = m.len() as int;
    assert forall|q: int, col: int| 0 <= q < len && #[trigger] en(m, k, evs, e + 1, q) && m[q].1 + k <= col < n implies pair_le((d1[q].0, q as u32), #[trigger] pf(col)) by {
        assert(en(m, k, evs, e, q)); assert(q != p);
        assert(pair_le((d0[q].0, q as u32), pf(col)));
    }
    assert forall|col: int| 0 <= col < n implies (#[trigger] pf(col)) == (0u32, 0u32) || ((pf(col).1 as int) < len && en(m, k, evs, e + 1, pf(col).1 as int) && m[pf(col).1 as int].1 + k <= col && pf(col).0 == d1[pf(col).1 as int].0) by {
        if pf(col) != (0u32, 0u32) { let b = pf(col).1 as int; assert(en(m, k, evs, e, b)); assert(b != p); assert(en(m, k, evs, e + 1, b)); }
    }
}
proof fn lemma_start_best(m: Seq<Pair>, k: int, evs: Seq<(u32, u32, u32)>, e: int, p: int, d0: Seq<(u32, i32)>, d1: Seq<(u32, i32)>, n: int, pf: spec_fn(int) -> Pair, best0: (u32, i32), best1: (u32, i32))
    requires events_ok(m, k, evs), 0 <= e < evs.len(), 0 <= p < m.len(), evs[e] == start_ev(m, p), 1 <= k, m.len() < 0x4000_0000, d0.len() == 2 * m.len(),
        forall|i: int| 0 <= i < m.len() ==> (#[trigger] m[i]).0 + k < 0xffff_fff0 && m[i].1 + k < 0xffff_fff0,
        forall|i: int| 0 <= i < m.len() ==> (#[trigger] m[i]).0 + k <= n && m[i].1 + k <= n,
        sweep_ok(m, k, evs, e, d0), tree_ok(m, k, evs, e, d0, n, pf), best_ok(m, k, evs, e, d0, best0),
        // what the code did: the entry of p becomes (k, -1), or (k + v, q) for the prefix maximum (v, q) at column y_p if v > 0
        d1 =~= d0.update(p, if pf(m[p].1 as int).0 > 0 { ((k + pf(m[p].1 as int).0) as u32, pf(m[p].1 as int).1 as i32) } else { (k as u32, -1i32) }),
        best1 == (if pf(m[p].1 as int).0 > 0 { tmax(best0, (d1[p].0, p as i32)) } else { best0 }),
    ensures best_ok(m, k, evs, e + 1, d1, best1)
{
    lemma_start_facts(m, k, evs, e, p, d0, d1, n, pf, best0, best1);
    reveal(best_ok);
    let len = m.len() as int; let v = pf(m[p].1 as int);
    assert forall|p2: int| 0 <= p2 < len && st(m, evs, e + 1, p2) implies (#[trigger] d1[p2]).0 <= best1.0 by {
        if p2 != p { assert(st(m, evs, e, p2)); assert(d1[p2] == d0[p2]); assert(d0[p2].0 <= best0.0); }
        else if v.0 == 0 { assert(st(m, evs, e, 0) || true); lemma_best_ge_k(m, k, evs, e, d0, best0); }
    }
    if best1 != (k as u32, 0i32) {
        if best1 == best0 { assert(best0.1 as int != p); assert(st(m, evs, e + 1, best0.1 as int)); }
        else { assert(st(m, evs, e + 1, p)); }
    }
}
/// the running best is never below k
proof fn lemma_best_ge_k(m: Seq<Pair>, k: int, evs: Seq<(u32, u32, u32)>, e: int, d: Seq<(u32, i32)>, best: (u32, i32))
    requires best_ok(m, k, evs, e, d, best), 1 <= k < 0x1_0000_0000
    ensures best.0 >= k
{ reveal(best_ok); }
/// effect of the start event of match p
proof fn lemma_start_step(m: Seq<Pair>, k: int, evs: Seq<(u32, u32, u32)>, e: int, p: int, d0: Seq<(u32, i32)>, d1: Seq<(u32, i32)>, n: int, pf: spec_fn(int) -> Pair, best0: (u32, i32), best1: (u32, i32))
    requires events_ok(m, k, evs), 0 <= e < evs.len(), 0 <= p < m.len(), evs[e] == start_ev(m, p), 1 <= k, m.len() < 0x4000_0000, d0.len() == 2 * m.len(),
        forall|i: int| 0 <= i < m.len() ==> (#[trigger] m[i]).0 + k < 0xffff_fff0 && m[i].1 + k < 0xffff_fff0,
        forall|i: int| 0 <= i < m.len() ==> (#[trigger] m[i]).0 + k <= n && m[i].1 + k <= n,
        sweep_ok(m, k, evs, e, d0), tree_ok(m, k, evs, e, d0, n, pf), best_ok(m, k, evs, e, d0, best0),
        // what the code did: the entry of p becomes (k, -1), or (k + v, q) for the prefix maximum (v, q) at column y_p if v > 0
        d1 =~= d0.update(p, if pf(m[p].1 as int).0 > 0 { ((k + pf(m[p].1 as int).0) as u32, pf(m[p].1 as int).1 as i32) } else { (k as u32, -1i32) }),
        best1 == (if pf(m[p].1 as int).0 > 0 { tmax(best0, (d1[p].0, p as i32)) } else { best0 }),
    ensures sweep_ok(m, k, evs, e + 1, d1), tree_ok(m, k, evs, e + 1, d1, n, pf), best_ok(m, k, evs, e + 1, d1, best1),
        dp_ok(m, k, p, d1[p]),
{
    lemma_start_sweep(m, k, evs, e, p, d0, d1, n, pf, best0, best1);
    lemma_start_tree(m, k, evs, e, p, d0, d1, n, pf, best0, best1);
    lemma_start_best(m, k, evs, e, p, d0, d1, n, pf, best0, best1);
}
/// lexicographic maximum of (score, index) pairs as computed by std::cmp::max
pub open spec fn tle(a: (u32, i32), b: (u32, i32)) -> bool { a.0 < b.0 || (a.0 == b.0 && a.1 <= b.1) }
pub open spec fn tmax(a: (u32, i32), b: (u32, i32)) -> (u32, i32) { if tle(a, b) { b } else { a } }
/// two different positions of the sorted event list hold different events... (start and end events of all matches are pairwise different)
proof fn lemma_ev_distinct(m: Seq<Pair>, k: int, evs: Seq<(u32, u32, u32)>, e1: int, e2: int)
    requires events_ok(m, k, evs), 0 <= e1 < e2 < evs.len(), evs[e1] == evs[e2]
    ensures false
{ }
/// what the code does to the entry of p (and to the running best) at the end event of p: cc is the diagonal predecessor of p, or -1 if there is none
pub open spec fn end_did(m: Seq<Pair>, p: int, d0: Seq<(u32, i32)>, d1: Seq<(u32, i32)>, best0: (u32, i32), best1: (u32, i32), cc: int) -> bool {
    if cc == -1 { (forall|c: int| 0 <= c < m.len() ==> !#[trigger] dg(m, c, p)) && d1 =~= d0 && best1 == best0 }
    else { 0 <= cc < m.len() && dg(m, cc, p) && (forall|c: int| 0 <= c < m.len() && #[trigger] dg(m, c, p) ==> c == cc)
        && d1 =~= d0.update(p, tmax(d0[p], ((d0[cc].0 + 1) as u32, cc as i32))) && best1 == tmax(best0, (d1[p].0, p as i32)) }
}
/// the basic facts at the end event of p
pub open spec fn end_cc(m: Seq<Pair>, p: int, d0: Seq<(u32, i32)>, d1: Seq<(u32, i32)>, best0: (u32, i32), best1: (u32, i32)) -> int { choose|cc: int| end_did(m, p, d0, d1, best0, best1, cc) }
proof fn lemma_end_facts(m: Seq<Pair>, k: int, evs: Seq<(u32, u32, u32)>, e: int, p: int, d0: Seq<(u32, i32)>, d1: Seq<(u32, i32)>, n: int, pf0: spec_fn(int) -> Pair, pf1: spec_fn(int) -> Pair, best0: (u32, i32), best1: (u32, i32))
    requires events_ok(m, k, evs), 0 <= e < evs.len(), 0 <= p < m.len(), evs[e] == end_ev(m, p, k), 1 <= k, m.len() < 0x4000_0000, d0.len() == 2 * m.len(),
        forall|i: int| 0 <= i < m.len() ==> (#[trigger] m[i]).0 + k < 0xffff_fff0 && m[i].1 + k < 0xffff_fff0,
        forall|i: int| 0 <= i < m.len() ==> (#[trigger] m[i]).0 + k <= n && m[i].1 + k <= n,
        sweep_ok(m, k, evs, e, d0), tree_ok(m, k, evs, e, d0, n, pf0), best_ok(m, k, evs, e, d0, best0),
        exists|cc: int| end_did(m, p, d0, d1, best0, best1, cc),
        forall|col: int| 0 <= col < n ==> #[trigger] pf1(col) == (if col >= m[p].1 + k { pmax(pf0(col), (d1[p].0, p as u32)) } else { pf0(col) }),
    ensures st(m, evs, e, p), !en(m, k, evs, e, p), dp_ok(m, k, p, d0[p]),
        forall|p2: int| 0 <= p2 < m.len() ==> (#[trigger] st(m, evs, e + 1, p2) <==> st(m, evs, e, p2)),
        forall|p2: int| 0 <= p2 < m.len() ==> (#[trigger] en(m, k, evs, e + 1, p2) <==> (en(m, k, evs, e, p2) || p2 == p)),
        forall|p2: int| 0 <= p2 < d0.len() && p2 != p ==> #[trigger] d1[p2] == d0[p2],
        d1[p].0 >= d0[p].0, d1.len() == d0.len(),
        ({ let cc = end_cc(m, p, d0, d1, best0, best1);
           &&& end_did(m, p, d0, d1, best0, best1, cc)
           &&& cc >= 0 ==> dg(m, cc, p) && st(m, evs, e, cc) && en(m, k, evs, e, cc) && dp_ok(m, k, cc, d0[cc]) && cc != p && 0 <= cc < m.len()
                && (d1[p] == d0[p] || d1[p] == ((d0[cc].0 + 1) as u32, cc as i32)) && d1[p].0 >= d0[cc].0 + 1 && gain(m[cc], m[p], k) == 1
           &&& cc < 0 ==> cc == -1 && d1[p] == d0[p] }),
{
    reveal(sweep_ok);
    let cc = end_cc(m, p, d0, d1, best0, best1);
    let len = m.len() as int;
    lemma_start_before_end(m, k, evs, e, p);
    assert(!en(m, k, evs, e, p)) by { if en(m, k, evs, e, p) { let e1 = choose|e1: int| 0 <= e1 < e && evs[e1] == end_ev(m, p, k); assert(evs[e1] != evs[e]); } }
    assert forall|p2: int| 0 <= p2 < len implies (#[trigger] st(m, evs, e + 1, p2) <==> st(m, evs, e, p2)) by {
        if st(m, evs, e + 1, p2) { let e2 = choose|e2: int| 0 <= e2 < e + 1 && evs[e2] == start_ev(m, p2); assert(e2 != e); }
        if st(m, evs, e, p2) { let e2 = choose|e2: int| 0 <= e2 < e && evs[e2] == start_ev(m, p2); }
    }
    assert forall|p2: int| 0 <= p2 < len implies (#[trigger] en(m, k, evs, e + 1, p2) <==> (en(m, k, evs, e, p2) || p2 == p)) by {
        if en(m, k, evs, e + 1, p2) && p2 != p { let e2 = choose|e2: int| 0 <= e2 < e + 1 && evs[e2] == end_ev(m, p2, k); assert(e2 != e); }
        if en(m, k, evs, e, p2) { let e2 = choose|e2: int| 0 <= e2 < e && evs[e2] == end_ev(m, p2, k); }
        if p2 == p { assert(evs[e] == end_ev(m, p, k)); }
    }
    if cc >= 0 {
        assert(dg(m, cc, p));
        lemma_cont_started(m, k, evs, e, p, cc);
        lemma_cont_ended(m, k, evs, e, p, cc);
        assert(dp_ok(m, k, cc, d0[cc]));
    }
}
proof fn lemma_end_sweep(m: Seq<Pair>, k: int, evs: Seq<(u32, u32, u32)>, e: int, p: int, d0: Seq<(u32, i32)>, d1: Seq<(u32, i32)>, n: int, pf0: spec_fn(int) -> Pair, pf1: spec_fn(int) -> Pair, best0: (u32, i32), best1: (u32, i32))
    requires events_ok(m, k, evs), 0 <= e < evs.len(), 0 <= p < m.len(), evs[e] == end_ev(m, p, k), 1 <= k, m.len() < 0x4000_0000, d0.len() == 2 * m.len(),
        forall|i: int| 0 <= i < m.len() ==> (#[trigger] m[i]).0 + k < 0xffff_fff0 && m[i].1 + k < 0xffff_fff0,
        forall|i: int| 0 <= i < m.len() ==> (#[trigger] m[i]).0 + k <= n && m[i].1 + k <= n,
        sweep_ok(m, k, evs, e, d0), tree_ok(m, k, evs, e, d0, n, pf0), best_ok(m, k, evs, e, d0, best0),
        exists|cc: int| end_did(m, p, d0, d1, best0, best1, cc),
        forall|col: int| 0 <= col < n ==> #[trigger] pf1(col) == (if col >= m[p].1 + k { pmax(pf0(col), (d1[p].0, p as u32)) } else { pf0(col) }),
    ensures sweep_ok(m, k, evs, e + 1, d1)
{
    lemma_end_facts(m, k, evs, e, p, d0, d1, n, pf0, pf1, best0, best1);
    reveal(sweep_ok);
    let cc = end_cc(m, p, d0, d1, best0, best1); let len = m.len() as int;
    assert forall|p2: int| 0 <= p2 < len && st(m, evs, e + 1, p2) implies dp_ok(m, k, p2, #[trigger] d1[p2]) && pe_at(m, k, d1, p2) && (d1[p2].1 >= 0 ==> en(m, k, evs, e + 1, d1[p2].1 as int)) by {
        assert(st(m, evs, e, p2));
        assert(dp_ok(m, k, p2, d0[p2]) && pe_at(m, k, d0, p2));
        if d1[p2] == d0[p2] { if d0[p2].1 >= 0 { let t = d0[p2].1 as int; assert(en(m, k, evs, e, t)); assert(t != p); assert(en(m, k, evs, e + 1, t)); } }
        else { assert(p2 == p && cc >= 0); assert(en(m, k, evs, e + 1, cc)); }
    }
    assert forall|q: int, p2: int| 0 <= q < len && 0 <= p2 < len && st(m, evs, e + 1, p2) && en(m, k, evs, e + 1, q) && #[trigger] kj(m, q, p2, k) implies d1[p2].0 >= d1[q].0 + k by {
        assert(st(m, evs, e, p2));
        if q == p {
            // a match that jumps from p starts after the end event of p, which is this one
            let e2 = choose|e2: int| 0 <= e2 < e && evs[e2] == start_ev(m, p2);
            lemma_end_before_start(m, k, evs, e2, p2, p);
            let e1 = choose|e1: int| 0 <= e1 < e2 && evs[e1] == end_ev(m, p, k);
            assert(evs[e1] != evs[e]);
        } else { assert(en(m, k, evs, e, q)); assert(d0[p2].0 >= d0[q].0 + k); }
    }
    assert forall|q: int, p2: int| 0 <= q < len && 0 <= p2 < len && en(m, k, evs, e + 1, p2) && #[trigger] dg(m, q, p2) implies d1[p2].0 >= d1[q].0 + 1 by {
        if p2 == p { assert(cc >= 0 && q == cc); }
        else {
            assert(en(m, k, evs, e, p2));
            let e2 = choose|e2: int| 0 <= e2 < e && evs[e2] == end_ev(m, p2, k);
            lemma_cont_ended(m, k, evs, e2, p2, q);
            assert(en(m, k, evs, e, q)) by { let e1 = choose|e1: int| 0 <= e1 < e2 && evs[e1] == end_ev(m, q, k); }
            assert(q != p);
            assert(d0[p2].0 >= d0[q].0 + 1);
        }
    }
}
proof fn lemma_end_tree(m: Seq<Pair>, k: int, evs: Seq<(u32, u32, u32)>, e: int, p: int, d0: Seq<(u32, i32)>, d1: Seq<(u32, i32)>, n: int, pf0: spec_fn(int) -> Pair, pf1: spec_fn(int) -> Pair, best0: (u32, i32), best1: (u32, i32))
    requires events_ok(m, k, evs), 0 <= e < evs.len(), 0 <= p < m.len(), evs[e] == end_ev(m, p, k), 1 <= k, m.len() < 0x4000_0000, d0.len() == 2 * m.len(),
        forall|i: int| 0 <= i < m.len() ==> (#[trigger] m[i]).0 + k < 0xffff_fff0 && m[i].1 + k < 0xffff_fff0,
        forall|i: int| 0 <= i < m.len() ==> (#[trigger] m[i]).0 + k <= n && m[i].1 + k <= n,
        sweep_ok(m, k, evs, e, d0), tree_ok(m, k, evs, e, d0, n, pf0), best_ok(m, k, evs, e, d0, best0),
        exists|cc: int| end_did(m, p, d0, d1, best0, best1, cc),
        forall|col: int| 0 <= col < n ==> #[trigger] pf1(col) == (if col >= m[p].1 + k { pmax(pf0(col), (d1[p].0, p as u32)) } else { pf0(col) }),
    ensures tree_ok(m, k, evs, e + 1, d1, n, pf1)
{
    lemma_end_facts(m, k, evs, e, p, d0, d1, n, pf0, pf1, best0, best1);
    reveal(tree_ok);
    let len = m.len() as int; let nw = (d1[p].0, p as u32);
    assert forall|q: int, col: int| 0 <= q < len && #[trigger] en(m, k, evs, e + 1, q) && m[q].1 + k <= col < n implies pair_le((d1[q].0, q as u32), #[trigger] pf1(col)) by {
        if q != p { assert(en(m, k, evs, e, q)); assert(pair_le((d0[q].0, q as u32), pf0(col))); }
    }
    assert forall|col: int| 0 <= col < n implies (#[trigger] pf1(col)) == (0u32, 0u32) || ((pf1(col).1 as int) < len && en(m, k, evs, e + 1, pf1(col).1 as int) && m[pf1(col).1 as int].1 + k <= col && pf1(col).0 == d1[pf1(col).1 as int].0) by {
        let v0 = pf0(col);
        if pf1(col) == v0 { if v0 != (0u32, 0u32) { let b = v0.1 as int; assert(en(m, k, evs, e, b)); assert(b != p); assert(en(m, k, evs, e + 1, b)); } }
        else { assert(pf1(col) == nw && col >= m[p].1 + k); assert(en(m, k, evs, e + 1, p)); }
    }
}
proof fn lemma_end_best(m: Seq<Pair>, k: int, evs: Seq<(u32, u32, u32)>, e: int, p: int, d0: Seq<(u32, i32)>, d1: Seq<(u32, i32)>, n: int, pf0: spec_fn(int) -> Pair, pf1: spec_fn(int) -> Pair, best0: (u32, i32), best1: (u32, i32))
    requires events_ok(m, k, evs), 0 <= e < evs.len(), 0 <= p < m.len(), evs[e] == end_ev(m, p, k), 1 <= k, m.len() < 0x4000_0000, d0.len() == 2 * m.len(),
        forall|i: int| 0 <= i < m.len() ==> (#[trigger] m[i]).0 + k < 0xffff_fff0 && m[i].1 + k < 0xffff_fff0,
        forall|i: int| 0 <= i < m.len() ==> (#[trigger] m[i]).0 + k <= n && m[i].1 + k <= n,
        sweep_ok(m, k, evs, e, d0), tree_ok(m, k, evs, e, d0, n, pf0), best_ok(m, k, evs, e, d0, best0),
        exists|cc: int| end_did(m, p, d0, d1, best0, best1, cc),
        forall|col: int| 0 <= col < n ==> #[trigger] pf1(col) == (if col >= m[p].1 + k { pmax(pf0(col), (d1[p].0, p as u32)) } else { pf0(col) }),
    ensures best_ok(m, k, evs, e + 1, d1, best1)
{
    lemma_end_facts(m, k, evs, e, p, d0, d1, n, pf0, pf1, best0, best1);
    reveal(best_ok);
    let cc = end_cc(m, p, d0, d1, best0, best1); let len = m.len() as int;
    assert forall|p2: int| 0 <= p2 < len && st(m, evs, e + 1, p2) implies (#[trigger] d1[p2]).0 <= best1.0 by {
        assert(st(m, evs, e, p2));
        assert(d0[p2].0 <= best0.0);
    }
    if best1 != (k as u32, 0i32) {
        if best1 == best0 { assert(st(m, evs, e + 1, best0.1 as int)); if best0.1 as int == p { assert(tle((d1[p].0, p as i32), best0)); } }
        else { assert(cc >= 0 && best1 == (d1[p].0, p as i32)); assert(st(m, evs, e + 1, p)); }
    }
}
/// effect of the end event of match p
proof fn lemma_end_step(m: Seq<Pair>, k: int, evs: Seq<(u32, u32, u32)>, e: int, p: int, d0: Seq<(u32, i32)>, d1: Seq<(u32, i32)>, n: int, pf0: spec_fn(int) -> Pair, pf1: spec_fn(int) -> Pair, best0: (u32, i32), best1: (u32, i32))
    requires events_ok(m, k, evs), 0 <= e < evs.len(), 0 <= p < m.len(), evs[e] == end_ev(m, p, k), 1 <= k, m.len() < 0x4000_0000, d0.len() == 2 * m.len(),
        forall|i: int| 0 <= i < m.len() ==> (#[trigger] m[i]).0 + k < 0xffff_fff0 && m[i].1 + k < 0xffff_fff0,
        forall|i: int| 0 <= i < m.len() ==> (#[trigger] m[i]).0 + k <= n && m[i].1 + k <= n,
        sweep_ok(m, k, evs, e, d0), tree_ok(m, k, evs, e, d0, n, pf0), best_ok(m, k, evs, e, d0, best0),
        exists|cc: int| end_did(m, p, d0, d1, best0, best1, cc),
        forall|col: int| 0 <= col < n ==> #[trigger] pf1(col) == (if col >= m[p].1 + k { pmax(pf0(col), (d1[p].0, p as u32)) } else { pf0(col) }),
    ensures sweep_ok(m, k, evs, e + 1, d1), tree_ok(m, k, evs, e + 1, d1, n, pf1), best_ok(m, k, evs, e + 1, d1, best1),
{
    lemma_end_sweep(m, k, evs, e, p, d0, d1, n, pf0, pf1, best0, best1);
    lemma_end_tree(m, k, evs, e, p, d0, d1, n, pf0, pf1, best0, best1);
    lemma_end_best(m, k, evs, e, p, d0, d1, n, pf0, pf1, best0, best1);
}
pub fn lcskpp(matches: &[(u32, u32)], k: usize) -> (res: SparseAlignmentResult)
    requires 1 <= k < 0x1_0000_0000, matches@.len() < 0x4000_0000,
        forall|i: int| 1 <= i < matches@.len() ==> pair_lt(matches@[i - 1], #[trigger] matches@[i]),
        forall|i: int| 0 <= i < matches@.len() ==> (#[trigger] matches@[i]).0 + k < 0xffff_fff0 && matches@[i].1 + k < 0xffff_fff0,
    ensures matches@.len() == 0 ==> res.path@.len() == 0,
        matches@.len() >= 1 ==> chain_ok(matches@, res.path@, k as int),
        // the reported score is the LCSk++ score of the returned chain, and no valid chain of matches scores more
        matches@.len() >= 1 ==> res.score == score(matches@, res.path@, k as int),
        forall|path: Seq<usize>| #[trigger] chain_ok(matches@, path, k as int) ==> score(matches@, path, k as int) <= res.score,
{
    if matches.is_empty() {
        return SparseAlignmentResult {
            path: Vec::new(),
            score: 0,
            dp_vector: Vec::new(),
        };
    }

    let k = k as u32;

    // incoming matches must be sorted to let us find the predecessor kmers by binary search.
    for i in 1..matches.len()
        invariant forall|i: int| 1 <= i < matches@.len() ==> pair_lt(matches@[i - 1], #[trigger] matches@[i]),
    {
        assert!(matches[i - 1] < matches[i]);
    }

    let mut events: Vec<(u32, u32, u32)> = Vec::new();
    let mut n: u32 = 0;
    let ghost m = matches@; let ghost len = matches@.len() as int; let ghost kk = k as int;
    for idx in 0..matches.len()
        invariant m == matches@, len == m.len(), 1 <= len < 0x4000_0000, kk == k, 1 <= kk,
            forall|i: int| 0 <= i < len ==> (#[trigger] m[i]).0 + kk < 0xffff_fff0 && m[i].1 + kk < 0xffff_fff0,
            events@.len() == 2 * idx,
            forall|p: int| 0 <= p < idx ==> events@[2 * p] == #[trigger] start_ev(m, p) && events@[2 * p + 1] == end_ev(m, p, kk),
            n < 0xffff_fff0,
            forall|p: int| 0 <= p < idx ==> (#[trigger] m[p]).0 + kk <= n && m[p].1 + kk <= n,
    { let (x, y) = matches[idx];
        let ghost evb = events@;
        events.push((x, y, (idx + matches.len()) as u32));
        events.push((x + k, y + k, idx as u32));

        n = max(n, x + k);
        n = max(n, y + k);
        proof {
            assert(events@[2 * idx as int] == start_ev(m, idx as int));
            assert(events@[2 * idx as int + 1] == end_ev(m, idx as int, kk));
            assert forall|p: int| 0 <= p < idx + 1 implies events@[2 * p] == #[trigger] start_ev(m, p) && events@[2 * p + 1] == end_ev(m, p, kk) by {
                if p < idx { assert(events@[2 * p] == evb[2 * p]); assert(events@[2 * p + 1] == evb[2 * p + 1]); }
            }
        }
    }
    let ghost ev0 = events@;
    events.sort_unstable();
    let ghost evs = events@;
    proof {
        lemma_events(m, kk, ev0, evs);
    }
    let mut max_col_dp: MaxBitTree<(u32, u32)> = MaxBitTree::new(n as usize);
    let mut dp: Vec<(u32, i32)> = Vec::with_capacity(events.len());
    let mut best_dp: (u32, i32) = (k, 0);

    dp.resize(events.len(), (0, 0));
    proof {
        lemma_maxop_laws();
        assert forall|col: int| 0 <= col < n implies #[trigger] max_col_dp.prefix(col) == (0u32, 0u32) by { max_col_dp.lemma_fresh_prefix(col); }
        lemma_sweep_init(m, kk, evs, dp@, n as int, pfn(max_col_dp));
    }

    for __e in 0..events.len()
        invariant m == matches@, len == m.len(), 1 <= len < 0x4000_0000, kk == k, 1 <= kk, evs == events@, evs.len() == 2 * len,
            forall|i: int| 0 <= i < len ==> (#[trigger] m[i]).0 + kk < 0xffff_fff0 && m[i].1 + kk < 0xffff_fff0,
            forall|i: int| 1 <= i < len ==> pair_lt(m[i - 1], #[trigger] m[i]),
            forall|p: int| 0 <= p < len ==> (#[trigger] m[p]).0 + kk <= n && m[p].1 + kk <= n,
            events_ok(m, kk, evs), laws::<Pair, MaxOp>(),
            dp@.len() == 2 * len, max_col_dp.wf(), max_col_dp.cap() == n,
            sweep_ok(m, kk, evs, __e as int, dp@),
            tree_ok(m, kk, evs, __e as int, dp@, n as int, pfn(max_col_dp)),
            best_ok(m, kk, evs, __e as int, dp@, best_dp),
    { let ev = events[__e];
        let ghost e = __e as int;
        assert(ev == evs[e]);
        assert(has_owner(m, kk, evs[e]));
        let ghost p0 = choose|p0: int| 0 <= p0 < len && is_ev_of(m, kk, evs[e], p0);
        let p = (ev.2 % matches.len() as u32) as usize;
        let j = ev.1;
        let is_start = ev.2 >= (matches.len() as u32);
        proof {
            assert(0 <= p0 < len && (ev == start_ev(m, p0) || ev == end_ev(m, p0, kk)));
            assert((p0 + len) % len == p0) by (nonlinear_arith) requires 0 <= p0 < len;
            assert(p0 % len == p0) by (nonlinear_arith) requires 0 <= p0 < len;
            assert(p == p0);
            assert(is_start <==> ev == start_ev(m, p0));
        }
        let ghost dp0 = dp@; let ghost best0 = best_dp; let ghost pf0 = pfn(max_col_dp);
        if is_start {
            proof { lemma_start_pre(m, kk, evs, e, p as int, dp0, n as int, pf0); }
            dp[p] = (k, -1);
            let (best_value, best_position) = max_col_dp.get(j as usize);
            proof { assert((best_value, best_position) == pf0(j as int)); }
            if best_value > 0 {
                dp[p] = (k + best_value, best_position as i32);
                best_dp = max(best_dp, (dp[p].0, p as i32));
            }
            proof { lemma_start_step(m, kk, evs, e, p as int, dp0, dp@, n as int, pf0, best0, best_dp); }
        } else {
            proof { lemma_end_pre(m, kk, evs, e, p as int, dp0, p as int); }
            let ghost mut cc: int = -1;
            // See if this kmer continues a different kmer
            if ev.0 > k && ev.1 > k {
                proof { lemma_sorted_cmp(m); }
                if let Ok(cont_idx) = matches.binary_search(&(ev.0 - k - 1, ev.1 - k - 1)) {
                    proof {
                        let c = cont_idx as int;
                        assert(m[c] == ((ev.0 - k - 1) as u32, (ev.1 - k - 1) as u32));
                        lemma_end_pre(m, kk, evs, e, p as int, dp0, c);
                        assert forall|c2: int| 0 <= c2 < len && #[trigger] dg(m, c2, p as int) implies c2 == c by {
                            if c2 < c { lemma_sorted(m, c2, c); } else if c2 > c { lemma_sorted(m, c, c2); }
                        }
                    }
                    let prev_score = dp[cont_idx].0;
                    let candidate = (prev_score + 1, cont_idx as i32);
                    dp[p] = max(dp[p], candidate);
                    best_dp = max(best_dp, (dp[p].0, p as i32));
                    proof { cc = cont_idx as int; assert(dg(m, cc, p as int)); assert(end_did(m, p as int, dp0, dp@, best0, best_dp, cc)); }
                }
                proof {
                    if cc == -1 {
                        // the search failed: no match sits on the diagonal right before p
                        assert forall|c2: int| 0 <= c2 < len implies !#[trigger] dg(m, c2, p as int) by { assert(vstd::std_specs::cmp::OrdSpec::cmp_spec(&m[c2], &((ev.0 - k - 1) as u32, (ev.1 - k - 1) as u32)) != core::cmp::Ordering::Equal); }
                        assert(end_did(m, p as int, dp0, dp@, best0, best_dp, -1));
                    }
                }
            }
            proof {
                if !(ev.0 > k && ev.1 > k) {
                    assert forall|c2: int| 0 <= c2 < len implies !#[trigger] dg(m, c2, p as int) by { }
                    assert(end_did(m, p as int, dp0, dp@, best0, best_dp, -1));
                }
            }
            let ghost dp1 = dp@; let ghost best1 = best_dp;
            proof { assert(end_did(m, p as int, dp0, dp1, best0, best1, cc)); }
            max_col_dp.set(ev.1 as usize, (dp[p].0, p as u32));
            proof {
                let pf1 = pfn(max_col_dp);
                assert forall|col: int| 0 <= col < n implies #[trigger] pf1(col) == (if col >= ev.1 { pmax(pf0(col), (dp1[p as int].0, p as u32)) } else { pf0(col) }) by { }
                lemma_end_step(m, kk, evs, e, p as int, dp0, dp1, n as int, pf0, pf1, best0, best1);
            }
        }
    }
    proof {
        lemma_sweep_done(m, kk, evs, dp@, best_dp);
        assert forall|path: Seq<usize>| #[trigger] chain_ok(m, path, kk) implies score(m, path, kk) <= best_dp.0 by {
            lemma_chain_bound(m, kk, dp@, path);
        }
    }
    let mut traceback: Vec<usize> = Vec::new();
    let (best_score, mut prev_match) = best_dp;
    while prev_match >= 0
        invariant m == matches@, len == m.len(), dp@.len() == 2 * len, -1 <= prev_match < len,
            forall|p: int| 0 <= p < len ==> dp_ok(m, kk, p, #[trigger] dp@[p]),
            forall|i: int| 0 <= i < traceback@.len() ==> (#[trigger] traceback@[i]) < len,
            forall|i: int| 1 <= i < traceback@.len() ==> good_link(m[traceback@[i] as int], #[trigger] m[traceback@[i - 1] as int], kk),
            forall|i: int| 1 <= i < traceback@.len() ==> dp@[#[trigger] traceback@[i - 1] as int].1 == traceback@[i],
            traceback@.len() > 0 ==> dp@[traceback@[traceback@.len() - 1] as int].1 == prev_match && traceback@[0] == best_dp.1,
            traceback@.len() == 0 ==> prev_match >= 0 && prev_match == best_dp.1,
        decreases (if prev_match >= 0 { m[prev_match as int].0 + 1 } else { 0 })
    {
        traceback.push(prev_match as usize);
        prev_match = dp[prev_match as usize].1;
    }
    let ghost tb = traceback@;
    traceback.reverse();
    proof {
        let r = traceback@;
        assert(r.len() == tb.len());
        assert forall|i: int| 0 <= i < r.len() implies (#[trigger] r[i]) < m.len() by { assert(r[i] == tb[tb.len() - 1 - i]); }
        assert forall|i: int| 1 <= i < r.len() implies good_link(m[r[i - 1] as int], #[trigger] m[r[i] as int], kk) by {
            assert(r[i] == tb[tb.len() - 1 - i]); assert(r[i - 1] == tb[tb.len() - i]);
            assert(good_link(m[tb[tb.len() - i] as int], m[tb[tb.len() - i - 1] as int], kk));
        }
        assert forall|j: int| 1 <= j < r.len() implies dp@[#[trigger] r[j] as int].1 == r[j - 1] by {
            assert(r[j] == tb[tb.len() - 1 - j]); assert(r[j - 1] == tb[tb.len() - j]);
            assert(dp@[tb[(tb.len() - j) - 1] as int].1 == tb[tb.len() - j]);
        }
        assert(r[0] == tb[tb.len() - 1]); assert(r[r.len() - 1] == tb[0]);
        lemma_trace_score(m, kk, dp@, r, r.len() - 1);
        assert(r.subrange(0, r.len() as int) =~= r);
    }
    SparseAlignmentResult {
        path: traceback,
        score: best_score,
        dp_vector: dp,
    }
}
}
fn main(){}

import sys, re
sys.path.insert(0, '/verif/tool')
import locate, linemark
from lex import render
REPO = '/repo/src/alignment/sparse.rs'
spike = open('/tmp/k/km4.rs').read()
def fn_text(sig):
    a = spike.index(sig)
    a = spike.rfind('\n', 0, a) + 1
    while True:
        p = spike.rfind('\n', 0, a - 1) + 1
        if spike[p:a].startswith('// Find all') or spike[p:a].startswith('// already'): a = p
        else: break
    b = spike.index('\n}\n', a) + 3
    return a, b, spike[a:b]
def region(txt, path, edits):
    for (old, new) in edits:
        assert txt.count(old) == 1, (old[:70], txt.count(old))
        txt = txt.replace(old, new)
    repo = render(locate.locate(open(REPO).read(), path))
    body = linemark.mark2(txt.rstrip('\n'), repo)
    return '//@extract src/alignment/sparse.rs :: %s\n%s\n//@end\n' % (path, body)
jobs = []
a, b, t = fn_text('pub fn hash_kmers(')
jobs.append((a, b, region(t, 'fn hash_kmers', [
 ('pub fn hash_kmers(seq: &[u8], k: usize) -> (r: HashMapFx<&[u8], Vec<u32>>)', 'pub fn hash_kmers(seq: &[u8], k: usize) -> /*@+(r:@*/ HashMapFx<&[u8], Vec<u32>>/*@+)@*/'),
 ('        set.push_to(&slc[i..i + k], i as u32);\n', '//@rw R50\n//@<        set.entry(&slc[i..i + k]).or_default().push(i as u32);\n        set.push_to(&slc[i..i + k], i as u32);\n//@>\n'),
])))
for nm in ['seq1', 'seq2']:
    a, b, t = fn_text('pub fn find_kmer_matches_%s_hashed(' % nm)
    jobs.append((a, b, region(t, 'fn find_kmer_matches_%s_hashed' % nm, [
     (') -> (res: Vec<(u32, u32)>)', ') -> /*@+(res:@*/ Vec<(u32, u32)>/*@+)@*/'),
     ('            for pos1 in it: matches1.iter()\n', '//@rw R51\n//@<            for pos1 in matches1 {\n            for pos1 in /*@+it:@*/ matches1.iter()\n//@g+\n'),
     ('            {\n                matches.push((', '//@g-\n            {\n//@>\n                matches.push(('),
    ])))
a, b, t = fn_text('pub fn find_kmer_matches(seq1: &[u8], seq2: &[u8], k: usize)')
jobs.append((a, b, region(t, 'fn find_kmer_matches', [('pub fn find_kmer_matches(seq1: &[u8], seq2: &[u8], k: usize) -> (res: Vec<(u32, u32)>)', 'pub fn find_kmer_matches(seq1: &[u8], seq2: &[u8], k: usize) -> /*@+(res:@*/ Vec<(u32, u32)>/*@+)@*/')])))
jobs.sort()
out = []; pos = 0
for (a, b, new) in jobs:
    out.append(spike[pos:a]); out.append(new); pos = b
out.append(spike[pos:])
res = ''.join(out)
hdr = '''//@unit C19/kmers
//@rlimit 100
// k-mer matching (sparse.rs): hash_kmers, find_kmer_matches and its two prehashed variants return exactly the sorted set of position pairs
// with equal k-mers.  The hash map is a stub (a finite map from byte strings to position lists); the entry API call
// `entry(k).or_default().push(v)` is rule R50 (stub method push_to).
'''
res = res.replace('use vstd::prelude::*;\n', hdr + 'use vstd::prelude::*;\n', 1).replace('verus!{', 'verus! {', 1)
res = res.rstrip()
assert res.endswith('fn main(){}')
res = res[:-len('fn main(){}')].rstrip()[:-1].rstrip() + '\n} // verus!\nfn main() {}\n'
open('/verif/contracts/C19/kmers.vrs', 'w').write(res)
print('ok')

import sys, re
sys.path.insert(0, '/verif/tool')
import locate, linemark
from lex import render, lex, texts
spike = open('/tmp/k/lk16.rs').read()
REPO_S = '/repo/src/alignment/sparse.rs'; REPO_B = '/repo/src/data_structures/bit_tree.rs'
jobs = []
def spike_item(path):
    tk, s0, s1 = locate.locate_span(spike, path)
    a = spike.rfind('\n', 0, s0) + 1
    b = spike.find('\n', s1)
    return a, b, spike[a:b]
def repo_item(f, path, subst=None):
    toks = locate.locate(open(f).read(), path)
    if subst:
        import mirror
        toks = mirror.apply_subst(toks, subst)
    return render(toks)
def do(f, repo_path, spike_path, edits, subst=None):
    a, b, txt = spike_item(spike_path)
    for (old, new) in edits:
        assert txt.count(old) == 1, (spike_path, old[:60], txt.count(old))
        txt = txt.replace(old, new)
    body = linemark.mark2(txt, repo_item(f, repo_path, subst))
    rel = f[len('/repo/'):]
    sub = ('\n//@subst ' + ','.join('%s=%s' % kv for kv in subst.items())) if subst else ''
    jobs.append((a, b, '//@extract %s :: %s%s\n%s\n//@end' % (rel, repo_path, sub, body)))
FH = 'impl<T: Ord + Default + Copy, Op: PrefixOp<T>> FenwickTree<T, Op> :: '
SUB = {'T': 'Pair'}
do(REPO_B, 'trait PrefixOp', 'trait PrefixOp', [('    fn operation(t1: T, t2: T) -> (r: T)', '    fn operation(t1: T, t2: T) -> /*@+(r:@*/ T/*@+)@*/')])
do(REPO_B, 'struct FenwickTree', 'struct FenwickTree', [])
do(REPO_B, FH + 'fn new', 'impl<Op: PrefixOp<Pair>> FenwickTree<Pair, Op> :: fn new', [
 ('    pub fn new(len: usize) -> (r: FenwickTree<Pair, Op>)', '    pub fn new(len: usize) -> /*@+(r:@*/ FenwickTree<Pair, Op>/*@+)@*/'),
 ('''            tree: { let mut __v = Vec::new(); let __x = Pair::default(); let __n = len + 1; for __i in 0..__n
                invariant __v@.len() == __i, __x == (0u32, 0u32), forall|j: int| 0 <= j < __i ==> __v@[j] == (0u32, 0u32),
              { __v.push(__x); } __v },''', '''//@rw RVEC
//@<            tree: vec![Pair::default(); len + 1],
            tree: { let mut __v = Vec::new(); let __x = Pair::default(); let __n = len + 1; for __i in 0..__n
//@g+
                invariant __v@.len() == __i, __x == (0u32, 0u32), forall|j: int| 0 <= j < __i ==> __v@[j] == (0u32, 0u32),
//@g-
              { __v.push(__x); } __v },
//@>'''),
], SUB)
do(REPO_B, FH + 'fn get', 'impl<Op: PrefixOp<Pair>> FenwickTree<Pair, Op> :: fn get', [('    pub fn get(&self, idx: usize) -> (r: Pair)', '    pub fn get(&self, idx: usize) -> /*@+(r:@*/ Pair/*@+)@*/')], SUB)
do(REPO_B, FH + 'fn set', 'impl<Op: PrefixOp<Pair>> FenwickTree<Pair, Op> :: fn set', [], SUB)
do(REPO_B, 'impl<T: Copy + Ord> PrefixOp<T> for MaxOp :: fn operation', 'impl PrefixOp<Pair> for MaxOp :: fn operation', [('    fn operation(t1: Pair, t2: Pair) -> (r: Pair)', '    fn operation(t1: Pair, t2: Pair) -> /*@+(r:@*/ Pair/*@+)@*/')], SUB)
do(REPO_B, 'type MaxBitTree', 'type MaxBitTree', [])
do(REPO_S, 'struct SparseAlignmentResult', 'struct SparseAlignmentResult', [])
do(REPO_S, 'fn lcskpp', 'fn lcskpp', [
 ('pub fn lcskpp(matches: &[(u32, u32)], k: usize) -> (res: SparseAlignmentResult)', 'pub fn lcskpp(matches: &[(u32, u32)], k: usize) -> /*@+(res:@*/ SparseAlignmentResult/*@+)@*/'),
 ('        assert!(matches[i - 1] < matches[i]);', '//@rw R18a\n//@<        assert!(\n//@<            matches[i - 1] < matches[i],\n//@<            "incoming matches must be sorted."\n//@<        );\n        assert!(matches[i - 1] < matches[i]);\n//@>'),
 ('    let mut n: u32 = 0;', '//@rw RTY u32\n//@<    let mut n = 0;\n    let mut n: u32 = 0;\n//@>'),
 ('    for idx in 0..matches.len()\n        invariant m == matches@', '//@rw R1\n//@<    for (idx, &(x, y)) in matches.iter().enumerate() {\n    for idx in 0..matches.len()\n//@g+\n        invariant m == matches@'),
 ('            forall|p: int| 0 <= p < idx ==> (#[trigger] m[p]).0 + kk <= n && m[p].1 + kk <= n,\n    { let (x, y) = matches[idx];', '            forall|p: int| 0 <= p < idx ==> (#[trigger] m[p]).0 + kk <= n && m[p].1 + kk <= n,\n//@g-\n    { let (x, y) = matches[idx];\n//@>'),
 ('    let mut best_dp: (u32, i32) = (k, 0);', '//@rw RTY (u32, i32)\n//@<    let mut best_dp = (k, 0);\n    let mut best_dp: (u32, i32) = (k, 0);\n//@>'),
 ('    for __e in 0..events.len()\n        invariant m == matches@', '//@rw R31\n//@<    for ev in events {\n    for __e in 0..events.len()\n//@g+\n        invariant m == matches@'),
 ('            best_ok(m, kk, evs, __e as int, dp@, best_dp),\n    { let ev = events[__e];', '            best_ok(m, kk, evs, __e as int, dp@, best_dp),\n//@g-\n    { let ev = events[__e];\n//@>'),
 ('    let mut traceback: Vec<usize> = Vec::new();', '//@rw RTY Vec<usize>\n//@<    let mut traceback = Vec::new();\n    let mut traceback: Vec<usize> = Vec::new();\n//@>'),
])
jobs.sort()
out = []; pos = 0
for (a, b, new) in jobs:
    out.append(spike[pos:a]); out.append(new); pos = b
out.append(spike[pos:])
res = ''.join(out)
res = res.replace('use vstd::prelude::*;', '//@unit C19/lcskpp\n//@rlimit 100\nuse vstd::prelude::*;', 1).replace('verus!{', 'verus! {', 1)
res = res.rstrip()
if res.endswith('fn main(){}'): pass
res = res.rstrip()
res = res[:-len('fn main(){}')].rstrip()[:-1].rstrip() + '\n} // verus!\nfn main() {}\n'
open('/verif/contracts/C19/lcskpp.vrs', 'w').write(res)
print('ok')

use vstd::prelude::*;
use vstd::std_specs::cmp::*;
use vstd::multiset::Multiset;
use std::cmp;
use std::mem;
use std::ops::{Deref, Range};
verus! {

// ---- trusted std specs ----
pub assume_specification [i64::abs] (x: i64) -> (r: i64)
    requires x != i64::MIN,
    ensures r == if x < 0 { -x } else { x as int };
pub assume_specification<T, U, F: FnOnce(T) -> U> [Option::<T>::map_or] (o: Option<T>, default: U, f: F) -> (r: U)
    requires o is Some ==> f.requires((o->0,)),
    ensures o is None ==> r == default, o is Some ==> f.ensures((o->0,), r);
pub assume_specification<T: Ord> [cmp::max::<T>] (a: T, b: T) -> (r: T)
    ensures T::obeys_cmp_spec() ==> r == (if a.cmp_spec(&b) == core::cmp::Ordering::Greater { a } else { b });

// ---- utils::Interval (real text) ----
pub struct Interval<N: Ord + Clone>(Range<N>);
impl<N: Ord + Clone> Interval<N> {
    pub closed spec fn range(&self) -> Range<N> { self.0 }
}
impl<N: Ord + Clone> Deref for Interval<N> {
    type Target = Range<N>;
    fn deref(&self) -> (r: &Self::Target)
        ensures *r == self.range()
    {
        &self.0
    }
}

struct Node<N: Ord + Clone, D> {
    // actual interval data
    interval: Interval<N>,
    value: D,
    // tree metadata
    max: N,
    height: i64,
    left: Option<Box<Node<N, D>>>,
    right: Option<Box<Node<N, D>>>,
}

pub open spec fn le<N: Ord>(a: N, b: N) -> bool { a.partial_cmp_spec(&b) == Some(core::cmp::Ordering::Less) || a.partial_cmp_spec(&b) == Some(core::cmp::Ordering::Equal) }
pub open spec fn lt<N: Ord>(a: N, b: N) -> bool { a.partial_cmp_spec(&b) == Some(core::cmp::Ordering::Less) }

impl<N: Ord + Clone, D> Node<N, D> {
    spec fn opt_h(o: Option<Box<Node<N, D>>>) -> int { match o { Some(n) => n.height as int, None => 0 } }
    spec fn entries(&self) -> Multiset<(N, N, D)> decreases self {
        (match self.left { Some(l) => l.entries(), None => Multiset::empty() })
            .insert((self.interval.range().start, self.interval.range().end, self.value))
            .add(match self.right { Some(r) => r.entries(), None => Multiset::empty() })
    }
    spec fn opt_entries(o: Option<Box<Node<N, D>>>) -> Multiset<(N, N, D)> { match o { Some(n) => n.entries(), None => Multiset::empty() } }
    /// shape invariant: heights consistent and balanced
    spec fn balanced(&self) -> bool decreases self {
        &&& (match self.left { Some(l) => l.balanced(), None => true })
        &&& (match self.right { Some(r) => r.balanced(), None => true })
        &&& self.height == 1 + (if Self::opt_h(self.left) >= Self::opt_h(self.right) { Self::opt_h(self.left) } else { Self::opt_h(self.right) })
        &&& -1 <= Self::opt_h(self.left) - Self::opt_h(self.right) <= 1
        &&& 1 <= self.height < 0x7fff_ffff
    }

    fn update_height(&mut self)
        requires Self::opt_h(old(self).left) < 0x7fff_ffff_ffff_fff0, Self::opt_h(old(self).right) < 0x7fff_ffff_ffff_fff0,
            0 <= Self::opt_h(old(self).left), 0 <= Self::opt_h(old(self).right),
        ensures final(self).left == old(self).left, final(self).right == old(self).right, final(self).interval == old(self).interval,
            final(self).value == old(self).value, final(self).max == old(self).max,
            final(self).height == 1 + (if Self::opt_h(old(self).left) >= Self::opt_h(old(self).right) { Self::opt_h(old(self).left) } else { Self::opt_h(old(self).right) }),
    {
        let left_h = match self.left.as_ref() { Some(n) => n.height, None => 0 };
        let right_h = match self.right.as_ref() { Some(n) => n.height, None => 0 };
        self.height = 1 + cmp::max(left_h, right_h);
    }

    spec fn ends_le(m: Multiset<(N, N, D)>, max: N) -> bool { forall|e: (N, N, D)| m.count(e) > 0 ==> le(e.1, max) }
    spec fn starts_le(m: Multiset<(N, N, D)>, s: N) -> bool { forall|e: (N, N, D)| m.count(e) > 0 ==> le(e.0, s) }
    spec fn starts_gt(m: Multiset<(N, N, D)>, s: N) -> bool { forall|e: (N, N, D)| m.count(e) > 0 ==> le(s, e.0) }
    /// ordering + max-end augmentation
    spec fn ordered(&self) -> bool decreases self {
        &&& (match self.left { Some(l) => l.ordered(), None => true })
        &&& (match self.right { Some(r) => r.ordered(), None => true })
        &&& Self::starts_le(Self::opt_entries(self.left), self.interval.range().start)
        &&& Self::starts_gt(Self::opt_entries(self.right), self.interval.range().start)
        &&& Self::ends_le(self.entries(), self.max)
    }
    spec fn clone_faithful() -> bool { forall|a: N, b: N| cloned(a, b) ==> a == b }
    spec fn total_order() -> bool {
        &&& N::obeys_cmp_spec() && N::obeys_partial_cmp_spec()
        &&& forall|a: N, b: N, c: N| le(a, b) && le(b, c) ==> le(a, c)
        &&& forall|a: N, b: N| le(a, b) || le(b, a)
        &&& forall|a: N| le(a, a)
        &&& forall|a: N, b: N| lt(a, b) <==> !le(b, a)
        &&& forall|a: N, b: N| (#[trigger] a.partial_cmp_spec(&b) == Some(core::cmp::Ordering::Greater)) <==> lt(b, a)
    }

    fn update_max(&mut self)
        requires Self::clone_faithful(), Self::total_order(),
            match old(self).left { Some(l) => Self::ends_le(l.entries(), l.max), None => true },
            match old(self).right { Some(r) => Self::ends_le(r.entries(), r.max), None => true },
        ensures final(self).left == old(self).left, final(self).right == old(self).right, final(self).interval == old(self).interval,
            final(self).value == old(self).value, final(self).height == old(self).height,
            Self::ends_le(final(self).entries(), final(self).max),
    {
        self.max = self.interval.end.clone();
        assert(cloned(self.interval.range().end, self.max));
        let ghost m0 = self.max;
        assert(m0 == self.interval.range().end);
        if let Some(ref n) = self.left {
            if self.max < n.max {
                self.max = n.max.clone();
                assert(cloned(n.max, self.max));
            }
        }
        let ghost m1 = self.max;
        assert(le(m0, m1) && (match self.left { Some(l) => le(l.max, m1), None => true }));
        if let Some(ref n) = self.right {
            if self.max < n.max {
                self.max = n.max.clone();
                assert(cloned(n.max, self.max));
            }
        }
        let ghost m2 = self.max;
        assert(le(m1, m2) && (match self.right { Some(r) => le(r.max, m2), None => true }));
        proof {
            let le_ = Self::opt_entries(self.left); let re_ = Self::opt_entries(self.right);
            let me = (self.interval.range().start, self.interval.range().end, self.value);
            assert(self.entries() == le_.insert(me).add(re_));
            assert forall|e: (N, N, D)| self.entries().count(e) > 0 implies le(e.1, m2) by {
                if le_.count(e) > 0 { let l = self.left->0; assert(le(e.1, l.max)); assert(le(l.max, m1)); }
                else if re_.count(e) > 0 { let r = self.right->0; assert(le(e.1, r.max)); }
                else { assert(e == me); }
            }
        }
    }

    spec fn hmax(a: int, b: int) -> int { if a >= b { a } else { b } }
    spec fn size(&self) -> nat decreases self {
        1 + (match self.left { Some(l) => l.size(), None => 0 }) + (match self.right { Some(r) => r.size(), None => 0 })
    }
    spec fn opt_size(o: Option<Box<Node<N, D>>>) -> nat { match o { Some(n) => n.size(), None => 0 } }
    spec fn opt_wf(o: Option<Box<Node<N, D>>>) -> bool { match o { Some(n) => n.wf(), None => true } }
    /// local conditions at this node, balance excluded
    spec fn node_ok(&self) -> bool {
        &&& self.height == 1 + Self::hmax(Self::opt_h(self.left), Self::opt_h(self.right))
        &&& Self::starts_le(Self::opt_entries(self.left), self.interval.range().start)
        &&& Self::starts_gt(Self::opt_entries(self.right), self.interval.range().start)
        &&& Self::ends_le(self.entries(), self.max)
        &&& 1 <= self.height <= self.size()
    }
    spec fn wf(&self) -> bool decreases self {
        &&& (match self.left { Some(l) => l.wf(), None => true })
        &&& (match self.right { Some(r) => r.wf(), None => true })
        &&& self.node_ok()
        &&& -1 <= Self::opt_h(self.left) - Self::opt_h(self.right) <= 1
    }
    proof fn lemma_h_nonneg(o: Option<Box<Node<N, D>>>)
        requires Self::opt_wf(o)
        ensures 0 <= Self::opt_h(o) <= Self::opt_size(o), (o is Some ==> Self::ends_le(o->0.entries(), o->0.max))
    {
    }

    fn rotate_left(&mut self)
        requires Self::clone_faithful(), Self::total_order(),
            old(self).right is Some, old(self).size() < 0x3fff_ffff_ffff_ffff,
            Self::opt_wf(old(self).left), Self::opt_wf(old(self).right->0.left), Self::opt_wf(old(self).right->0.right),
            Self::starts_le(Self::opt_entries(old(self).left), old(self).interval.range().start),
            Self::starts_gt(old(self).right->0.entries(), old(self).interval.range().start),
            Self::starts_le(Self::opt_entries(old(self).right->0.left), old(self).right->0.interval.range().start),
            Self::starts_gt(Self::opt_entries(old(self).right->0.right), old(self).right->0.interval.range().start),
        ensures
            final(self).entries() == old(self).entries(),
            final(self).left is Some,
            final(self).left->0.left == old(self).left,
            final(self).left->0.right == old(self).right->0.left,
            final(self).right == old(self).right->0.right,
            final(self).left->0.node_ok(),
            final(self).node_ok(), final(self).size() == old(self).size(),
    {
        proof { Self::lemma_h_nonneg(self.left); Self::lemma_h_nonneg(self.right->0.left); Self::lemma_h_nonneg(self.right->0.right); }
        let ghost x = (self.interval.range().start, self.interval.range().end, self.value);
        let ghost y = (self.right->0.interval.range().start, self.right->0.interval.range().end, self.right->0.value);
        let ghost ea = Self::opt_entries(self.left); let ghost eb = Self::opt_entries(self.right->0.left); let ghost ec = Self::opt_entries(self.right->0.right);
        assert(self.right->0.entries() == eb.insert(y).add(ec));
        let ghost sa = Self::opt_size(self.left); let ghost sb = Self::opt_size(self.right->0.left); let ghost sc = Self::opt_size(self.right->0.right);
        assert(self.right->0.size() == 1 + sb + sc);
        assert(self.size() == 1 + sa + (1 + sb + sc));
        let mut new_root = self.right.take().unwrap();
        let t1 = self.left.take();
        let t2 = new_root.left.take();
        let t3 = new_root.right.take();
        swap_interval_data(self, &mut *new_root);

        new_root.left = t1;
        new_root.right = t2;
        new_root.update_height();
        new_root.update_max();
        proof {
            assert(new_root.entries() == ea.insert(x).add(eb));
            assert(Self::starts_gt(eb, x.0)) by {
                assert forall|e: (N, N, D)| eb.count(e) > 0 implies le(x.0, e.0) by { assert(eb.insert(y).add(ec).count(e) > 0); }
            }
            assert(new_root.size() == 1 + sa + sb);
            assert(new_root.node_ok());
        }

        self.right = t3;
        self.left = Some(new_root);
        self.update_height();
        self.update_max();
        proof {
            assert(le(x.0, y.0)) by { assert(eb.insert(y).add(ec).count(y) > 0); }
            assert(Self::starts_le(ea.insert(x).add(eb), y.0)) by {
                assert forall|e: (N, N, D)| ea.insert(x).add(eb).count(e) > 0 implies le(e.0, y.0) by {
                    if ea.count(e) > 0 { assert(le(e.0, x.0)); }
                    else if eb.count(e) > 0 { }
                    else { assert(e == x); }
                }
            }
            assert(self.entries() == ea.insert(x).add(eb).insert(y).add(ec));
            assert(old(self).entries() == ea.insert(x).add(eb.insert(y).add(ec)));
            assert(self.entries() =~= old(self).entries());
            assert(self.size() == 1 + (1 + sa + sb) + sc);
        }
    }

    fn rotate_right(&mut self)
        requires Self::clone_faithful(), Self::total_order(),
            old(self).left is Some, old(self).size() < 0x3fff_ffff_ffff_ffff,
            Self::opt_wf(old(self).right), Self::opt_wf(old(self).left->0.left), Self::opt_wf(old(self).left->0.right),
            Self::starts_gt(Self::opt_entries(old(self).right), old(self).interval.range().start),
            Self::starts_le(old(self).left->0.entries(), old(self).interval.range().start),
            Self::starts_le(Self::opt_entries(old(self).left->0.left), old(self).left->0.interval.range().start),
            Self::starts_gt(Self::opt_entries(old(self).left->0.right), old(self).left->0.interval.range().start),
        ensures
            final(self).entries() == old(self).entries(),
            final(self).right is Some,
            final(self).left == old(self).left->0.left,
            final(self).right->0.left == old(self).left->0.right,
            final(self).right->0.right == old(self).right,
            final(self).right->0.node_ok(),
            final(self).node_ok(), final(self).size() == old(self).size(),
    {
        proof { Self::lemma_h_nonneg(self.right); Self::lemma_h_nonneg(self.left->0.left); Self::lemma_h_nonneg(self.left->0.right); }
        let ghost x = (self.interval.range().start, self.interval.range().end, self.value);
        let ghost y = (self.left->0.interval.range().start, self.left->0.interval.range().end, self.left->0.value);
        let ghost ea = Self::opt_entries(self.left->0.left); let ghost eb = Self::opt_entries(self.left->0.right); let ghost ec = Self::opt_entries(self.right);
        assert(self.left->0.entries() == ea.insert(y).add(eb));
        let ghost sa = Self::opt_size(self.left->0.left); let ghost sb = Self::opt_size(self.left->0.right); let ghost sc = Self::opt_size(self.right);
        assert(self.left->0.size() == 1 + sa + sb);
        assert(self.size() == 1 + (1 + sa + sb) + sc);
        let mut new_root = self.left.take().unwrap();
        let t1 = new_root.left.take();
        let t2 = new_root.right.take();
        let t3 = self.right.take();
        swap_interval_data(self, &mut *new_root);

        new_root.left = t2;
        new_root.right = t3;
        new_root.update_height();
        new_root.update_max();
        proof {
            assert(new_root.entries() == eb.insert(x).add(ec));
            assert(Self::starts_le(eb, x.0)) by {
                assert forall|e: (N, N, D)| eb.count(e) > 0 implies le(e.0, x.0) by { assert(ea.insert(y).add(eb).count(e) > 0); }
            }
            assert(new_root.size() == 1 + sb + sc);
            assert(new_root.node_ok());
        }

        self.left = t1;
        self.right = Some(new_root);
        self.update_height();
        self.update_max();
        proof {
            assert(le(y.0, x.0)) by { assert(ea.insert(y).add(eb).count(y) > 0); }
            assert(Self::starts_gt(eb.insert(x).add(ec), y.0)) by {
                assert forall|e: (N, N, D)| eb.insert(x).add(ec).count(e) > 0 implies le(y.0, e.0) by {
                    if ec.count(e) > 0 { assert(le(x.0, e.0)); }
                    else if eb.count(e) > 0 { }
                    else { assert(e == x); }
                }
            }
            assert(self.entries() == ea.insert(y).add(eb.insert(x).add(ec)));
            assert(old(self).entries() == ea.insert(y).add(eb).insert(x).add(ec));
            assert(self.entries() =~= old(self).entries());
            assert(self.size() == 1 + sa + (1 + sb + sc));
        }
    }


    fn new(interval: Interval<N>, data: D) -> (r: Self)
        requires Self::clone_faithful(), Self::total_order(),
        ensures r.wf(), r.entries() == Multiset::<(N, N, D)>::empty().insert((interval.range().start, interval.range().end, data)),
            r.size() == 1, r.height == 1,
    {
        let max = interval.end.clone();
        assert(cloned(interval.range().end, max));
        let r = Node {
            interval,
            max,
            height: 1,
            value: data,
            left: None,
            right: None,
        };
        proof {
            let me = (interval.range().start, interval.range().end, data);
            assert(r.entries() == Multiset::<(N, N, D)>::empty().insert(me).add(Multiset::empty()));
            assert(r.entries() =~= Multiset::<(N, N, D)>::empty().insert(me));
        }
        r
    }

    fn insert(&mut self, interval: Interval<N>, data: D)
        requires old(self).wf(), Self::clone_faithful(), Self::total_order(), old(self).size() < 0x3fff_ffff_ffff_fff0,
        ensures final(self).wf(),
            final(self).entries() == old(self).entries().insert((interval.range().start, interval.range().end, data)),
            final(self).size() == old(self).size() + 1,
            final(self).height == old(self).height || final(self).height == old(self).height + 1,
        decreases old(self).size()
    {
        let ghost e = (interval.range().start, interval.range().end, data);
        let ghost el = Self::opt_entries(self.left); let ghost er = Self::opt_entries(self.right);
        let ghost me = (self.interval.range().start, self.interval.range().end, self.value);
        proof { Self::lemma_h_nonneg(self.left); Self::lemma_h_nonneg(self.right); }
        if interval.start <= self.interval.start {
            if let Some(ref mut son) = self.left {
                son.insert(interval, data);
            } else {
                self.left = Some(Box::new(Node::new(interval, data)));
            }
            proof {
                assert(Self::opt_entries(self.left) =~= el.insert(e));
                assert(self.entries() =~= old(self).entries().insert(e));
            }
        } else if let Some(ref mut son) = self.right {
            son.insert(interval, data);
            proof {
                assert(Self::opt_entries(self.right) =~= er.insert(e));
                assert(self.entries() =~= old(self).entries().insert(e));
            }
        } else {
            self.right = Some(Box::new(Node::new(interval, data)));
            proof {
                assert(Self::opt_entries(self.right) =~= er.insert(e));
                assert(self.entries() =~= old(self).entries().insert(e));
            }
        }
        self.repair();
    }

    spec fn repair_pre(&self) -> bool {
        &&& Self::clone_faithful() && Self::total_order()
        &&& self.size() < 0x3fff_ffff_ffff_ffff
        &&& Self::opt_wf(self.left) && Self::opt_wf(self.right)
        &&& Self::starts_le(Self::opt_entries(self.left), self.interval.range().start)
        &&& Self::starts_gt(Self::opt_entries(self.right), self.interval.range().start)
        &&& -2 <= Self::opt_h(self.left) - Self::opt_h(self.right) <= 2
    }

    fn repair(&mut self)
        requires old(self).repair_pre(),
        ensures final(self).wf(), final(self).entries() == old(self).entries(), final(self).size() == old(self).size(),
            final(self).interval == old(self).interval || true,
            ({ let hl = Self::opt_h(old(self).left); let hr = Self::opt_h(old(self).right);
               if -1 <= hl - hr <= 1 { final(self).height == 1 + Self::hmax(hl, hr) }
               else { final(self).height == Self::hmax(hl, hr) || final(self).height == 1 + Self::hmax(hl, hr) } }),
    {
        proof { Self::lemma_h_nonneg(self.left); Self::lemma_h_nonneg(self.right); }
        let left_h = match self.left.as_ref() { Some(n) => n.height, None => 0 };
        let right_h = match self.right.as_ref() { Some(n) => n.height, None => 0 };
        // each case - update both height and max
        if (left_h - right_h).abs() <= 1 {
            self.update_height();
            self.update_max();
            proof { assert(self.size() == old(self).size()); assert(self.node_ok()); assert(self.wf()); }
        } else if right_h > left_h {
            let ghost hl = Self::opt_h(self.left); let ghost hr = Self::opt_h(self.right);
            let ghost r0 = self.right->0;
            proof {
                assert(hr == hl + 2);
                assert(r0.wf());
                assert(self.size() == 1 + Self::opt_size(self.left) + r0.size());
            }
            {
                let right = self
                    .right
                    .as_mut()
                    .expect("Invalid tree: leaf is taller than its sibling.");
                proof { assert(**right == *r0); assert(right.wf()); Self::lemma_h_nonneg(right.left); Self::lemma_h_nonneg(right.right); }
                let right_left_h = match right.left.as_ref() { Some(n) => n.height, None => 0 };
                let right_right_h = match right.right.as_ref() { Some(n) => n.height, None => 0 };
                if right_left_h > right_right_h {
                    proof {
                        let b = right.left->0;
                        assert(b.wf());
                        Self::lemma_h_nonneg(b.left); Self::lemma_h_nonneg(b.right);
                        assert(right.size() == 1 + b.size() + Self::opt_size(right.right));
                    }
                    right.rotate_right();
                    proof {
                        let n = right.right->0;
                        assert(n.wf());
                    }
                }
            }
            proof {
                let r1 = self.right->0;
                assert(r1.entries() == r0.entries());
                assert(r1.size() == r0.size());
                assert(Self::opt_wf(r1.left) && Self::opt_wf(r1.right));
                assert(r1.node_ok());
                assert(self.size() == 1 + Self::opt_size(self.left) + r1.size());
            }
            let ghost r1 = self.right->0;
            let ghost hb1 = Self::opt_h(r1.left); let ghost hrr = Self::opt_h(r1.right);
            self.rotate_left();
            proof {
                let nl = self.left->0;
                assert(nl.height == 1 + Self::hmax(hl, hb1));
                assert(-1 <= hl - hb1 <= 1);
                assert(nl.wf());
                assert(Self::opt_wf(self.right));
                assert(self.height == 1 + Self::hmax(nl.height as int, hrr));
                assert(-1 <= nl.height - hrr <= 1);
                assert(self.wf());
            }
        } else {
            let ghost hl = Self::opt_h(self.left); let ghost hr = Self::opt_h(self.right);
            let ghost l0 = self.left->0;
            proof {
                assert(hl == hr + 2);
                assert(l0.wf());
                assert(self.size() == 1 + l0.size() + Self::opt_size(self.right));
            }
            {
                let left = self
                    .left
                    .as_mut()
                    .expect("Invalid tree: leaf is taller than its sibling.");
                proof { assert(**left == *l0); assert(left.wf()); Self::lemma_h_nonneg(left.left); Self::lemma_h_nonneg(left.right); }
                let left_right_h = match left.right.as_ref() { Some(n) => n.height, None => 0 };
                let left_left_h = match left.left.as_ref() { Some(n) => n.height, None => 0 };
                if left_right_h > left_left_h {
                    proof {
                        let b = left.right->0;
                        assert(b.wf());
                        Self::lemma_h_nonneg(b.left); Self::lemma_h_nonneg(b.right);
                        assert(left.size() == 1 + Self::opt_size(left.left) + b.size());
                    }
                    left.rotate_left();
                    proof {
                        let n = left.left->0;
                        assert(n.wf());
                    }
                }
            }
            proof {
                let l1 = self.left->0;
                assert(l1.entries() == l0.entries());
                assert(l1.size() == l0.size());
                assert(Self::opt_wf(l1.left) && Self::opt_wf(l1.right));
                assert(l1.node_ok());
                assert(self.size() == 1 + l1.size() + Self::opt_size(self.right));
            }
            let ghost l1 = self.left->0;
            let ghost hb2 = Self::opt_h(l1.right); let ghost hll = Self::opt_h(l1.left);
            self.rotate_right();
            proof {
                let nr = self.right->0;
                assert(nr.height == 1 + Self::hmax(hb2, hr));
                assert(-1 <= hb2 - hr <= 1);
                assert(nr.wf());
                assert(Self::opt_wf(self.left));
                assert(self.height == 1 + Self::hmax(hll, nr.height as int));
                assert(-1 <= hll - nr.height <= 1);
                assert(self.wf());
            }
        }
    }
}

fn swap_interval_data<N: Ord + Clone, D>(node_1: &mut Node<N, D>, node_2: &mut Node<N, D>)
    ensures final(node_1).value == old(node_2).value, final(node_2).value == old(node_1).value,
        final(node_1).interval == old(node_2).interval, final(node_2).interval == old(node_1).interval,
        final(node_1).left == old(node_1).left, final(node_1).right == old(node_1).right, final(node_1).max == old(node_1).max, final(node_1).height == old(node_1).height,
        final(node_2).left == old(node_2).left, final(node_2).right == old(node_2).right, final(node_2).max == old(node_2).max, final(node_2).height == old(node_2).height,
{
    mem::swap(&mut node_1.value, &mut node_2.value);
    mem::swap(&mut node_1.interval, &mut node_2.interval);
}

// ------------------------------------------------------------------ iterator
pub open spec fn overlaps<N: Ord>(qs: N, qe: N, s: N, e: N) -> bool {
    lt(qs, qe) && lt(s, e) && lt(s, qe) && lt(qs, e)
}

pub struct Entry<'a, N: Ord + Clone, D> {
    data: &'a D,
    interval: &'a Interval<N>,
}

pub struct IntervalTreeIterator<'a, N: Ord + Clone, D> {
    nodes: Vec<&'a Node<N, D>>,
    interval: Interval<N>,
}

impl<N: Ord + Clone, D> Node<N, D> {
    spec fn ov(m: Multiset<(N, N, D)>, qs: N, qe: N) -> Multiset<(N, N, D)> {
        m.filter(|e: (N, N, D)| overlaps(qs, qe, e.0, e.1))
    }
    spec fn pending(nodes: Seq<&Node<N, D>>, qs: N, qe: N) -> Multiset<(N, N, D)> decreases nodes.len() {
        if nodes.len() == 0 { Multiset::empty() } else { Self::pending(nodes.drop_last(), qs, qe).add(Self::ov(nodes.last().entries(), qs, qe)) }
    }
    spec fn total(nodes: Seq<&Node<N, D>>) -> nat decreases nodes.len() {
        if nodes.len() == 0 { 0 } else { Self::total(nodes.drop_last()) + nodes.last().size() }
    }
    spec fn all_wf(nodes: Seq<&Node<N, D>>) -> bool { forall|i: int| 0 <= i < nodes.len() ==> (#[trigger] nodes[i]).wf() }

    proof fn lemma_push(nodes: Seq<&Node<N, D>>, n: &Node<N, D>, qs: N, qe: N)
        ensures Self::pending(nodes.push(n), qs, qe) == Self::pending(nodes, qs, qe).add(Self::ov(n.entries(), qs, qe)),
            Self::total(nodes.push(n)) == Self::total(nodes) + n.size(),
            Self::all_wf(nodes) && n.wf() ==> Self::all_wf(nodes.push(n)),
    {
        assert(nodes.push(n).drop_last() =~= nodes);
        assert(nodes.push(n).last() == n);
    }
    proof fn lemma_ov_split(&self, qs: N, qe: N)
        ensures ({ let me = (self.interval.range().start, self.interval.range().end, self.value);
            Self::ov(self.entries(), qs, qe) == Self::ov(Self::opt_entries(self.left), qs, qe)
                .add(if overlaps(qs, qe, me.0, me.1) { Multiset::empty().insert(me) } else { Multiset::empty() })
                .add(Self::ov(Self::opt_entries(self.right), qs, qe)) })
    {
        let me = (self.interval.range().start, self.interval.range().end, self.value);
        let f = |e: (N, N, D)| overlaps(qs, qe, e.0, e.1);
        let l = Self::opt_entries(self.left); let r = Self::opt_entries(self.right);
        assert(self.entries() == l.insert(me).add(r));
        assert(l.insert(me).add(r).filter(f) =~= l.insert(me).filter(f).add(r.filter(f)));
        assert(l.insert(me).filter(f) =~= if f(me) { l.filter(f).insert(me) } else { l.filter(f) });
        assert(Self::ov(self.entries(), qs, qe) =~= Self::ov(l, qs, qe)
                .add(if overlaps(qs, qe, me.0, me.1) { Multiset::empty().insert(me) } else { Multiset::empty() })
                .add(Self::ov(r, qs, qe)));
    }
    /// nothing in a subtree overlaps when the query starts at or after the subtree's max end
    proof fn lemma_prune_max(m: Multiset<(N, N, D)>, max: N, qs: N, qe: N)
        requires Self::total_order(), Self::ends_le(m, max), !lt(qs, max)
        ensures Self::ov(m, qs, qe) == Multiset::<(N, N, D)>::empty()
    {
        let f = |e: (N, N, D)| overlaps(qs, qe, e.0, e.1);
        assert forall|e: (N, N, D)| m.filter(f).count(e) == 0 by {
            if m.count(e) > 0 { assert(le(e.1, max)); assert(le(max, qs)); assert(le(e.1, qs)); assert(!lt(qs, e.1)); }
        }
        assert(m.filter(f) =~= Multiset::<(N, N, D)>::empty());
    }
    /// nothing starting at or after `s` overlaps when the query ends at or before `s`
    proof fn lemma_prune_start(m: Multiset<(N, N, D)>, s: N, qs: N, qe: N)
        requires Self::total_order(), Self::starts_gt(m, s), !lt(s, qe)
        ensures Self::ov(m, qs, qe) == Multiset::<(N, N, D)>::empty()
    {
        let f = |e: (N, N, D)| overlaps(qs, qe, e.0, e.1);
        assert forall|e: (N, N, D)| m.filter(f).count(e) == 0 by {
            if m.count(e) > 0 { assert(le(s, e.0)); assert(le(qe, s)); assert(le(qe, e.0)); assert(!lt(e.0, qe)); }
        }
        assert(m.filter(f) =~= Multiset::<(N, N, D)>::empty());
    }
}

impl<'a, N: Ord + Clone + 'a, D: 'a> IntervalTreeIterator<'a, N, D> {
    spec fn inv(&self) -> bool { Node::<N, D>::all_wf(self.nodes@) && Node::<N, D>::total_order() }
    spec fn pend(&self) -> Multiset<(N, N, D)> { Node::<N, D>::pending(self.nodes@, self.interval.range().start, self.interval.range().end) }

    fn next(&mut self) -> (r: Option<Entry<'a, N, D>>)
        requires old(self).inv()
        ensures final(self).inv(), final(self).interval == old(self).interval,
            match r {
                Some(en) => {
                    let e = (en.interval.range().start, en.interval.range().end, *en.data);
                    overlaps(old(self).interval.range().start, old(self).interval.range().end, e.0, e.1)
                    && old(self).pend() == final(self).pend().insert(e)
                }
                None => old(self).pend() == Multiset::<(N, N, D)>::empty() && final(self).pend() == Multiset::<(N, N, D)>::empty(),
            }
    {
        let ghost qs = self.interval.range().start; let ghost qe = self.interval.range().end;
        loop
            invariant self.inv(), self.interval == old(self).interval, self.pend() == old(self).pend(),
                qs == self.interval.range().start, qe == self.interval.range().end,
            decreases Node::<N, D>::total(self.nodes@)
        {
            let ghost before = self.nodes@;
            let candidate = match self.nodes.pop() {
                None => return None,
                Some(node) => node,
            };
            let ghost base = self.nodes@;
            let ghost me = (candidate.interval.range().start, candidate.interval.range().end, candidate.value);
            let ghost c1 = lt(qs, candidate.max);
            let ghost c2 = lt(me.0, qe);
            let ghost el = Node::<N, D>::opt_entries(candidate.left); let ghost er = Node::<N, D>::opt_entries(candidate.right);
            proof {
                assert(before.drop_last() =~= base);
                assert(before.last() == candidate);
                assert(candidate.wf());
                candidate.lemma_ov_split(qs, qe);
                assert(Node::<N, D>::pending(before, qs, qe) == Node::<N, D>::pending(base, qs, qe).add(Node::<N, D>::ov(candidate.entries(), qs, qe)));
                assert(Node::<N, D>::total(before) == Node::<N, D>::total(base) + candidate.size());
                assert(candidate.size() == 1 + Node::<N, D>::opt_size(candidate.left) + Node::<N, D>::opt_size(candidate.right));
                if candidate.left is Some { Node::<N, D>::lemma_push(base, &*candidate.left->0, qs, qe); }
                let s1 = if candidate.left is Some { base.push(&*candidate.left->0) } else { base };
                if candidate.right is Some { Node::<N, D>::lemma_push(s1, &*candidate.right->0, qs, qe); }
                if !c1 { Node::<N, D>::lemma_prune_max(candidate.entries(), candidate.max, qs, qe); }
                if !c2 { Node::<N, D>::lemma_prune_start(er, me.0, qs, qe); }
                assert(Node::<N, D>::ov(Multiset::<(N, N, D)>::empty(), qs, qe) =~= Multiset::<(N, N, D)>::empty());
            }

            // stop traversal if the query interval is beyond the current node and all children
            if self.interval.start < candidate.max {
                if let Some(ref left) = candidate.left {
                    self.nodes.push(left);
                }

                // don't traverse right if the query interval is completely before the current
                // interval
                if self.interval.end > candidate.interval.start {
                    if let Some(ref right) = candidate.right {
                        self.nodes.push(right);
                    }

                    // overlap is only possible if both tests pass
                    if intersect::<N, D>(&self.interval, &candidate.interval) {
                        proof {
                            let s1 = if candidate.left is Some { base.push(&*candidate.left->0) } else { base };
                            let s2 = if candidate.right is Some { s1.push(&*candidate.right->0) } else { s1 };
                            assert(self.nodes@ =~= s2);
                            assert(old(self).pend() =~= self.pend().insert(me));
                        }
                        return Some(Entry {
                            data: &candidate.value,
                            interval: &candidate.interval,
                        });
                    }
                }
            }
            proof {
                let s1 = if candidate.left is Some { base.push(&*candidate.left->0) } else { base };
                let s2 = if candidate.right is Some { s1.push(&*candidate.right->0) } else { s1 };
                if c1 {
                    if c2 { assert(self.nodes@ =~= s2); } else { assert(self.nodes@ =~= s1); }
                } else { assert(self.nodes@ =~= base); }
                assert(self.pend() =~= old(self).pend());
            }
        }
    }
}


pub struct EntryMut<'a, N: Ord + Clone, D> {
    data: &'a mut D,
    interval: &'a Interval<N>,
}
pub struct IntervalTreeIteratorMut<'a, N: Ord + Clone, D> {
    nodes: Vec<&'a mut Node<N, D>>,
    interval: Interval<N>,
}
impl<N: Ord + Clone, D> Node<N, D> {
    spec fn pending_m(nodes: Seq<&mut Node<N, D>>, qs: N, qe: N) -> Multiset<(N, N, D)> decreases nodes.len() {
        if nodes.len() == 0 { Multiset::empty() } else { Self::pending_m(nodes.drop_last(), qs, qe).add(Self::ov((*nodes.last()).entries(), qs, qe)) }
    }
    spec fn total_m(nodes: Seq<&mut Node<N, D>>) -> nat decreases nodes.len() {
        if nodes.len() == 0 { 0 } else { Self::total_m(nodes.drop_last()) + (*nodes.last()).size() }
    }
    spec fn all_wf_m(nodes: Seq<&mut Node<N, D>>) -> bool { forall|i: int| 0 <= i < nodes.len() ==> (*#[trigger] nodes[i]).wf() }
}

impl<'a, N: Ord + Clone + 'a, D: 'a> IntervalTreeIteratorMut<'a, N, D> {
    spec fn inv(&self) -> bool { Node::<N, D>::all_wf_m(self.nodes@) && Node::<N, D>::total_order() }
    spec fn pend(&self) -> Multiset<(N, N, D)> { Node::<N, D>::pending_m(self.nodes@, self.interval.range().start, self.interval.range().end) }

    fn next(&mut self) -> (r: Option<EntryMut<'a, N, D>>)
        requires old(self).inv()
        ensures final(self).inv(), final(self).interval == old(self).interval,
            match r {
                Some(en) => {
                    let e = (en.interval.range().start, en.interval.range().end, *en.data);
                    overlaps(old(self).interval.range().start, old(self).interval.range().end, e.0, e.1)
                    && old(self).pend() == final(self).pend().insert(e)
                }
                None => old(self).pend() == Multiset::<(N, N, D)>::empty() && final(self).pend() == Multiset::<(N, N, D)>::empty(),
            }
    {
        let ghost qs = self.interval.range().start; let ghost qe = self.interval.range().end;
        loop
            invariant self.inv(), self.interval == old(self).interval, self.pend() == old(self).pend(),
                qs == self.interval.range().start, qe == self.interval.range().end,
            decreases Node::<N, D>::total_m(self.nodes@)
        {
            let ghost before = self.nodes@;
            let candidate = match self.nodes.pop() {
                None => return None,
                Some(node) => node,
            };
            let ghost base = self.nodes@;
            let ghost cv = *candidate;
            let ghost me = (cv.interval.range().start, cv.interval.range().end, cv.value);
            let ghost c1 = lt(qs, cv.max);
            let ghost c2 = lt(me.0, qe);
            let ghost el = Node::<N, D>::opt_entries(cv.left); let ghost er = Node::<N, D>::opt_entries(cv.right);
            proof {
                assert(before.drop_last() =~= base);
                assert(*before.last() == cv);
                assert(cv.wf());
                cv.lemma_ov_split(qs, qe);
                assert(Node::<N, D>::pending_m(before, qs, qe) == Node::<N, D>::pending_m(base, qs, qe).add(Node::<N, D>::ov(cv.entries(), qs, qe)));
                assert(Node::<N, D>::total_m(before) == Node::<N, D>::total_m(base) + cv.size());
                assert(cv.size() == 1 + Node::<N, D>::opt_size(cv.left) + Node::<N, D>::opt_size(cv.right));
                if !c1 { Node::<N, D>::lemma_prune_max(cv.entries(), cv.max, qs, qe); }
                if !c2 { Node::<N, D>::lemma_prune_start(er, me.0, qs, qe); }
                assert(Node::<N, D>::ov(Multiset::<(N, N, D)>::empty(), qs, qe) =~= Multiset::<(N, N, D)>::empty());
            }

            // stop traversal if the query interval is beyond the current node and all children
            if self.interval.start < candidate.max {
                if let Some(ref mut left) = candidate.left {
                    let ghost lv = **left;
                    let __r: &mut Node<N, D> = &mut **left; self.nodes.push(__r);
                    proof {
                        assert(self.nodes@.drop_last() =~= base);
                        assert(*self.nodes@.last() == lv);
                        assert(lv == *cv.left->0);
                        assert(Node::<N, D>::total_m(self.nodes@) == Node::<N, D>::total_m(base) + lv.size());
                        assert(Node::<N, D>::pending_m(self.nodes@, qs, qe) == Node::<N, D>::pending_m(base, qs, qe).add(Node::<N, D>::ov(lv.entries(), qs, qe)));
                    }
                }
                let ghost s1 = self.nodes@;
                proof { if cv.left is None { assert(s1 == base); } }

                // don't traverse right if the query interval is completely before the current interval
                if self.interval.end > candidate.interval.start {
                    if let Some(ref mut right) = candidate.right {
                        let ghost rv = **right;
                        let __r: &mut Node<N, D> = &mut **right; self.nodes.push(__r);
                        proof {
                            assert(self.nodes@.drop_last() =~= s1);
                            assert(*self.nodes@.last() == rv);
                            assert(rv == *cv.right->0);
                            assert(Node::<N, D>::total_m(self.nodes@) == Node::<N, D>::total_m(s1) + rv.size());
                            assert(Node::<N, D>::pending_m(self.nodes@, qs, qe) == Node::<N, D>::pending_m(s1, qs, qe).add(Node::<N, D>::ov(rv.entries(), qs, qe)));
                        }
                    }

                    // overlap is only possible if both tests pass
                    if intersect::<N, D>(&self.interval, &candidate.interval) {
                        proof {
                            assert(old(self).pend() =~= self.pend().insert(me));
                        }
                        return Some(EntryMut {
                            data: &mut candidate.value,
                            interval: &candidate.interval,
                        });
                    }
                }
            }
            proof {
                assert(self.pend() =~= old(self).pend());
            }
        }
    }
}

fn intersect<N: Ord + Clone, D>(range_1: &Interval<N>, range_2: &Interval<N>) -> (r: bool)
    requires Node::<N, D>::total_order()
    ensures r == overlaps(range_1.range().start, range_1.range().end, range_2.range().start, range_2.range().end)
{
    range_1.start < range_1.end
        && range_2.start < range_2.end
        && range_1.end > range_2.start
        && range_1.start < range_2.end
}
}
fn main() {}

use vstd::prelude::*;
use vstd::arithmetic::div_mod::*;
use vstd::arithmetic::mul::*;
verus! {
global size_of usize == 8;

pub struct BitEnc {
    storage: Vec<u32>,
    width: usize,
    mask: u32,
    len: usize,
    usable_bits_per_block: usize,
}

// ---------------- spec prelude ----------------
pub open spec fn per_block_of(w: usize) -> int {
    if w == 1 { 32 } else if w == 2 { 16 } else if w == 3 { 10 } else if w == 4 { 8 } else if w == 5 { 6 } else if w == 6 { 5 } else { 4 }
}
pub open spec fn spec_mask(width: usize) -> u32 { ((1u32 << (width as u32)) - 1) as u32 }
pub open spec fn field_get(o: u32, m: u32, b: u32) -> u32 { (o >> b) & m }
pub open spec fn field_update(o: u32, m: u32, b: u32, value: u8) -> u32 { (o & !(m << b)) | (((value as u32) & m) << b) }
pub open spec fn slot(storage: Seq<u32>, w: usize, i: int) -> u8 {
    let pb = per_block_of(w);
    field_get(storage[i / pb], spec_mask(w), ((i % pb) * w) as u32) as u8
}
pub open spec fn blocks_for(len: int, w: usize) -> int { (len + per_block_of(w) - 1) / per_block_of(w) }

proof fn lemma_field_update(o: u32, w: u32, b: u32, b2: u32, value: u8)
    requires 1 <= w <= 8, b + w <= 32, b2 + w <= 32,
    ensures
        field_get(field_update(o, ((1u32 << w) - 1) as u32, b, value), ((1u32 << w) - 1) as u32, b) == (value as u32) & (((1u32 << w) - 1) as u32),
        (b2 + w <= b || b + w <= b2) ==> field_get(field_update(o, ((1u32 << w) - 1) as u32, b, value), ((1u32 << w) - 1) as u32, b2) == field_get(o, ((1u32 << w) - 1) as u32, b2),
        field_get(o, ((1u32 << w) - 1) as u32, b) <= 255,
{
    let m = ((1u32 << w) - 1) as u32;
    let v = value as u32;
    assert((((o & !(m << b)) | ((v & m) << b)) >> b) & m == v & m) by (bit_vector)
        requires 1 <= w <= 8, b + w <= 32, m == ((1u32 << w) - 1) as u32;
    assert((b2 + w <= b || b + w <= b2) ==> ((((o & !(m << b)) | ((v & m) << b)) >> b2) & m == (o >> b2) & m)) by (bit_vector)
        requires 1 <= w <= 8, b + w <= 32, b2 + w <= 32, m == ((1u32 << w) - 1) as u32, v <= 255;
    assert(((o >> b) & m) <= 255) by (bit_vector)
        requires 1 <= w <= 8, m == ((1u32 << w) - 1) as u32;
}

pub open spec fn pb_ok(pb: int) -> bool { pb == 4 || pb == 5 || pb == 6 || pb == 8 || pb == 10 || pb == 16 || pb == 32 }
proof fn lemma_pb(w: usize) requires 1 <= w <= 8 ensures pb_ok(per_block_of(w)), per_block_of(w) * w <= 32, per_block_of(w) * w >= 28 {}
proof fn lemma_div_facts(l: int, pb: int)
    requires l >= 0, pb_ok(pb)
    ensures
        l % pb == 0 ==> (l + pb - 1) / pb == l / pb && (l + 1 + pb - 1) / pb == l / pb + 1,
        l % pb != 0 ==> (l + pb - 1) / pb == l / pb + 1 && (l + 1 + pb - 1) / pb == l / pb + 1,
        l / pb < (l + 1 + pb - 1) / pb,
        0 <= l % pb < pb,
{
    if pb == 4 { assert(l % 4 == 0 ==> (l + 3) / 4 == l / 4); }
    else if pb == 5 { assert(l % 5 == 0 ==> (l + 4) / 5 == l / 5); }
    else if pb == 6 { assert(l % 6 == 0 ==> (l + 5) / 6 == l / 6); }
    else if pb == 8 { assert(l % 8 == 0 ==> (l + 7) / 8 == l / 8); }
    else if pb == 10 { assert(l % 10 == 0 ==> (l + 9) / 10 == l / 10); }
    else if pb == 16 { assert(l % 16 == 0 ==> (l + 15) / 16 == l / 16); }
    else { assert(l % 32 == 0 ==> (l + 31) / 32 == l / 32); }
}
proof fn lemma_div_mono(i: int, l: int, pb: int)
    requires 0 <= i < l, pb_ok(pb)
    ensures i / pb < (l + pb - 1) / pb, i / pb <= (l - 1) / pb
{
    if pb == 4 {} else if pb == 5 {} else if pb == 6 {} else if pb == 8 {} else if pb == 10 {} else if pb == 16 {} else {}
}
proof fn lemma_slots_disjoint(a: int, b: int, w: int, pb: int)
    requires 0 <= a < pb, 0 <= b < pb, a != b, 1 <= w <= 8, pb * w <= 32
    ensures a * w + w <= b * w || b * w + w <= a * w, a * w + w <= 32, b * w + w <= 32, a * w >= 0
{
    assert(a * w + w <= b * w || b * w + w <= a * w) by (nonlinear_arith) requires a != b, w >= 1;
    assert(a * w + w <= pb * w) by (nonlinear_arith) requires a < pb, w >= 1;
    assert(b * w + w <= pb * w) by (nonlinear_arith) requires b < pb, w >= 1;
    assert(a * w >= 0) by (nonlinear_arith) requires a >= 0, w >= 1;
}

/// storing `value` into slot `l` changes slot `l` to `value & mask` and no other slot
proof fn lemma_store_slot(olds: Seq<u32>, news: Seq<u32>, w: usize, l: int, i: int, value: u8)
    requires 1 <= w <= 8, 0 <= l, 0 <= i,
        l / per_block_of(w) < olds.len(), i / per_block_of(w) < olds.len(),
        news.len() == olds.len(),
        forall|b: int| 0 <= b < olds.len() && b != l / per_block_of(w) ==> news[b] == olds[b],
        news[l / per_block_of(w)] == field_update(olds[l / per_block_of(w)], spec_mask(w), ((l % per_block_of(w)) * w) as u32, value),
    ensures
        i != l ==> slot(news, w, i) == slot(olds, w, i),
        i == l ==> slot(news, w, i) == value & (spec_mask(w) as u8),
{
    let pb = per_block_of(w); let m = spec_mask(w);
    lemma_pb(w); lemma_div_facts(l, pb); lemma_div_facts(i, pb);
    assert(m <= 255) by { assert((((1u32 << (w as u32)) - 1) as u32) <= 255) by (bit_vector) requires 1 <= w <= 8; }
    let bl = ((l % pb) * w) as u32; let bi = ((i % pb) * w) as u32;
    assert((l % pb) * w + w <= 32 && (l % pb) * w >= 0) by (nonlinear_arith) requires 0 <= l % pb < pb, pb * w <= 32, w >= 1;
    assert((i % pb) * w + w <= 32 && (i % pb) * w >= 0) by (nonlinear_arith) requires 0 <= i % pb < pb, pb * w <= 32, w >= 1;
    if i == l {
        lemma_field_update(olds[l / pb], w as u32, bl, bl, value);
        assert(((value as u32) & m) == ((value & (m as u8)) as u32)) by (bit_vector) requires m <= 255;
    } else if i / pb == l / pb {
        assert(i % pb != l % pb);
        lemma_slots_disjoint(i % pb, l % pb, w as int, pb);
        lemma_field_update(olds[l / pb], w as u32, bl, bi, value);
    } else {
    }
}

pub open spec fn rep(v: u32, w: int, k: int) -> u32 decreases k {
    if k <= 0 { 0 } else { rep(v, w, k - 1) | (v << (((k - 1) * w) as u32)) }
}
proof fn lemma_or_field(x: u32, v: u32, m: u32, w: u32, s: u32, b: u32)
    requires 1 <= w <= 8, m == ((1u32 << w) - 1) as u32, v <= m, s + w <= 32, b + w <= 32,
        x >> s == 0,
    ensures
        b + w <= s ==> ((x | (v << s)) >> b) & m == (x >> b) & m,
        b == s ==> ((x | (v << s)) >> b) & m == v,
        s + w < 32 ==> (x | (v << s)) >> ((s + w) as u32) == 0,
        b >= s + w ==> ((x | (v << s)) >> b) & m == 0,
{
    assert(b + w <= s ==> ((x | (v << s)) >> b) & m == (x >> b) & m) by (bit_vector)
        requires 1 <= w <= 8, m == ((1u32 << w) - 1) as u32, v <= m, s + w <= 32, b + w <= 32, x >> s == 0;
    assert(b == s ==> ((x | (v << s)) >> b) & m == v) by (bit_vector)
        requires 1 <= w <= 8, m == ((1u32 << w) - 1) as u32, v <= m, s + w <= 32, b + w <= 32, x >> s == 0;
    assert(s + w < 32 ==> (x | (v << s)) >> ((s + w) as u32) == 0) by (bit_vector)
        requires 1 <= w <= 8, m == ((1u32 << w) - 1) as u32, v <= m, s + w <= 32, x >> s == 0;
    assert(b >= s + w ==> ((x | (v << s)) >> b) & m == 0) by (bit_vector)
        requires 1 <= w <= 8, m == ((1u32 << w) - 1) as u32, v <= m, s + w <= 32, b + w <= 32, x >> s == 0;
}
/// rep(v,w,k) holds v in slots 0..k and zeros above
proof fn lemma_rep(v: u32, w: int, k: int, j: int)
    requires 1 <= w <= 8, v <= spec_mask(w as usize), 0 <= k, k * w <= 32, 0 <= j, j * w + w <= 32,
    ensures
        field_get(rep(v, w, k), spec_mask(w as usize), (j * w) as u32) == (if j < k { v } else { 0 }),
        k * w < 32 ==> rep(v, w, k) >> ((k * w) as u32) == 0,
    decreases k
{
    let m = spec_mask(w as usize);
    if k == 0 {
        let b0 = (j * w) as u32;
        assert((0u32 >> b0) & m == 0) by (bit_vector);
        assert(0u32 >> 0u32 == 0) by (bit_vector);
    } else {
        assert((k - 1) * w + w == k * w) by (nonlinear_arith);
        assert((k - 1) * w >= 0) by (nonlinear_arith) requires k >= 1, w >= 1;
        lemma_rep(v, w, k - 1, j);
        let x = rep(v, w, k - 1); let s = ((k - 1) * w) as u32; let b = (j * w) as u32;
        assert(x >> s == 0);
        lemma_or_field(x, v, m, w as u32, s, b);
        if j < k - 1 { assert(j * w + w <= (k - 1) * w) by (nonlinear_arith) requires j < k - 1, w >= 1; }
        else if j == k - 1 { }
        else { assert(j * w >= (k - 1) * w + w) by (nonlinear_arith) requires j >= k, w >= 1; }
    }
}
proof fn lemma_shr_field(x: u32, m: u32, a: u32, b: u32)
    requires a + b < 32
    ensures ((x >> a) >> b) & m == (x >> ((a + b) as u32)) & m
{
    assert(((x >> a) >> b) & m == (x >> ((a + b) as u32)) & m) by (bit_vector) requires a + b < 32;
}

proof fn lemma_div_step(l: int, i: int, pb: int)
    requires l >= 0, i >= 0, pb_ok(pb), l % pb + i < pb
    ensures (l + i) / pb == l / pb, (l + i) % pb == l % pb + i
{
    if pb == 4 {} else if pb == 5 {} else if pb == 6 {} else if pb == 8 {} else if pb == 10 {} else if pb == 16 {} else {}
}

proof fn lemma_div_fill(l: int, k: int, pb: int)
    requires l >= 0, k >= 0, pb_ok(pb), l % pb != 0, l % pb + k <= pb
    ensures (l + k + pb - 1) / pb == l / pb + 1, (l + pb - 1) / pb == l / pb + 1,
        l % pb + k == pb ==> (l + k) % pb == 0 && (l + k) / pb == l / pb + 1,
        (l + k) / pb <= l / pb + 1,
{
    if pb == 4 {} else if pb == 5 {} else if pb == 6 {} else if pb == 8 {} else if pb == 10 {} else if pb == 16 {} else {}
}

proof fn lemma_addr_arith(ii: int, w: int, pb: int)
    requires ii >= 0, w >= 1, pb >= 1
    ensures (ii * w) / (pb * w) == ii / pb, (ii * w) % (pb * w) == (ii % pb) * w
{
    lemma_div_multiples_vanish_quotient(w, ii, pb);
    lemma_truncate_middle(ii, w, pb);
    lemma_mul_is_commutative(ii, w);
    lemma_mul_is_commutative(pb, w);
    lemma_mul_is_commutative(ii % pb, w);
}

/// phase 2 of push_values: whole blocks of `rep(vv)` plus an optional shifted partial block
proof fn lemma_fill_blocks(olds: Seq<u32>, news: Seq<u32>, w: usize, len1: int, n: int, vv: u32, j: int)
    requires 1 <= w <= 8, len1 >= 0, n >= 1, len1 % per_block_of(w) == 0,
        olds.len() == len1 / per_block_of(w),
        news.len() == blocks_for(len1 + n, w),
        vv <= spec_mask(w),
        forall|b: int| 0 <= b < olds.len() ==> news[b] == olds[b],
        forall|b: int| olds.len() <= b < (len1 + n) / per_block_of(w) ==> news[b] == rep(vv, w as int, per_block_of(w)),
        (len1 + n) % per_block_of(w) > 0 ==> news[(len1 + n) / per_block_of(w)]
            == rep(vv, w as int, per_block_of(w)) >> (((per_block_of(w) - (len1 + n) % per_block_of(w)) * w) as u32),
        0 <= j < len1 + n,
    ensures
        j < len1 ==> slot(news, w, j) == slot(olds, w, j),
        j >= len1 ==> slot(news, w, j) == vv as u8,
{
    let pb = per_block_of(w); let i = len1 + n; let m = spec_mask(w);
    lemma_pb(w); lemma_div_facts(len1, pb); lemma_div_facts(i, pb); lemma_div_facts(j, pb);
    assert(m <= 255) by { assert((((1u32 << (w as u32)) - 1) as u32) <= 255) by (bit_vector) requires 1 <= w <= 8; }
    assert((j % pb) * w + w <= pb * w && (j % pb) * w >= 0) by (nonlinear_arith) requires 0 <= j % pb < pb, w >= 1;
    if j < len1 {
        lemma_div_mono(j, len1, pb);
        assert(j / pb < olds.len()) by { lemma_div_facts(len1, pb); }
    } else {
        lemma_div_mono(j, i, pb);
        assert(j / pb >= len1 / pb) by { lemma_div_le(len1, j, pb); }
        if j / pb < i / pb {
            lemma_rep(vv, w as int, pb, j % pb);
        } else {
            // partial last block
            assert(j / pb == i / pb) by { lemma_div_le(j, i, pb); }
            let r = i % pb; let sh = ((pb - r) * w) as u32; let b = ((j % pb) * w) as u32;
            assert(j % pb < r) by { lemma_same_block(j, i, pb); }
            assert(r > 0);
            assert((pb - r) * w >= 0 && (pb - r) * w + (j % pb) * w + w <= pb * w) by (nonlinear_arith) requires 0 <= j % pb < r, r < pb, w >= 1;
            assert(((pb - r) + j % pb) * w == (pb - r) * w + (j % pb) * w) by (nonlinear_arith);
            lemma_shr_field(rep(vv, w as int, pb), m, sh, b);
            lemma_rep(vv, w as int, pb, (pb - r) + j % pb);
        }
    }
}
proof fn lemma_div_le(a: int, b: int, pb: int)
    requires 0 <= a <= b, pb_ok(pb)
    ensures a / pb <= b / pb
{
    if pb == 4 {} else if pb == 5 {} else if pb == 6 {} else if pb == 8 {} else if pb == 10 {} else if pb == 16 {} else {}
}
proof fn lemma_same_block(j: int, i: int, pb: int)
    requires 0 <= j < i, pb_ok(pb), j / pb == i / pb
    ensures j % pb < i % pb
{
    if pb == 4 {} else if pb == 5 {} else if pb == 6 {} else if pb == 8 {} else if pb == 10 {} else if pb == 16 {} else {}
}
// ---------------- end prelude ----------------

fn mask(width: usize) -> (r: u32)
    requires width <= 8
    ensures r == spec_mask(width)
{
    assert((1u32 << (width as u32)) >= 1 && (1u32 << (width as u32)) <= 256) by (bit_vector) requires width <= 8;
    (1 << width) - 1
}

impl BitEnc {
    pub closed spec fn params_ok(&self) -> bool {
        &&& 1 <= self.width <= 8
        &&& self.mask == spec_mask(self.width)
        &&& self.usable_bits_per_block == per_block_of(self.width) * self.width
    }
    pub closed spec fn wf(&self) -> bool {
        &&& self.params_ok()
        &&& self.len * 8 <= 0x7fff_ffff_ffff_ffff
        &&& self.storage.len() == blocks_for(self.len as int, self.width)
    }
    pub closed spec fn view(&self) -> Seq<u8> {
        Seq::new(self.len as nat, |i: int| slot(self.storage@, self.width, i))
    }
    pub closed spec fn spec_width(&self) -> usize { self.width }
    pub closed spec fn mask8(&self) -> u8 { self.mask as u8 }
    pub closed spec fn room(&self, n: int) -> bool { (self.len + n) * 8 <= 0x7fff_ffff_ffff_ffff }

    pub fn new(width: usize) -> (r: Self)
        requires 1 <= width <= 8
        ensures r.wf(), r.view() == Seq::<u8>::empty(), r.spec_width() == width
    {
        assert!(width <= 8, "Only encoding widths up to 8 supported");
        proof {
            if width == 1 { assert(32usize % 1 == 0); } else if width == 2 { assert(32usize % 2 == 0); } else if width == 3 { assert(32usize % 3 == 2); }
            else if width == 4 { assert(32usize % 4 == 0); } else if width == 5 { assert(32usize % 5 == 2); } else if width == 6 { assert(32usize % 6 == 2); }
            else if width == 7 { assert(32usize % 7 == 4); } else { assert(32usize % 8 == 0); }
        }
        let r = BitEnc {
            storage: Vec::new(),
            width,
            mask: mask(width),
            len: 0,
            usable_bits_per_block: 32 - 32 % width,
        };
        proof { assert(r.view() =~= Seq::<u8>::empty()); }
        r
    }

    fn get_by_addr(&self, block: usize, bit: usize) -> (r: u8)
        requires self.params_ok(), block < self.storage.len(), bit + self.width <= 32,
        ensures r as u32 == field_get(self.storage[block as int], self.mask, bit as u32),
    {
        proof { lemma_field_update(self.storage[block as int], self.width as u32, bit as u32, bit as u32, 0); }
        ((self.storage[block] >> bit) & self.mask) as u8
    }

    fn set_by_addr(&mut self, block: usize, bit: usize, value: u8)
        requires old(self).params_ok(), block < old(self).storage.len(), bit + old(self).width <= 32,
        ensures final(self).width == old(self).width, final(self).mask == old(self).mask, final(self).len == old(self).len,
            final(self).usable_bits_per_block == old(self).usable_bits_per_block,
            final(self).storage.len() == old(self).storage.len(),
            forall|b: int| 0 <= b < old(self).storage.len() && b != block ==> final(self).storage[b] == old(self).storage[b],
            final(self).storage[block as int] == field_update(old(self).storage[block as int], old(self).mask, bit as u32, value),
    {
        let mask = self.mask << bit;
        self.storage[block] |= mask;
        self.storage[block] ^= mask;
        self.storage[block] |= (u32::from(value) & self.mask) << bit;
        proof {
            let o = old(self).storage[block as int]; let m = self.mask; let b = bit as u32; let v = value as u32;
            assert((((o | (m << b)) ^ (m << b)) | ((v & m) << b)) == ((o & !(m << b)) | ((v & m) << b))) by (bit_vector);
        }
    }

    fn addr(&self, i: usize) -> (r: (usize, usize))
        requires self.params_ok(), i * 8 <= 0x7fff_ffff_ffff_ffff,
        ensures r.0 == (i as int) / per_block_of(self.width),
                r.1 == ((i as int) % per_block_of(self.width)) * self.width,
                r.1 + self.width <= self.usable_bits_per_block <= 32,
    {
        proof {
            let w = self.width as int; let ii = i as int; let pb = per_block_of(self.width);
            lemma_pb(self.width);
            lemma_addr_arith(ii, w, pb);
            assert(ii * w <= ii * 8) by (nonlinear_arith) requires 1 <= w <= 8, ii >= 0;
            lemma_div_facts(ii, pb);
            assert((ii % pb) * w + w <= pb * w) by (nonlinear_arith) requires 0 <= ii % pb < pb, w >= 1;
        }
        let k = i * self.width;
        (
            k / self.usable_bits_per_block,
            k % self.usable_bits_per_block,
        )
    }

    pub fn get(&self, i: usize) -> (r: Option<u8>)
        requires self.wf()
        ensures r == (if i < self.view().len() { Some(self.view()[i as int]) } else { None })
    {
        if i >= self.len {
            None
        } else {
            let (block, bit) = self.addr(i);
            proof {
                let pb = per_block_of(self.width);
                lemma_pb(self.width);
                lemma_div_mono(i as int, self.len as int, pb);
                lemma_field_update(self.storage[block as int], self.width as u32, bit as u32, bit as u32, 0);
            }
            Some(self.get_by_addr(block, bit))
        }
    }


    pub fn set(&mut self, i: usize, value: u8)
        requires old(self).wf(), i < old(self).view().len()
        ensures final(self).wf(), final(self).view() == old(self).view().update(i as int, value & old(self).mask8()),
            final(self).spec_width() == old(self).spec_width()
    {
        let (block, bit) = self.addr(i);
        proof {
            let pb = per_block_of(self.width);
            lemma_pb(self.width);
            lemma_div_mono(i as int, self.len as int, pb);
        }
        self.set_by_addr(block, bit, value);
        proof {
            let w = self.width; let pb = per_block_of(w); let l = self.len as int;
            assert(final(self).view().len() == l);
            assert forall|j: int| 0 <= j < l implies final(self).view()[j] == old(self).view().update(i as int, value & old(self).mask8())[j] by {
                lemma_pb(w); lemma_div_mono(j, l, pb); lemma_div_mono(i as int, l, pb);
                lemma_store_slot(old(self).storage@, self.storage@, w, i as int, j, value);
            }
            assert(final(self).view() =~= old(self).view().update(i as int, value & old(self).mask8()));
        }
    }

    pub fn clear(&mut self)
        requires old(self).wf()
        ensures final(self).wf(), final(self).view() == Seq::<u8>::empty(), final(self).spec_width() == old(self).spec_width()
    {
        self.storage.clear();
        self.len = 0;
        proof { lemma_pb(self.width); lemma_div_facts(0, per_block_of(self.width)); assert(final(self).view() =~= Seq::<u8>::empty()); }
    }

    pub fn nr_blocks(&self) -> (r: usize)
        requires self.wf()
        ensures r == blocks_for(self.view().len() as int, self.spec_width())
    {
        self.storage.len()
    }

    pub fn nr_symbols(&self) -> (r: usize)
        requires self.wf()
        ensures r == self.view().len()
    {
        self.len
    }

    pub fn is_empty(&self) -> (r: bool)
        requires self.wf()
        ensures r == (self.view().len() == 0)
    {
        self.len == 0
    }


    pub fn push_values(&mut self, mut n: usize, value: u8)
        requires old(self).wf(), old(self).room(n as int)
        ensures final(self).wf(), final(self).spec_width() == old(self).spec_width(),
            final(self).view() == old(self).view() + Seq::new(n as nat, |k: int| value & old(self).mask8()),
    {
        let ghost n0 = n; let ghost len0 = self.len as int; let ghost vm: u8 = value & self.mask8();
        let ghost pb = per_block_of(self.width); let ghost w = self.width as int;
        proof { lemma_pb(self.width); lemma_div_facts(len0, pb); }
        {
            let (block, bit) = self.addr(self.len);
            proof { if bit == 0 { assert(len0 % pb == 0) by (nonlinear_arith) requires (len0 % pb) * w == 0, w >= 1, len0 % pb >= 0; } }
            if bit > 0 {
                // R10: for bit in (bit..self.usable_bits_per_block).step_by(self.width).take(n)
                let mut bit = bit; let __b = self.usable_bits_per_block; let __s = self.width; let __n = n; let mut __k: usize = 0;
                assert(__s != 0);
                proof {
                    assert(len0 % pb != 0) by (nonlinear_arith) requires (len0 % pb) * w > 0;
                    assert(self.view() =~= old(self).view() + Seq::new(0 as nat, |k: int| vm));
                }
                while __k < __n && bit < __b
                    invariant
                        self.params_ok(), self.width == old(self).width, self.mask == old(self).mask,
                        self.storage.len() == old(self).storage.len(),
                        self.storage.len() == blocks_for(len0, self.width),
                        len0 % pb != 0, pb == per_block_of(self.width), pb_ok(pb), w == self.width, pb * w == __b, __b <= 32,
                        bit == (len0 % pb + __k) * w, __s == self.width, __n == n0, block == len0 / pb,
                        __k <= __n, n == n0 - __k, self.len == len0 + __k,
                        len0 % pb + __k <= pb,
                        (len0 + n0) * 8 <= 0x7fff_ffff_ffff_ffff,
                        vm == value & old(self).mask8(), old(self).view().len() == len0, old(self).mask8() == spec_mask(self.width) as u8,
                        self.view() == old(self).view() + Seq::new(__k as nat, |k: int| vm),
                    decreases __n - __k
                {
                    let ghost l = len0 + __k;
                    let ghost before = *self;
                    proof {
                        assert(len0 % pb + __k < pb) by (nonlinear_arith) requires (len0 % pb + __k) * w < pb * w, w >= 1;
                        lemma_div_step(len0, __k as int, pb);
                        assert(bit + w <= pb * w) by (nonlinear_arith) requires bit == (len0 % pb + __k) * w, len0 % pb + __k < pb, w >= 1;
                        lemma_div_mono(len0, len0 + 1, pb);
                    }
                    self.set_by_addr(block, bit, value);
                    n -= 1;
                    self.len += 1;
                    proof {
                        assert(self.view().len() == l + 1);
                        assert forall|j: int| 0 <= j < l + 1 implies self.view()[j] == (old(self).view() + Seq::new((__k + 1) as nat, |k: int| vm))[j] by {
                            assert(old(self).view().len() == len0);
                            assert(l / pb == len0 / pb);
                            assert(l / pb < before.storage@.len());
                            if j < l { lemma_div_mono(j, l, pb); assert(j / pb <= (l - 1) / pb); lemma_div_mono(l - 1, l, pb); assert(j / pb < before.storage@.len()); }
                            lemma_store_slot(before.storage@, self.storage@, self.width, l, j, value);
                            if j < l {
                                assert(self.view()[j] == slot(self.storage@, self.width, j));
                                assert(before.view()[j] == slot(before.storage@, self.width, j));
                                assert(before.view()[j] == (old(self).view() + Seq::new(__k as nat, |k: int| vm))[j]);
                            } else {
                                assert(self.view()[j] == slot(self.storage@, self.width, j));
                                assert(slot(self.storage@, self.width, j) == value & (spec_mask(self.width) as u8));
                                assert(vm == value & (spec_mask(self.width) as u8));
                            }
                        }
                        assert(self.view() =~= old(self).view() + Seq::new((__k + 1) as nat, |k: int| vm));
                        assert((len0 % pb + __k + 1) * w == bit + __s) by (nonlinear_arith) requires bit == (len0 % pb + __k) * w, __s == w;
                    }
                    bit += __s;
                    __k += 1;
                }
                proof {
                    lemma_div_fill(len0, __k as int, pb);
                    if __k < __n {
                        assert(len0 % pb + __k >= pb) by (nonlinear_arith) requires (len0 % pb + __k) * w >= pb * w, w >= 1;
                    }
                }
            }
        }
        proof {
            // state after the first phase
            assert(self.wf() || true);
        }
        let ghost len1 = self.len as int; let ghost k1 = len1 - len0;
        proof {
            lemma_div_facts(len0, pb);
            if len0 % pb == 0 {
                assert((len0 % pb) * w == 0) by (nonlinear_arith) requires len0 % pb == 0;
                assert(k1 == 0);
                assert(self.view() =~= old(self).view() + Seq::new(0 as nat, |k: int| vm));
            }
            assert(self.params_ok() && self.width == old(self).width && self.mask == old(self).mask);
            assert(self.storage.len() == blocks_for(len0, self.width));
            assert(n == n0 - k1 && 0 <= k1 <= n0);
            assert(self.view() == old(self).view() + Seq::new(k1 as nat, |k: int| vm));
            assert(n > 0 ==> len1 % pb == 0);
            assert(blocks_for(len1, self.width) == blocks_for(len0, self.width));
        }
        let ghost mid = self.storage@; let ghost view_mid = self.view(); let ghost n1 = n as int;
        proof { if n == 0 { assert(self.view() =~= old(self).view() + Seq::new(n0 as nat, |k: int| vm)); } }
        if n > 0 {
            let mut value_block = 0;
            let ghost vv: u32 = (value as u32) & self.mask;
            {
                let mut v = u32::from(value) & self.mask;
                proof {
                    assert(vv <= spec_mask(self.width)) by { let m = self.mask; let x = value as u32; assert(x & m <= m) by (bit_vector); }
                    if w == 1 { assert(32usize / 1 == 32); } else if w == 2 { assert(32usize / 2 == 16); } else if w == 3 { assert(32usize / 3 == 10); }
                    else if w == 4 { assert(32usize / 4 == 8); } else if w == 5 { assert(32usize / 5 == 6); } else if w == 6 { assert(32usize / 6 == 5); }
                    else if w == 7 { assert(32usize / 7 == 4); } else { assert(32usize / 8 == 4); }
                    assert(vv << 0u32 == vv) by (bit_vector);
                    assert(0 * w == 0) by (nonlinear_arith);
                }
                for __u in 0..32 / self.width
                    invariant
                        self.width == w, 1 <= w <= 8, 32usize / self.width == pb, pb * w <= 32,
                        value_block == rep(vv, w, __u as int),
                        __u < pb ==> v == vv << ((__u * w) as u32),
                {
                    proof {
                        assert(__u * w + w <= pb * w) by (nonlinear_arith) requires __u < pb, w >= 1;
                        assert((__u + 1) * w == __u * w + w) by (nonlinear_arith);
                        let sh = (__u * w) as u32; let ww = w as u32;
                        assert((vv << sh) << ww == vv << ((sh + ww) as u32)) by (bit_vector) requires sh + ww <= 32, ww >= 1;
                    }
                    value_block |= v;
                    v <<= self.width;
                }
            }
            let i = self.len + n;
            let (block, bit) = self.addr(i);
            proof {
                lemma_div_facts(len1, pb); lemma_div_facts(i as int, pb); lemma_div_le(len1, i as int, pb);
                assert(value_block == rep(vv, w, pb));
                assert(pb * w - (i as int % pb) * w == (pb - i as int % pb) * w) by (nonlinear_arith);
                if bit > 0 { assert(i as int % pb > 0) by (nonlinear_arith) requires (i as int % pb) * w > 0, i as int % pb >= 0, w >= 1; }
                else { assert(i as int % pb == 0) by (nonlinear_arith) requires (i as int % pb) * w == 0, w >= 1, i as int % pb >= 0; }
            }
            self.storage.resize(block, value_block);

            if bit > 0 {
                // add the remaining values to a final block
                // let shifted_block = value_block >> (32 - bit);
                let shifted_block = value_block >> (self.usable_bits_per_block - bit);
                self.storage.push(shifted_block);
            }

            self.len = i;
            proof {
                let news = self.storage@;
                assert(self.view().len() == len0 + n0);
                assert(vv as u8 == vm) by {
                    let m = self.mask; let x = value;
                    assert(m <= 255) by { let ww = w as u32; assert((((1u32 << ww) - 1) as u32) <= 255) by (bit_vector) requires 1 <= ww <= 8; }
                    assert(((x as u32) & m) == ((x & (m as u8)) as u32)) by (bit_vector) requires m <= 255;
                }
                assert forall|j: int| 0 <= j < len0 + n0 implies self.view()[j] == (old(self).view() + Seq::new(n0 as nat, |k: int| vm))[j] by {
                    lemma_fill_blocks(mid, news, self.width, len1, n1, vv, j);
                    if j < len1 { assert(view_mid[j] == slot(mid, self.width, j)); }
                }
                assert(self.view() =~= old(self).view() + Seq::new(n0 as nat, |k: int| vm));
            }
        }
    }


    pub fn push(&mut self, value: u8)
        requires old(self).wf(), old(self).room(1)
        ensures final(self).wf(), final(self).view() == old(self).view().push(value & old(self).mask8()),
            final(self).spec_width() == old(self).spec_width()
    {
        let (block, bit) = self.addr(self.len);
        if bit == 0 {
            self.storage.push(0);
        }
        proof {
            let pb = per_block_of(self.width); let l = self.len as int;
            lemma_pb(self.width);
            lemma_div_facts(l, pb);
            if bit == 0 {
                assert(l % pb == 0) by (nonlinear_arith) requires (l % pb) * (self.width as int) == 0, self.width >= 1, l % pb >= 0;
            } else {
                assert(l % pb != 0);
            }
            assert(block < self.storage.len());
        }
        let ghost mid = self.storage@;
        self.set_by_addr(block, bit, value);
        self.len += 1;
        proof {
            let w = self.width; let pb = per_block_of(w); let l = old(self).len as int;
            lemma_pb(w); lemma_div_facts(l, pb);
            assert(final(self).view().len() == l + 1);
            assert forall|i: int| 0 <= i < l + 1 implies final(self).view()[i] == old(self).view().push(value & old(self).mask8())[i] by {
                if i < l { lemma_div_mono(i, l, pb); }
                lemma_store_slot(mid, self.storage@, w, l, i, value);
                if i < l { assert(slot(mid, w, i) == slot(old(self).storage@, w, i)); }
            }
            assert(final(self).view() =~= old(self).view().push(value & (old(self).mask as u8)));
        }
    }
}
} // verus!
fn main() {}

use vstd::prelude::*;
verus! {
global size_of usize == 8;
pub type TextSlice<'a> = &'a [u8];

// ---------------- spec prelude ----------------
pub open spec fn bit_set(x: u64, j: int) -> bool { (x >> (j as u64)) & 1 == 1 }
/// masks of the reversed pattern: bit k of masks[c] <=> p[m-1-k] == c
pub open spec fn rmasks_ok(masks: Seq<u64>, p: Seq<u8>) -> bool {
    forall|c: int, k: int| 0 <= c < 256 && 0 <= k < 64 ==> (#[trigger] bit_set(masks[c], k) <==> (k < p.len() && p[p.len() - 1 - k] == c))
}
pub open spec fn occurs(p: Seq<u8>, t: Seq<u8>, i: int) -> bool {
    0 <= i && i + p.len() <= t.len() && t.subrange(i, i + p.len()) == p
}
/// the j text symbols left of `w` equal p[s2..s2+j)
pub open spec fn factor_at(p: Seq<u8>, t: Seq<u8>, w: int, j: int, s2: int) -> bool {
    0 <= s2 && s2 + j <= p.len() && 0 <= j <= w <= t.len() && t.subrange(w - j, w) == p.subrange(s2, s2 + j)
}

proof fn lemma_bits(a: u64, b: u64, k: u64)
    requires k < 64
    ensures ((a & b) >> k) & 1 == 1 <==> (((a >> k) & 1 == 1) && ((b >> k) & 1 == 1)),
        k >= 1 ==> (((a << 1) >> k) & 1 == 1 <==> ((a >> ((k - 1) as u64)) & 1 == 1)),
        k == 0 ==> ((a << 1) >> k) & 1 == 0,
{
    assert(((a & b) >> k) & 1 == 1 <==> (((a >> k) & 1 == 1) && ((b >> k) & 1 == 1))) by (bit_vector) requires k < 64;
    assert(k >= 1 ==> (((a << 1) >> k) & 1 == 1 <==> ((a >> ((k - 1) as u64)) & 1 == 1))) by (bit_vector) requires k < 64;
    assert(k == 0 ==> ((a << 1) >> k) & 1 == 0) by (bit_vector) requires k < 64;
}
proof fn lemma_all_ones(m: u64, k: u64)
    requires 1 <= m <= 64, k < 64
    ensures ({ let a = if m == 64 { 0xffff_ffff_ffff_ffffu64 } else { ((1u64 << m) - 1) as u64 }; ((a >> k) & 1 == 1) <==> k < m })
{
    if m == 64 { assert(((0xffff_ffff_ffff_ffffu64 >> k) & 1 == 1)) by (bit_vector) requires k < 64; }
    else { assert(((((1u64 << m) - 1) as u64 >> k) & 1 == 1) <==> k < m) by (bit_vector) requires 1 <= m < 64, k < 64; }
}
proof fn lemma_accept(active: u64, m: u64)
    requires 1 <= m <= 64
    ensures (active & (1u64 << ((m - 1) as u64)) != 0) <==> ((active >> ((m - 1) as u64)) & 1 == 1)
{
    let s = (m - 1) as u64;
    assert((active & (1u64 << s) != 0) <==> ((active >> s) & 1 == 1)) by (bit_vector) requires s < 64;
}
proof fn lemma_zero(active: u64)
    ensures active == 0 <==> (forall|k: int| 0 <= k < 64 ==> !bit_set(active, k))
{
    if active != 0 {
        assert(exists|k: u64| k < 64 && (active >> k) & 1 == 1) by (bit_vector) requires active != 0;
        let k = choose|k: u64| k < 64 && (active >> k) & 1 == 1;
        assert(bit_set(active, k as int));
    } else {
        assert forall|k: int| 0 <= k < 64 implies !bit_set(active, k) by { let kk = k as u64; assert((0u64 >> kk) & 1 == 0) by (bit_vector); }
    }
}

proof fn lemma_factor_step(p: Seq<u8>, t: Seq<u8>, w: int, r: int, s2: int)
    requires 0 <= r, 1 <= s2, s2 + r <= p.len(), r + 1 <= w <= t.len()
    ensures factor_at(p, t, w, r + 1, s2 - 1) <==> (factor_at(p, t, w, r, s2) && p[s2 - 1] == t[w - r - 1])
{
    let a = t.subrange(w - r - 1, w); let b = p.subrange(s2 - 1, s2 + r);
    if factor_at(p, t, w, r, s2) && p[s2 - 1] == t[w - r - 1] {
        assert(a =~= seq![t[w - r - 1]] + t.subrange(w - r, w));
        assert(b =~= seq![p[s2 - 1]] + p.subrange(s2, s2 + r));
    }
    if factor_at(p, t, w, r + 1, s2 - 1) {
        assert(a == b);
        assert(a[0] == b[0]);
        assert(t.subrange(w - r, w) =~= a.subrange(1, r + 1));
        assert(p.subrange(s2, s2 + r) =~= b.subrange(1, r + 1));
    }
}
proof fn lemma_factor_suffix(p: Seq<u8>, t: Seq<u8>, w: int, l: int, r: int)
    requires factor_at(p, t, w, l, 0), 0 <= r <= l
    ensures factor_at(p, t, w, r, l - r)
{
    let a = t.subrange(w - l, w); let b = p.subrange(0, l);
    assert(t.subrange(w - r, w) =~= a.subrange(l - r, l));
    assert(p.subrange(l - r, l) =~= b.subrange(l - r, l));
}
proof fn lemma_occ_prefix(p: Seq<u8>, t: Seq<u8>, w: int, x: int)
    requires occurs(p, t, x), x <= w <= t.len(), w - x <= p.len()
    ensures factor_at(p, t, w, w - x, 0)
{
    let a = t.subrange(x, x + p.len());
    assert(t.subrange(x, w) =~= a.subrange(0, w - x));
}
pub open spec fn jm1(j: usize) -> int { j as int - 1 }
pub open spec fn fk(p: Seq<u8>, t: Seq<u8>, w: int, r: int, k: int) -> bool { factor_at(p, t, w, r, p.len() - k) }
// ---------------- end prelude ----------------

pub struct BNDM {
    m: usize,
    masks: [u64; 256],
    accept: u64,
}

pub struct Matches<'a> {
    bndm: &'a BNDM,
    window: usize,
    text: TextSlice<'a>,
}

impl BNDM {
    pub closed spec fn pat(&self) -> Seq<u8> {
        Seq::new(self.m as nat, |i: int| choose|c: u8| bit_set(self.masks@[c as int], self.m - 1 - i))
    }
    pub closed spec fn wf(&self) -> bool {
        &&& 1 <= self.m <= 64
        &&& rmasks_ok(self.masks@, self.pat())
        &&& self.accept == 1u64 << ((self.m - 1) as u64)
    }
    pub closed spec fn spec_m(&self) -> int { self.m as int }
}

impl<'a> Matches<'a> {
    pub closed spec fn wf(&self) -> bool { self.bndm.wf() && self.window >= self.bndm.m && self.text.len() < 0x7fff_ffff_ffff_ff00 }
    /// every occurrence starting before `frontier` has been reported
    pub closed spec fn frontier(&self) -> int { self.window - self.bndm.m }
    pub closed spec fn p(&self) -> Seq<u8> { self.bndm.pat() }
    pub closed spec fn t(&self) -> Seq<u8> { self.text@ }

    fn next(&mut self) -> (r: Option<usize>)
        requires old(self).wf()
        ensures final(self).wf(), final(self).p() == old(self).p(), final(self).t() == old(self).t(),
            match r {
                Some(i) => old(self).frontier() <= i < final(self).frontier() && occurs(old(self).p(), old(self).t(), i as int)
                    && (forall|x: int| old(self).frontier() <= x < final(self).frontier() && x != i ==> !occurs(old(self).p(), old(self).t(), x)),
                None => (forall|x: int| old(self).frontier() <= x ==> !occurs(old(self).p(), old(self).t(), x)),
            }
    {
        let ghost p = self.bndm.pat(); let ghost t = self.text@; let ghost m = self.bndm.m as int; let ghost f0 = self.window - self.bndm.m;
        while self.window <= self.text.len()
            invariant self.wf(), self.bndm == old(self).bndm, self.text == old(self).text, p == self.bndm.pat(), t == self.text@, m == self.bndm.m, m == p.len(),
                p == old(self).p(), t == old(self).t(), f0 == old(self).frontier(),
                f0 <= self.window - m,
                forall|x: int| f0 <= x < self.window - m ==> !occurs(p, t, x),
            decreases (if self.window <= self.text.len() { self.text.len() + 1 - self.window } else { 0 })
        {
            let mut occ = None;
            proof {
                let mm = m as u64;
                if mm < 64 { assert(1u64 << mm >= 1) by (bit_vector) requires mm < 64; }
            }
            // bit mask of ones, all states active
            let mut active = if self.bndm.m == 64 { u64::MAX } else { (1u64 << self.bndm.m) - 1 };
            let (mut j, mut lastsuffix) = (1, 0);
            let ghost w = self.window as int;
            proof {
                assert forall|k: int| 0 <= k < 64 implies (bit_set(active, k) <==> k < m) by { lemma_all_ones(m as u64, k as u64); }
                assert(factor_at(p, t, w, 0, 0)) by { assert(t.subrange(w, w) =~= p.subrange(0, 0)); }
                lemma_zero(active);
                assert forall|k: int| 0 <= k < m implies #[trigger] fk(p, t, w, 0, k) by { assert(t.subrange(w, w) =~= p.subrange(m - k, m - k)); }
            }
            // while not in fail state
            while active != 0
                invariant_except_break occ is None,
                    (j == m + 1 ==> active == 0),
                    active == 0 ==> (forall|k: int| 0 <= k < 64 ==> !bit_set(active, k)),
                    forall|k: int| 0 <= k < m ==> (#[trigger] bit_set(active, k) <==> (jm1(j) <= k && fk(p, t, w, jm1(j), k))),
                    forall|k: int| m < k < 64 ==> !#[trigger] bit_set(active, k),
                invariant self.wf(), self.bndm == old(self).bndm, self.text == old(self).text, p == self.bndm.pat(), t == self.text@, m == self.bndm.m, m == p.len(),
                    w == self.window, m <= w <= t.len(),
                    1 <= j <= m + 1, 0 <= lastsuffix < j, lastsuffix < m,
                    factor_at(p, t, w, lastsuffix as int, 0),
                    forall|l: int| lastsuffix < l <= jm1(j) ==> !factor_at(p, t, w, l, 0),
                ensures
                    occ is Some ==> occ == Some((w - m) as usize) && occurs(p, t, w - m)
                        && forall|l: int| lastsuffix < l < m ==> !factor_at(p, t, w, l, 0),
                    occ is None ==> active == 0 && j <= m + 1
                        && (forall|k: int| 0 <= k < 64 ==> !bit_set(active, k))
                        && (forall|k: int| 0 <= k < m ==> (#[trigger] bit_set(active, k) <==> (jm1(j) <= k && fk(p, t, w, jm1(j), k))))
                        && forall|l: int| lastsuffix < l <= jm1(j) ==> !factor_at(p, t, w, l, 0),
                    factor_at(p, t, w, lastsuffix as int, 0), lastsuffix < m, w == self.window, self.wf(),
                    self.bndm == old(self).bndm, self.text == old(self).text,
                decreases m + 1 - j
            {
                let ghost a0 = active;
                proof { lemma_zero(active); assert(j <= m); }
                // process j-th symbol from right
                active &= self.bndm.masks[self.text[self.window - j] as usize];
                let ghost a1 = active;
                proof {
                    let c = t[w - j]; let mk = self.bndm.masks@[c as int];
                    assert forall|k: int| 0 <= k < 64 implies (#[trigger] bit_set(a1, k) <==> (jm1(j) <= k < m && factor_at(p, t, w, (j as int), m - 1 - k))) by {
                        lemma_bits(a0, mk, k as u64);
                        assert(bit_set(a1, k) <==> (bit_set(a0, k) && bit_set(mk, k)));
                        assert(bit_set(mk, k) <==> (k < m && p[m - 1 - k] == c));
                        if k < m {
                            assert(bit_set(a0, k) <==> (jm1(j) <= k && fk(p, t, w, jm1(j), k)));
                            if jm1(j) <= k { lemma_factor_step(p, t, w, jm1(j), m - k); }
                        }
                    }
                    lemma_accept(a1, m as u64);
                }
                proof {
                    assert(bit_set(a1, m - 1) <==> (jm1(j) <= m - 1 < m && factor_at(p, t, w, (j as int), m - 1 - (m - 1))));
                    assert((a1 & self.bndm.accept != 0) <==> factor_at(p, t, w, j as int, 0));
                }
                if active & self.bndm.accept != 0 {
                    // reached accepting state
                    if j == self.bndm.m {
                        proof {
                            assert(factor_at(p, t, w, m, 0));
                            assert(t.subrange(w - m, w) =~= p.subrange(0, m));
                            assert(p.subrange(0, m) =~= p);
                        }
                        occ = Some(self.window - self.bndm.m);
                        break;
                    } else {
                        // we reached the accepting state
                        // but not the end of the pattern
                        // hence, a suffix of the reverse pattern
                        // i.e. a prefix of the pattern of
                        // length j matches
                        // in case of a mismatch, we can shift
                        // to this prefix
                        lastsuffix = j;
                    }
                }
                j += 1;
                active <<= 1;
                proof {
                    assert forall|k: int| 0 <= k < 64 implies (#[trigger] bit_set(active, k) <==> (k >= 1 && bit_set(a1, k - 1))) by { lemma_bits(a1, 0, k as u64); }
                    lemma_zero(active);
                }
            }
            // shift the window
            self.window += self.bndm.m - lastsuffix;
            proof {
                // no occurrence strictly inside (w - m, w - lastsuffix), and none at w - m unless reported
                assert forall|x: int| w - m <= x < w - lastsuffix && !(occ is Some && x == w - m) implies !occurs(p, t, x) by {
                    if occurs(p, t, x) {
                        let l = w - x;
                        lemma_occ_prefix(p, t, w, x);
                        assert(factor_at(p, t, w, l, 0));
                        assert(lastsuffix < l <= m);
                        if occ is Some { assert(l < m); }
                        if occ is None {
                            let r = jm1(j);
                            if l <= r { } else { lemma_factor_suffix(p, t, w, l, r); let k = m - (l - r); assert(bit_set(active, k) <==> (r <= k && fk(p, t, w, r, k))); }
                        }
                    }
                }
            }
            if occ.is_some() {
                return occ;
            }
        }
        proof {
            assert forall|x: int| f0 <= x implies !occurs(p, t, x) by { }
        }

        None
    }
}
}
fn main() {}

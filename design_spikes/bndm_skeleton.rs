use vstd::prelude::*;
verus! {
global size_of usize == 8;
pub type TextSlice<'a> = &'a [u8];

// ---------------- spec prelude ----------------
pub open spec fn bit_set(x: u64, j: int) -> bool { (x >> (j as u64)) & 1 == 1 }
/// masks of the reversed pattern: bit k of masks[c] <=> p[m-1-k] == c
pub open spec fn rmasks_ok(masks: Seq<u64>, p: Seq<u8>) -> bool {
    forall|c: int, k: int| 0 <= c < 256 && 0 <= k < 64 ==> (#[trigger] bit_set(masks[c], k) <==> (k < p.len() && p[p.len() - 1 - k] == c))
}
pub open spec fn occurs(p: Seq<u8>, t: Seq<u8>, i: int) -> bool {
    0 <= i && i + p.len() <= t.len() && t.subrange(i, i + p.len()) == p
}
/// the j text symbols left of `w` equal p[s2..s2+j)
pub open spec fn factor_at(p: Seq<u8>, t: Seq<u8>, w: int, j: int, s2: int) -> bool {
    0 <= s2 && s2 + j <= p.len() && 0 <= j <= w <= t.len() && t.subrange(w - j, w) == p.subrange(s2, s2 + j)
}

proof fn lemma_bits(a: u64, b: u64, k: u64)
    requires k < 64
    ensures ((a & b) >> k) & 1 == 1 <==> (((a >> k) & 1 == 1) && ((b >> k) & 1 == 1)),
        k >= 1 ==> (((a << 1) >> k) & 1 == 1 <==> ((a >> ((k - 1) as u64)) & 1 == 1)),
        k == 0 ==> ((a << 1) >> k) & 1 == 0,
{
    assert(((a & b) >> k) & 1 == 1 <==> (((a >> k) & 1 == 1) && ((b >> k) & 1 == 1))) by (bit_vector) requires k < 64;
    assert(k >= 1 ==> (((a << 1) >> k) & 1 == 1 <==> ((a >> ((k - 1) as u64)) & 1 == 1))) by (bit_vector) requires k < 64;
    assert(k == 0 ==> ((a << 1) >> k) & 1 == 0) by (bit_vector) requires k < 64;
}
proof fn lemma_all_ones(m: u64, k: u64)
    requires 1 <= m <= 64, k < 64
    ensures ({ let a = if m == 64 { 0xffff_ffff_ffff_ffffu64 } else { ((1u64 << m) - 1) as u64 }; ((a >> k) & 1 == 1) <==> k < m })
{
    if m == 64 { assert(((0xffff_ffff_ffff_ffffu64 >> k) & 1 == 1)) by (bit_vector) requires k < 64; }
    else { assert(((((1u64 << m) - 1) as u64 >> k) & 1 == 1) <==> k < m) by (bit_vector) requires 1 <= m < 64, k < 64; }
}
proof fn lemma_accept(active: u64, m: u64)
    requires 1 <= m <= 64
    ensures (active & (1u64 << ((m - 1) as u64)) != 0) <==> ((active >> ((m - 1) as u64)) & 1 == 1)
{
    let s = (m - 1) as u64;
    assert((active & (1u64 << s) != 0) <==> ((active >> s) & 1 == 1)) by (bit_vector) requires s < 64;
}
proof fn lemma_zero(active: u64)
    ensures active == 0 <==> (forall|k: int| 0 <= k < 64 ==> !bit_set(active, k))
{
    if active != 0 {
        assert(exists|k: u64| k < 64 && (active >> k) & 1 == 1) by (bit_vector) requires active != 0;
        let k = choose|k: u64| k < 64 && (active >> k) & 1 == 1;
        assert(bit_set(active, k as int));
    } else {
        assert forall|k: int| 0 <= k < 64 implies !bit_set(active, k) by { let kk = k as u64; assert((0u64 >> kk) & 1 == 0) by (bit_vector); }
    }
}
// ---------------- end prelude ----------------

pub struct BNDM {
    m: usize,
    masks: [u64; 256],
    accept: u64,
}

pub struct Matches<'a> {
    bndm: &'a BNDM,
    window: usize,
    text: TextSlice<'a>,
}

impl BNDM {
    pub closed spec fn pat(&self) -> Seq<u8> {
        Seq::new(self.m as nat, |i: int| choose|c: u8| bit_set(self.masks@[c as int], self.m - 1 - i))
    }
    pub closed spec fn wf(&self) -> bool {
        &&& 1 <= self.m <= 64
        &&& rmasks_ok(self.masks@, self.pat())
        &&& self.accept == 1u64 << ((self.m - 1) as u64)
    }
    pub closed spec fn spec_m(&self) -> int { self.m as int }
}

impl<'a> Matches<'a> {
    pub closed spec fn wf(&self) -> bool { self.bndm.wf() && self.window >= self.bndm.m && self.text.len() < 0x7fff_ffff_ffff_ff00 }
    /// every occurrence starting before `frontier` has been reported
    pub closed spec fn frontier(&self) -> int { self.window - self.bndm.m }
    pub closed spec fn p(&self) -> Seq<u8> { self.bndm.pat() }
    pub closed spec fn t(&self) -> Seq<u8> { self.text@ }

    fn next(&mut self) -> (r: Option<usize>)
        requires old(self).wf()
        ensures final(self).wf(), final(self).p() == old(self).p(), final(self).t() == old(self).t(),
            match r {
                Some(i) => old(self).frontier() <= i < final(self).frontier() && occurs(old(self).p(), old(self).t(), i as int)
                    && (forall|x: int| old(self).frontier() <= x < final(self).frontier() && x != i ==> !occurs(old(self).p(), old(self).t(), x)),
                None => (forall|x: int| old(self).frontier() <= x ==> !occurs(old(self).p(), old(self).t(), x)) && final(self).frontier() >= old(self).frontier(),
            }
    {
        let ghost p = self.bndm.pat(); let ghost t = self.text@; let ghost m = self.bndm.m as int; let ghost f0 = self.window - self.bndm.m;
        while self.window <= self.text.len()
            invariant self.wf(), self.bndm == old(self).bndm, self.text == old(self).text, p == self.bndm.pat(), t == self.text@, m == self.bndm.m,
                f0 <= self.window - m,
                forall|x: int| f0 <= x < self.window - m ==> !occurs(p, t, x),
            decreases self.text.len() + 1 - self.window
        {
            let mut occ = None;
            // bit mask of ones, all states active
            let mut active = if self.bndm.m == 64 { u64::MAX } else { (1u64 << self.bndm.m) - 1 };
            let (mut j, mut lastsuffix) = (1, 0);
            let ghost w = self.window as int;
            proof {
                assert forall|k: int| 0 <= k < 64 implies (bit_set(active, k) <==> k < m) by { lemma_all_ones(m as u64, k as u64); }
                assert(1u64 << (m as u64) >= 1) by { let mm = m as u64; if mm < 64 { assert(1u64 << mm >= 1) by (bit_vector) requires mm < 64; } }
            }
            // while not in fail state
            while active != 0
                invariant self.wf(), self.bndm == old(self).bndm, self.text == old(self).text, p == self.bndm.pat(), t == self.text@, m == self.bndm.m,
                    w == self.window, m <= w <= t.len(), occ is None,
                    1 <= j <= m, 0 <= lastsuffix < j, lastsuffix < m,
                    // bit k of active: the j-1 symbols read so far equal p[m-k-1 .. m-k-1+(j-1)) ... i.e. factor ending state k
                    forall|k: int| 0 <= k < 64 ==> (#[trigger] bit_set(active, k) <==> (j - 1 <= k < m && factor_at(p, t, w, j - 1, m - 1 - k))),
                    // lastsuffix is the longest proper prefix of p (shorter than j) that is a suffix of the window
                    factor_at(p, t, w, lastsuffix as int, 0),
                    forall|l: int| lastsuffix < l < j && l < m ==> !factor_at(p, t, w, l, 0),
                decreases m + 1 - j
            {
                // process j-th symbol from right
                active &= self.bndm.masks[self.text[self.window - j] as usize];
                if active & self.bndm.accept != 0 {
                    // reached accepting state
                    if j == self.bndm.m {
                        occ = Some(self.window - self.bndm.m);
                        break;
                    } else {
                        // we reached the accepting state
                        // but not the end of the pattern
                        // hence, a suffix of the reverse pattern
                        // i.e. a prefix of the pattern of
                        // length j matches
                        // in case of a mismatch, we can shift
                        // to this prefix
                        lastsuffix = j;
                    }
                }
                j += 1;
                active <<= 1;
            }
            // shift the window
            self.window += self.bndm.m - lastsuffix;
            if occ.is_some() {
                return occ;
            }
        }

        None
    }
}
}
fn main() {}

use vstd::prelude::*;
use vstd::arithmetic::div_mod::*;
use vstd::arithmetic::mul::*;
verus! {
global size_of usize == 8;

// ---------------- spec prelude ----------------
pub open spec fn count(s: Seq<u8>, a: u8) -> nat decreases s.len() {
    if s.len() == 0 { 0 } else { count(s.drop_last(), a) + if s.last() == a { 1nat } else { 0nat } }
}
pub proof fn count_split(s: Seq<u8>, i: int, a: u8)
    requires 0 <= i <= s.len()
    ensures count(s, a) == count(s.subrange(0, i), a) + count(s.subrange(i, s.len() as int), a)
    decreases s.len() - i
{
    if i == s.len() {
        assert(s.subrange(0, i) =~= s);
        assert(s.subrange(i, s.len() as int) =~= Seq::<u8>::empty());
    } else {
        let t = s.drop_last();
        count_split(t, i, a);
        assert(t.subrange(0, i) =~= s.subrange(0, i));
        assert(s.subrange(i, s.len() as int).drop_last() =~= t.subrange(i, t.len() as int));
    }
}
pub proof fn count_bound(s: Seq<u8>, a: u8)
    ensures count(s, a) <= s.len()
    decreases s.len()
{
    if s.len() > 0 { count_bound(s.drop_last(), a); }
}
/// prefix count: occurrences of a in s[0..=r]
pub open spec fn pc(s: Seq<u8>, r: int, a: u8) -> nat { count(s.subrange(0, r + 1), a) }
pub proof fn pc_range(s: Seq<u8>, lo: int, hi: int, a: u8)
    requires -1 <= lo <= hi < s.len()
    ensures pc(s, hi, a) == pc(s, lo, a) + count(s.subrange(lo + 1, hi + 1), a)
{
    let t = s.subrange(0, hi + 1);
    count_split(t, lo + 1, a);
    assert(t.subrange(0, lo + 1) =~= s.subrange(0, lo + 1));
    assert(t.subrange(lo + 1, t.len() as int) =~= s.subrange(lo + 1, hi + 1));
}

// trusted stub of the bytecount crate
mod bytecount {
    use vstd::prelude::*;
    use super::count as spec_count;
    #[verifier::external_body]
    pub fn count(haystack: &[u8], needle: u8) -> (r: usize)
        ensures r == spec_count(haystack@, needle)
    { unimplemented!() }
}
// ---------------- end prelude ----------------

pub type BWTSlice = [u8];

pub struct Occ {
    occ: Vec<Vec<usize>>,
    k: u32,
}

impl Occ {
    pub closed spec fn wf_for(&self, bwt: Seq<u8>, a: u8) -> bool {
        &&& self.k >= 1
        &&& (a as int) < self.occ.len()
        &&& bwt.len() >= 1
        &&& self.occ[a as int].len() == (bwt.len() - 1) / (self.k as int) + 1
        &&& forall|i: int| 0 <= i < self.occ[a as int].len() ==> #[trigger] self.occ[a as int][i] == pc(bwt, i * (self.k as int), a)
    }

    pub fn get(&self, bwt: &BWTSlice, r: usize, a: u8) -> (res: usize)
        requires self.wf_for(bwt@, a), r < bwt.len(),
        ensures res == pc(bwt@, r as int, a)
    {
        let ghost k = self.k as int; let ghost n = bwt@.len() as int; let ghost rr = r as int;
        // self.k is our sampling rate, so find the checkpoints either side of r.
        let lo_checkpoint = r / self.k as usize;
        proof {
            lemma_fundamental_div_mod(rr, k);
            lemma_div_is_ordered(rr, n - 1, k);
            assert(0 <= rr % k < k) by { lemma_mod_bound(rr, k); }
            assert(k * (rr / k) <= rr);
            lemma_mul_is_commutative(k, rr / k);
        }
        // Get the occurences at the low checkpoint
        let lo_occ = self.occ[a as usize][lo_checkpoint];

        // If the sampling rate is infrequent it is worth checking if there is a closer
        // hi checkpoint.
        if self.k > 64 {
            let hi_checkpoint = lo_checkpoint + 1;
            if let Some(hi_occ) = self.occ[a as usize].get(hi_checkpoint) { let hi_occ = *hi_occ;
                proof {
                    // hi checkpoint row is inside the bwt
                    let q = rr / k;
                    assert((q + 1) * k == q * k + k) by (nonlinear_arith);
                    assert((q + 1) <= (n - 1) / k);
                    lemma_fundamental_div_mod(n - 1, k);
                    lemma_mod_bound(n - 1, k);
                    assert((q + 1) * k <= ((n - 1) / k) * k) by (nonlinear_arith) requires q + 1 <= (n - 1) / k, k >= 1;
                    lemma_mul_is_commutative(k, (n - 1) / k);
                    assert((q + 1) * k <= n - 1);
                    pc_range(bwt@, rr, (q + 1) * k, a);
                    pc_range(bwt@, q * k, rr, a);
                    count_bound(bwt@.subrange(rr + 1, (q + 1) * k + 1), a);
                }
                // Its possible that there are no occurences between the low and high
                // checkpoint in which case we bail early.
                if lo_occ == hi_occ {
                    return lo_occ;
                }

                // If r is closer to the high checkpoint, count backwards from there.
                let hi_idx = hi_checkpoint * self.k as usize;
                if (hi_idx - r) < (self.k as usize / 2) {
                    return hi_occ - bytecount::count(&bwt[r + 1..=hi_idx], a);
                }
            }
        }

        // Otherwise the default case is to count from the low checkpoint.
        let lo_idx = lo_checkpoint * self.k as usize;
        proof {
            pc_range(bwt@, (rr / k) * k, rr, a);
            count_bound(bwt@.subrange((rr / k) * k + 1, rr + 1), a);
            count_bound(bwt@.subrange(0, (rr / k) * k + 1), a);
        }
        bytecount::count(&bwt[lo_idx + 1..=r], a) + lo_occ
    }
}
}
fn main() {}

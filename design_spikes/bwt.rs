use vstd::prelude::*;
use vstd::arithmetic::div_mod::*;
use vstd::arithmetic::mul::*;
verus! {
global size_of usize == 8;

// ---------------- spec prelude ----------------
pub open spec fn count(s: Seq<u8>, a: u8) -> nat decreases s.len() {
    if s.len() == 0 { 0 } else { count(s.drop_last(), a) + if s.last() == a { 1nat } else { 0nat } }
}
pub proof fn count_split(s: Seq<u8>, i: int, a: u8)
    requires 0 <= i <= s.len()
    ensures count(s, a) == count(s.subrange(0, i), a) + count(s.subrange(i, s.len() as int), a)
    decreases s.len() - i
{
    if i == s.len() {
        assert(s.subrange(0, i) =~= s);
        assert(s.subrange(i, s.len() as int) =~= Seq::<u8>::empty());
    } else {
        let t = s.drop_last();
        count_split(t, i, a);
        assert(t.subrange(0, i) =~= s.subrange(0, i));
        assert(s.subrange(i, s.len() as int).drop_last() =~= t.subrange(i, t.len() as int));
    }
}
pub proof fn count_bound(s: Seq<u8>, a: u8)
    ensures count(s, a) <= s.len()
    decreases s.len()
{
    if s.len() > 0 { count_bound(s.drop_last(), a); }
}
/// prefix count: occurrences of a in s[0..=r]
pub open spec fn pc(s: Seq<u8>, r: int, a: u8) -> nat { count(s.subrange(0, r + 1), a) }
pub proof fn pc_range(s: Seq<u8>, lo: int, hi: int, a: u8)
    requires -1 <= lo <= hi < s.len()
    ensures pc(s, hi, a) == pc(s, lo, a) + count(s.subrange(lo + 1, hi + 1), a)
{
    let t = s.subrange(0, hi + 1);
    count_split(t, lo + 1, a);
    assert(t.subrange(0, lo + 1) =~= s.subrange(0, lo + 1));
    assert(t.subrange(lo + 1, t.len() as int) =~= s.subrange(lo + 1, hi + 1));
}

// trusted stub of the bytecount crate
mod bytecount {
    use vstd::prelude::*;
    use super::count as spec_count;
    #[verifier::external_body]
    pub fn count(haystack: &[u8], needle: u8) -> (r: usize)
        ensures r == spec_count(haystack@, needle)
    { unimplemented!() }
}

// trusted stub of crate::alphabets::Alphabet (bit_set based)
pub mod alphabets {
    use vstd::prelude::*;
    #[verifier::external_body]
    pub struct BitSet { _p: () }
    #[verifier::external_body]
    pub struct BitSetIter<'a> { _p: &'a () }
    pub trait CollectTarget: Sized { spec fn as_seq(&self) -> Seq<usize>; }
    impl CollectTarget for Vec<usize> { open spec fn as_seq(&self) -> Seq<usize> { self@ } }
    impl BitSet {
        pub uninterp spec fn members(&self) -> Set<usize>;
        #[verifier::external_body]
        pub fn iter(&self) -> (r: BitSetIter<'_>) ensures r.members() == self.members() { unimplemented!() }
    }
    impl<'a> BitSetIter<'a> {
        pub uninterp spec fn members(&self) -> Set<usize>;
        /// ascending, duplicate-free list of the members
        #[verifier::external_body]
        pub fn collect<B: CollectTarget>(self) -> (r: B)
            ensures forall|x: usize| r.as_seq().contains(x) <==> self.members().contains(x),
                forall|i: int, j: int| 0 <= i < j < r.as_seq().len() ==> r.as_seq()[i] < r.as_seq()[j],
        { unimplemented!() }
    }
    pub struct Alphabet { pub symbols: BitSet }
    impl Alphabet {
        pub open spec fn has(&self, a: u8) -> bool { self.symbols.members().contains(a as usize) }
        pub open spec fn bytes_only(&self) -> bool { forall|x: usize| self.symbols.members().contains(x) ==> x < 256 }
        #[verifier::external_body]
        pub fn max_symbol(&self) -> (r: Option<u8>)
            requires self.bytes_only()
            ensures r is None <==> self.symbols.members().len() == 0,
                r is Some ==> self.has(r->0) && forall|a: u8| self.has(a) ==> a <= r->0,
        { unimplemented!() }
        #[verifier::external_body]
        pub fn is_word(&self, text: &[u8; 1]) -> (r: bool) ensures r == self.has(text@[0]) { unimplemented!() }
    }
}
use alphabets::Alphabet;

/// number of checkpoints after processing rows 0..=i is i/k + 1; a new one exactly when i % k == 0
pub proof fn lemma_ckpt(i: int, k: int)
    requires i >= 0, k >= 1
    ensures i % k == 0 ==> (if i == 0 { 0 } else { (i - 1) / k + 1 }) + 1 == i / k + 1 && (i / k) * k == i,
        i % k != 0 ==> (if i == 0 { 0 } else { (i - 1) / k + 1 }) == i / k + 1,
{
    lemma_fundamental_div_mod(i, k); lemma_mod_bound(i, k);
    lemma_mul_is_commutative(k, i / k);
    if i > 0 {
        lemma_fundamental_div_mod(i - 1, k); lemma_mod_bound(i - 1, k);
        let q = i / k; let r = i % k;
        if r == 0 {
            assert((q - 1) * k == q * k - k) by (nonlinear_arith);
            lemma_fundamental_div_mod_converse(i - 1, k, q - 1, k - 1);
        } else {
            lemma_fundamental_div_mod_converse(i - 1, k, q, r - 1);
        }
    }
}
pub open spec fn nck(i: int, k: int) -> int { if i == 0 { 0 } else { (i - 1) / k + 1 } }
pub open spec fn occ_ok(occ: Seq<Vec<usize>>, bwt: Seq<u8>, a: int, k: int, len: int) -> bool {
    occ[a]@.len() == len && forall|q: int| 0 <= q < len ==> #[trigger] occ[a]@[q] == pc(bwt, q * k, a as u8)
}
// ---------------- end prelude ----------------

pub type BWTSlice = [u8];

pub struct Occ {
    occ: Vec<Vec<usize>>,
    k: u32,
}

impl Occ {
    pub closed spec fn wf_for(&self, bwt: Seq<u8>, a: u8) -> bool {
        &&& self.k >= 1
        &&& (a as int) < self.occ.len()
        &&& bwt.len() >= 1
        &&& self.occ[a as int].len() == (bwt.len() - 1) / (self.k as int) + 1
        &&& forall|i: int| 0 <= i < self.occ[a as int].len() ==> #[trigger] self.occ[a as int][i] == pc(bwt, i * (self.k as int), a)
    }

    pub fn new(bwt: &BWTSlice, k: u32, alphabet: &Alphabet) -> (res: Self)
        requires k >= 1, 1 <= bwt.len() < 0x7fff_ffff_ffff_ffff, alphabet.bytes_only(), alphabet.symbols.members().len() > 0,
            forall|i: int| 0 <= i < bwt.len() ==> alphabet.has(#[trigger] bwt[i]),
        ensures forall|a: u8| alphabet.has(a) ==> res.wf_for(bwt@, a),
    {
        let n = bwt.len();
        let m = alphabet
            .max_symbol()
            .expect("Expecting non-empty alphabet.") as usize
            + 1;
        let mut alpha = alphabet.symbols.iter().collect::<Vec<usize>>();
        let ghost alpha0 = alpha@;
        proof {
            assert(alphabets::CollectTarget::as_seq(&alpha) == alpha@);
            assert forall|i: int, j: int| 0 <= i < j < alpha0.len() implies alpha0[i] < alpha0[j] by { }
        }
        // include sentinel '$'
        if (b'$' as usize) < m && !alphabet.is_word(&[b'$']) {
            alpha.push(b'$' as usize);
        }
        proof {
            // alpha: distinct symbols below m, containing the whole alphabet
            assert forall|i: int| 0 <= i < alpha@.len() implies alpha@[i] < m by {
                if i < alpha0.len() {
                    let x = alpha0[i];
                    assert(alpha0.contains(x));
                    assert(alphabet.symbols.members().contains(x));
                    assert(x < 256);
                    assert(alphabet.has(x as u8));
                }
            }
            assert forall|i: int, j: int| 0 <= i < j < alpha@.len() implies alpha@[i] != alpha@[j] by {
                if j < alpha0.len() {
                    assert(alpha0[i] < alpha0[j]);
                } else {
                    let x = alpha0[i];
                    assert(alpha0.contains(x));
                    assert(alphabet.symbols.members().contains(x));
                    assert(alpha@.len() == alpha0.len() + 1);
                    assert(alpha@[j] == 36);
                    assert(!alphabet.has(36u8));
                    if x == 36 { assert(alphabet.has(36u8)); }
                }
            }
            assert forall|a: u8| alphabet.has(a) implies alpha@.contains(a as usize) by {
                assert(alpha0.contains(a as usize));
                let i = choose|i: int| 0 <= i < alpha0.len() && alpha0[i] == a as usize;
                assert(alpha@[i] == a as usize);
            }
        }
        let mut occ: Vec<Vec<usize>> = vec![Vec::new(); m];
        let mut curr_occ = vec![0usize; m];

        // characters not in the alphabet won't take up much space
        for a in it: alpha.iter()
            invariant occ.len() == m, k >= 1, forall|i: int| 0 <= i < alpha@.len() ==> alpha@[i] < m,
                forall|x: int| 0 <= x < m ==> (#[trigger] occ@[x])@.len() == 0,
        { let a = *a;
            occ[a].reserve(n / k as usize);
        }

        for i in 0..bwt.len()
            invariant occ.len() == m, curr_occ.len() == m, n == bwt.len(), k >= 1, m <= 256, n < 0x7fff_ffff_ffff_ffff,
                forall|j: int| 0 <= j < alpha@.len() ==> alpha@[j] < m,
                forall|i2: int, j: int| 0 <= i2 < j < alpha@.len() ==> alpha@[i2] != alpha@[j],
                forall|j: int| 0 <= j < bwt.len() ==> (#[trigger] bwt[j] as int) < m,
                forall|c: int| 0 <= c < m ==> #[trigger] curr_occ@[c] == count(bwt@.subrange(0, i as int), c as u8),
                forall|x: int| 0 <= x < alpha@.len() ==> occ_ok(occ@, bwt@, #[trigger] alpha@[x] as int, k as int, nck(i as int, k as int)),
        { let c = bwt[i];
            proof {
                count_bound(bwt@.subrange(0, i as int), c);
                assert(bwt@.subrange(0, i + 1).drop_last() =~= bwt@.subrange(0, i as int));
            }
            curr_occ[c as usize] += 1;
            proof {
                assert forall|cc: int| 0 <= cc < m implies #[trigger] curr_occ@[cc] == count(bwt@.subrange(0, i + 1), cc as u8) by { }
            }

            if i % k as usize == 0 {
                // only visit characters in the alphabet
                let ghost occ0 = occ@;
                for a in it2: alpha.iter()
                    invariant occ.len() == m, curr_occ.len() == m,
                        forall|j: int| 0 <= j < alpha@.len() ==> alpha@[j] < m,
                        forall|i2: int, j: int| 0 <= i2 < j < alpha@.len() ==> alpha@[i2] != alpha@[j],
                        forall|x: int| 0 <= x < alpha@.len() ==>
                            occ@[#[trigger] alpha@[x] as int]@ == (if x < it2.index@ { occ0[alpha@[x] as int]@.push(curr_occ@[alpha@[x] as int]) } else { occ0[alpha@[x] as int]@ }),
                { let a = *a;
                    occ[a].push(curr_occ[a]);
                }
            }
            proof {
                let kk = k as int; let ii = i as int;
                lemma_fundamental_div_mod(ii, kk); lemma_mod_bound(ii, kk);
                if ii > 0 { lemma_fundamental_div_mod(ii - 1, kk); lemma_mod_bound(ii - 1, kk); }
                assert forall|x: int| 0 <= x < alpha@.len() implies occ_ok(occ@, bwt@, #[trigger] alpha@[x] as int, kk, nck(ii + 1, kk)) by {
                    lemma_ckpt(ii, kk);
                }
            }
        }

        Occ { occ, k }
    }

    pub fn get(&self, bwt: &BWTSlice, r: usize, a: u8) -> (res: usize)
        requires self.wf_for(bwt@, a), r < bwt.len(),
        ensures res == pc(bwt@, r as int, a)
    {
        let ghost k = self.k as int; let ghost n = bwt@.len() as int; let ghost rr = r as int;
        // self.k is our sampling rate, so find the checkpoints either side of r.
        let lo_checkpoint = r / self.k as usize;
        proof {
            lemma_fundamental_div_mod(rr, k);
            lemma_div_is_ordered(rr, n - 1, k);
            assert(0 <= rr % k < k) by { lemma_mod_bound(rr, k); }
            assert(k * (rr / k) <= rr);
            lemma_mul_is_commutative(k, rr / k);
        }
        // Get the occurences at the low checkpoint
        let lo_occ = self.occ[a as usize][lo_checkpoint];

        // If the sampling rate is infrequent it is worth checking if there is a closer
        // hi checkpoint.
        if self.k > 64 {
            let hi_checkpoint = lo_checkpoint + 1;
            if let Some(hi_occ) = self.occ[a as usize].get(hi_checkpoint) { let hi_occ = *hi_occ;
                proof {
                    // hi checkpoint row is inside the bwt
                    let q = rr / k;
                    assert((q + 1) * k == q * k + k) by (nonlinear_arith);
                    assert((q + 1) <= (n - 1) / k);
                    lemma_fundamental_div_mod(n - 1, k);
                    lemma_mod_bound(n - 1, k);
                    assert((q + 1) * k <= ((n - 1) / k) * k) by (nonlinear_arith) requires q + 1 <= (n - 1) / k, k >= 1;
                    lemma_mul_is_commutative(k, (n - 1) / k);
                    assert((q + 1) * k <= n - 1);
                    pc_range(bwt@, rr, (q + 1) * k, a);
                    pc_range(bwt@, q * k, rr, a);
                    count_bound(bwt@.subrange(rr + 1, (q + 1) * k + 1), a);
                }
                // Its possible that there are no occurences between the low and high
                // checkpoint in which case we bail early.
                if lo_occ == hi_occ {
                    return lo_occ;
                }

                // If r is closer to the high checkpoint, count backwards from there.
                let hi_idx = hi_checkpoint * self.k as usize;
                if (hi_idx - r) < (self.k as usize / 2) {
                    return hi_occ - bytecount::count(&bwt[r + 1..=hi_idx], a);
                }
            }
        }

        // Otherwise the default case is to count from the low checkpoint.
        let lo_idx = lo_checkpoint * self.k as usize;
        proof {
            pc_range(bwt@, (rr / k) * k, rr, a);
            count_bound(bwt@.subrange((rr / k) * k + 1, rr + 1), a);
            count_bound(bwt@.subrange(0, (rr / k) * k + 1), a);
        }
        bytecount::count(&bwt[lo_idx + 1..=r], a) + lo_occ
    }
}
}
fn main() {}

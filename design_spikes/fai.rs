use vstd::prelude::*;
use vstd::std_specs::cmp::*;
use vstd::arithmetic::div_mod::*;
use vstd::arithmetic::mul::*;
use std::cmp::min;
verus! {
global size_of usize == 8;
pub assume_specification<T: Ord> [std::cmp::min::<T>] (a: T, b: T) -> (r: T)
    ensures T::obeys_cmp_spec() ==> r == (if a.cmp_spec(&b) == core::cmp::Ordering::Greater { b } else { a });

// ---- trusted model of std::io pieces (stubs with the same paths as used by the code) ----
pub mod io {
    use vstd::prelude::*;
    #[verifier::external_body]
    pub struct Error { _p: () }
    pub enum ErrorKind { Other, UnexpectedEof }
    pub enum SeekFrom { Start(u64) }
    pub type Result<T> = core::result::Result<T, Error>;
    impl Error {
        #[verifier::external_body]
        pub fn new(kind: ErrorKind, msg: &str) -> Error { unimplemented!() }
    }
    /// model of BufReader<R: Read+Seek>: a file (byte seq) and a position
    #[verifier::external_body]
    pub struct BufReader { _p: () }
    impl BufReader {
        pub uninterp spec fn file(&self) -> Seq<u8>;
        pub uninterp spec fn pos(&self) -> int;
        #[verifier::external_body]
        pub fn fill_buf(&mut self) -> (r: Result<&[u8]>)
            ensures final(self).file() == old(self).file(), final(self).pos() == old(self).pos(),
               r is Ok ==> ({ let s = r->Ok_0@; let p = old(self).pos(); let f = old(self).file();
                    &&& (p >= f.len() ==> s.len() == 0)
                    &&& (p < f.len() ==> 1 <= s.len() <= f.len() - p)
                    &&& s == f.subrange(p, p + s.len()) })
        { unimplemented!() }
        #[verifier::external_body]
        pub fn seek(&mut self, pos: SeekFrom) -> (r: Result<u64>)
            ensures final(self).file() == old(self).file(),
                r is Ok ==> (match pos { SeekFrom::Start(o) => final(self).pos() == o && r->Ok_0 == o }),
        { unimplemented!() }
        #[verifier::external_body]
        pub fn consume(&mut self, n: usize)
            requires 0 <= old(self).pos(), old(self).pos() + n <= old(self).file().len()
            ensures final(self).file() == old(self).file(), final(self).pos() == old(self).pos() + n
        { unimplemented!() }
    }
}

pub struct IndexRecord {
    len: u64,
    offset: u64,
    line_bases: u64,
    line_bytes: u64,
}

pub struct IndexedReader { reader: io::BufReader }

// ---- spec prelude ----
spec fn rel(idx: IndexRecord, pos: int) -> int { pos - idx.offset }
spec fn line_no(idx: IndexRecord, pos: int) -> int { rel(idx, pos) / (idx.line_bytes as int) }
spec fn line_off(idx: IndexRecord, pos: int) -> int { rel(idx, pos) % (idx.line_bytes as int) }
spec fn smin(a: int, b: int) -> int { if a <= b { a } else { b } }
/// number of bases of the record that lie before file position `pos`
spec fn nb(idx: IndexRecord, pos: int) -> int { line_no(idx, pos) * idx.line_bases + smin(line_off(idx, pos), idx.line_bases as int) }
/// byte offset in the file of base number b of the record
spec fn byte_of(idx: IndexRecord, b: int) -> int {
    idx.offset + (b / (idx.line_bases as int)) * idx.line_bytes + b % (idx.line_bases as int)
}
spec fn idx_ok(idx: IndexRecord) -> bool {
    &&& idx.line_bases >= 1
    &&& idx.line_bases < idx.line_bytes
    &&& idx.line_bytes < 0x1_0000_0000
}
proof fn lemma_advance(idx: IndexRecord, pos: int, d: int)
    requires idx_ok(idx), pos >= idx.offset, d >= 0, line_off(idx, pos) + d <= idx.line_bytes
    ensures
        line_off(idx, pos) + d < idx.line_bytes ==> line_no(idx, pos + d) == line_no(idx, pos) && line_off(idx, pos + d) == line_off(idx, pos) + d,
        line_off(idx, pos) + d == idx.line_bytes ==> line_no(idx, pos + d) == line_no(idx, pos) + 1 && line_off(idx, pos + d) == 0,
        0 <= line_off(idx, pos) < idx.line_bytes, line_no(idx, pos) >= 0,
{
    let m = idx.line_bytes as int; let x = rel(idx, pos);
    lemma_fundamental_div_mod(x, m);
    lemma_mod_bound(x, m);
    lemma_div_pos_is_pos(x, m);
    let q = x / m; let r = x % m;
    lemma_mul_is_commutative(m, q);
    if r + d < m {
        lemma_fundamental_div_mod_converse(x + d, m, q, r + d);
    } else {
        assert((q + 1) * m == q * m + m) by (nonlinear_arith);
        lemma_fundamental_div_mod_converse(x + d, m, q + 1, 0);
    }
}
proof fn lemma_byte_of(idx: IndexRecord, pos: int, j: int)
    requires idx_ok(idx), pos >= idx.offset, j >= 0, line_off(idx, pos) + j < idx.line_bases
    ensures byte_of(idx, nb(idx, pos) + j) == pos + j
{
    let m = idx.line_bytes as int; let lb = idx.line_bases as int; let x = rel(idx, pos);
    lemma_fundamental_div_mod(x, m);
    lemma_mod_bound(x, m);
    lemma_div_pos_is_pos(x, m);
    let q = x / m; let r = x % m;
    lemma_mul_is_commutative(m, q);
    let b = q * lb + r + j;
    assert(nb(idx, pos) + j == b);
    lemma_fundamental_div_mod_converse(b, lb, q, r + j);
}
impl IndexedReader {
    fn seek_to(&mut self, idx: &IndexRecord, start: u64) -> (res: io::Result<u64>)
        requires idx_ok(*idx), start <= idx.len, idx.offset + (idx.len / idx.line_bases + 1) * idx.line_bytes < 0x7fff_ffff_ffff_0000,
        ensures final(self).reader.file() == old(self).reader.file(),
            res is Ok ==> final(self).reader.pos() >= idx.offset && final(self).reader.pos() < 0x7fff_ffff_ffff_0000
                && res->Ok_0 == line_off(*idx, final(self).reader.pos())
                && nb(*idx, final(self).reader.pos()) == start,
    {
        assert!(start <= idx.len);

        proof {
            let lb = idx.line_bases as int; let m = idx.line_bytes as int; let st = start as int;
            lemma_fundamental_div_mod(st, lb); lemma_mod_bound(st, lb); lemma_div_pos_is_pos(st, lb);
            lemma_div_is_ordered(st, idx.len as int, lb);
            assert((st / lb) * m <= (idx.len as int / lb) * m) by (nonlinear_arith) requires st / lb <= idx.len as int / lb, m >= 1;
            assert((idx.len as int / lb + 1) * m == (idx.len as int / lb) * m + m) by (nonlinear_arith);
        }
        let line_offset = start % idx.line_bases;
        let line_start = start / idx.line_bases * idx.line_bytes;
        let offset = idx.offset + line_start + line_offset;
        self.reader.seek(io::SeekFrom::Start(offset))?;
        proof {
            let lb = idx.line_bases as int; let m = idx.line_bytes as int; let st = start as int;
            let x = offset - idx.offset;
            lemma_fundamental_div_mod_converse(x, m, st / lb, st % lb);
            lemma_mul_is_commutative(lb, st / lb);
        }

        Ok(line_offset)
    }

    fn read_into_buffer(
        &mut self,
        idx: IndexRecord,
        start: u64,
        stop: u64,
        seq: &mut Vec<u8>,
    ) -> (res: io::Result<()>)
        requires idx_ok(idx), idx.offset + (idx.len / idx.line_bases + 1) * idx.line_bytes < 0x7fff_ffff_ffff_0000,
            old(self).reader.file().len() < 0x7fff_ffff_ffff_0000,
        ensures final(self).reader.file() == old(self).reader.file(),
            (stop > idx.len || start > stop) ==> res is Err,
            res is Ok ==> final(seq)@.len() == stop - start
                && forall|j: int| 0 <= j < stop - start ==> 0 <= #[trigger] byte_of(idx, start + j) < old(self).reader.file().len()
                    && final(seq)@[j] == old(self).reader.file()[byte_of(idx, start + j)],
    {
        if stop > idx.len {
            return Err(io::Error::new(
                io::ErrorKind::Other,
                "FASTA read interval was out of bounds",
            ));
        } else if start > stop {
            return Err(io::Error::new(
                io::ErrorKind::Other,
                "Invalid query interval",
            ));
        }

        let mut bases_left = stop - start;
        let mut line_offset = self.seek_to(&idx, start)?;

        seq.clear();
        let ghost file = self.reader.file();
        while bases_left > 0
            invariant idx_ok(idx), self.reader.file() == file, file == old(self).reader.file(), file.len() < 0x7fff_ffff_ffff_0000,
                self.reader.pos() >= idx.offset, self.reader.pos() < 0x7fff_ffff_ffff_0000,
                line_offset == line_off(idx, self.reader.pos()),
                start <= stop, bases_left <= stop - start,
                nb(idx, self.reader.pos()) == stop - bases_left,
                seq@.len() == stop - start - bases_left,
                forall|j: int| 0 <= j < seq@.len() ==> 0 <= #[trigger] byte_of(idx, start + j) < file.len() && seq@[j] == file[byte_of(idx, start + j)],
            decreases file.len() - self.reader.pos() + 0x8000_0000_0000_0000
        {
            let ghost p0 = self.reader.pos(); let ghost seq0 = seq@; let ghost done = seq@.len() as int;
            let k = self.read_line(&idx, &mut line_offset, bases_left, seq)?;
            proof {
                assert forall|j: int| 0 <= j < seq@.len() implies 0 <= #[trigger] byte_of(idx, start + j) < file.len() && seq@[j] == file[byte_of(idx, start + j)] by {
                    if j >= done {
                        let jj = j - done;
                        assert(byte_of(idx, nb(idx, p0) + jj) == p0 + jj);
                        assert(seq@[j] == file.subrange(p0, p0 + k)[jj]);
                    } else { assert(seq@[j] == seq0[j]); }
                }
            }
            bases_left -= k;
        }

        Ok(())
    }

    fn read_line(
        &mut self,
        idx: &IndexRecord,
        line_offset: &mut u64,
        bases_left: u64,
        buf: &mut Vec<u8>,
    ) -> (res: io::Result<u64>)
        requires idx_ok(*idx), bases_left >= 1,
            old(self).reader.pos() >= idx.offset, old(self).reader.pos() < 0x7fff_ffff_ffff_0000,
            *old(line_offset) == line_off(*idx, old(self).reader.pos()),
        ensures
            final(self).reader.file() == old(self).reader.file(),
            res is Ok ==> ({
                let k = res->Ok_0 as int; let p0 = old(self).reader.pos(); let p1 = final(self).reader.pos();
                &&& 0 <= k <= bases_left
                &&& p0 < p1 <= old(self).reader.file().len()
                &&& p0 + k <= p1
                &&& *final(line_offset) == line_off(*idx, p1)
                &&& nb(*idx, p1) == nb(*idx, p0) + k
                &&& final(buf)@ == old(buf)@ + old(self).reader.file().subrange(p0, p0 + k)
                &&& forall|j: int| 0 <= j < k ==> #[trigger] byte_of(*idx, nb(*idx, p0) + j) == p0 + j
            }),
    {
        let ghost p0 = self.reader.pos(); let ghost lo0 = *line_offset as int;
        proof { lemma_advance(*idx, p0, 0); }
        let (bytes_to_read, bytes_to_keep) = {
            let src = self.reader.fill_buf()?;
            if src.is_empty() {
                return Err(io::Error::new(
                    io::ErrorKind::UnexpectedEof,
                    "FASTA file is truncated.",
                ));
            }

            let bases_on_line = idx.line_bases - min(idx.line_bases, *line_offset);
            let bases_in_buffer = min(src.len() as u64, bases_on_line);

            let (bytes_to_read, bytes_to_keep) = if bases_in_buffer <= bases_left {
                let bytes_to_read = min(src.len() as u64, idx.line_bytes - *line_offset);

                (bytes_to_read, bases_in_buffer)
            } else {
                (bases_left, bases_left)
            };

            buf.extend_from_slice(&src[..bytes_to_keep as usize]);
            (bytes_to_read, bytes_to_keep)
        };

        self.reader.consume(bytes_to_read as usize);

        assert!(bytes_to_read > 0);
        *line_offset += bytes_to_read;
        if *line_offset >= idx.line_bytes {
            *line_offset = 0;
        }

        proof {
            let d = bytes_to_read as int; let k = bytes_to_keep as int; let lb = idx.line_bases as int;
            lemma_advance(*idx, p0, d);
            assert forall|j: int| 0 <= j < k implies #[trigger] byte_of(*idx, nb(*idx, p0) + j) == p0 + j by {
                lemma_byte_of(*idx, p0, j);
            }
            assert(buf@ =~= old(buf)@ + old(self).reader.file().subrange(p0, p0 + k));
            let p1 = self.reader.pos();
            assert(p1 == p0 + d);
            assert(0 <= k <= bases_left);
            assert(p0 < p1 <= old(self).reader.file().len());
            assert(*line_offset == line_off(*idx, p1));
            let ln = line_no(*idx, p0);
            assert((ln + 1) * lb == ln * lb + lb) by (nonlinear_arith);
            assert(nb(*idx, p1) == nb(*idx, p0) + k);
        }
        Ok(bytes_to_keep)
    }
}
}
fn main() {}

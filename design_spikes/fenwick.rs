use vstd::prelude::*;
use std::marker::PhantomData;
verus! {
global size_of usize == 8;

// ---------------- spec prelude ----------------
pub open spec fn lowbit(i: u64) -> u64 { i & ((!i).wrapping_add(1)) }
/// node j (1-based) covers 1-based positions (j - lowbit(j), j]
pub open spec fn covers(j: int, i: int) -> bool { j - lowbit(j as u64) < i <= j }

proof fn lemma_lowbit(x: usize)
    requires 1 <= x < 0x1_0000_0000
    ensures ((x as isize) & ((-(x as isize)) as isize)) as usize == lowbit(x as u64),
        1 <= lowbit(x as u64) <= x,
{
    assert(-(x as isize) >= -0x1_0000_0000);
    assert(((x as isize) & ((-(x as isize)) as isize)) as usize == (x as u64 & ((!(x as u64)).wrapping_add(1))) as usize) by (bit_vector) requires 1 <= x < 0x1_0000_0000usize;
    assert((x as u64) & ((!(x as u64)).wrapping_add(1)) <= x as u64) by (bit_vector);
    assert((x as u64) & ((!(x as u64)).wrapping_add(1)) >= 1) by (bit_vector) requires x >= 1;
    assert(((x as isize) & ((-(x as isize)) as isize)) >= 0) by (bit_vector) requires 1 <= x < 0x1_0000_0000usize;
}
/// between a covering node and its successor in the update chain no node covers i; the successor does
proof fn lemma_chain(cur: u64, i: u64, j: u64)
    requires 1 <= cur < 0x1_0000_0000, 1 <= i, covers(cur as int, i as int), 1 <= j < 0x2_0000_0000,
    ensures
        (cur < j < cur + lowbit(cur)) ==> !covers(j as int, i as int),
        covers((cur + lowbit(cur)) as int, i as int),
{
    if cur < j && j < cur + lowbit(cur) {
        assert(!(j - (j & ((!j).wrapping_add(1))) < i && i <= j)) by (bit_vector)
          requires cur >= 1, cur < 0x1_0000_0000u64, i >= 1, j >= 1, j < 0x2_0000_0000u64,
           cur - (cur & ((!cur).wrapping_add(1))) < i && i <= cur,
           cur < j && j < cur + (cur & ((!cur).wrapping_add(1)));
    }
    assert(({ let nx = add(cur, (cur & ((!cur).wrapping_add(1)))); sub(nx, (nx & ((!nx).wrapping_add(1)))) < i && i <= nx })) by (bit_vector)
      requires cur >= 1, cur < 0x1_0000_0000u64, i >= 1,
       cur - (cur & ((!cur).wrapping_add(1))) < i && i <= cur;
    assert(cur & ((!cur).wrapping_add(1)) <= cur) by (bit_vector);
}
/// nodes below position i never cover it; node i itself does
proof fn lemma_cover_basic(j: u64, i: u64)
    requires 1 <= j < 0x1_0000_0000, 1 <= i
    ensures j < i ==> !covers(j as int, i as int), covers(i as int, i as int) || i >= 0x1_0000_0000
{
    assert(j & ((!j).wrapping_add(1)) >= 1) by (bit_vector) requires j >= 1;
    if i < 0x1_0000_0000 {
        assert(i & ((!i).wrapping_add(1)) >= 1) by (bit_vector) requires i >= 1;
    }
}
// ---------------- end prelude ----------------

pub trait PrefixOp<T> {
    spec fn sop(t1: T, t2: T) -> T;
    fn operation(t1: T, t2: T) -> (r: T)
        ensures r == Self::sop(t1, t2);
}

pub struct FenwickTree<T: Default + Ord, Op: PrefixOp<T>> {
    tree: Vec<T>,
    phantom: PhantomData<Op>,
}

pub open spec fn laws<T, Op: PrefixOp<T>>() -> bool {
    &&& forall|a: T, b: T| #[trigger] Op::sop(a, b) == Op::sop(b, a)
    &&& forall|a: T, b: T, c: T| #[trigger] Op::sop(Op::sop(a, b), c) == Op::sop(a, Op::sop(b, c))
}
/// value accumulated by `get` walking down from 1-based position p, starting with acc
pub open spec fn dget<T, Op: PrefixOp<T>>(tree: Seq<T>, acc: T, p: int) -> T
    decreases p
{
    if p <= 0 || p >= 0x1_0000_0000 || lowbit(p as u64) < 1 || lowbit(p as u64) > p { acc } else { dget::<T, Op>(tree, Op::sop(acc, tree[p]), p - lowbit(p as u64)) }
}
proof fn lemma_dget_push<T, Op: PrefixOp<T>>(tree: Seq<T>, acc: T, v: T, p: int)
    requires laws::<T, Op>()
    ensures dget::<T, Op>(tree, Op::sop(acc, v), p) == Op::sop(dget::<T, Op>(tree, acc, p), v)
    decreases p
{
    if p <= 0 || p >= 0x1_0000_0000 || lowbit(p as u64) < 1 || lowbit(p as u64) > p { } else {
        // sop(sop(acc, v), t) == sop(sop(acc, t), v)
        let t = tree[p];
        assert(Op::sop(Op::sop(acc, v), t) == Op::sop(acc, Op::sop(v, t)));
        assert(Op::sop(v, t) == Op::sop(t, v));
        assert(Op::sop(Op::sop(acc, t), v) == Op::sop(acc, Op::sop(t, v)));
        lemma_dget_push::<T, Op>(tree, Op::sop(acc, t), v, p - lowbit(p as u64));
    }
}
/// effect of a point update on every prefix query
proof fn lemma_update<T, Op: PrefixOp<T>>(old_tree: Seq<T>, new_tree: Seq<T>, i: int, v: T, acc: T, p: int)
    requires laws::<T, Op>(), 1 <= i, 0 <= p < old_tree.len(), old_tree.len() == new_tree.len(), old_tree.len() <= 0x1_0000_0000,
        forall|j: int| 1 <= j < old_tree.len() ==> new_tree[j] == (if covers(j, i) { Op::sop(old_tree[j], v) } else { old_tree[j] }),
    ensures dget::<T, Op>(new_tree, acc, p) == (if p >= i { Op::sop(dget::<T, Op>(old_tree, acc, p), v) } else { dget::<T, Op>(old_tree, acc, p) })
    decreases p
{
    if p <= 0 { } else {
        let x = p as u64;
        assert(x & ((!x).wrapping_add(1)) >= 1 && x & ((!x).wrapping_add(1)) <= x) by (bit_vector) requires x >= 1;
        let q = p - lowbit(x);
        if covers(p, i) {
            lemma_update::<T, Op>(old_tree, new_tree, i, v, Op::sop(acc, new_tree[p]), q);
            // q < i: unchanged below
            let t = old_tree[p];
            assert(Op::sop(acc, Op::sop(t, v)) == Op::sop(Op::sop(acc, t), v));
            lemma_dget_push::<T, Op>(old_tree, Op::sop(acc, t), v, q);
        } else {
            lemma_update::<T, Op>(old_tree, new_tree, i, v, Op::sop(acc, old_tree[p]), q);
        }
    }
}

impl<Op: PrefixOp<u64>> FenwickTree<u64, Op> {
    pub closed spec fn wf(&self) -> bool { 1 <= self.tree.len() <= 0x1_0000_0000 }
    pub closed spec fn cap(&self) -> int { self.tree.len() - 1 }
    /// abstract prefix value for 0-based index idx
    pub closed spec fn prefix(&self, idx: int) -> u64 { dget::<u64, Op>(self.tree@, 0u64, idx + 1) }

    pub fn get(&self, idx: usize) -> (r: u64)
        requires self.wf(), idx < self.cap()
        ensures r == self.prefix(idx as int)
    {
        let ghost i0 = idx as int;
        let mut idx = idx + 1;
        let mut sum = u64::default();
        while idx > 0
            invariant self.wf(), idx < self.tree.len(),
                dget::<u64, Op>(self.tree@, sum, idx as int) == dget::<u64, Op>(self.tree@, 0u64, i0 + 1),
            decreases idx
        {
            proof { lemma_lowbit(idx); }
            sum = Op::operation(sum, self.tree[idx]);
            idx -= (idx as isize & -(idx as isize)) as usize;
        }

        sum
    }

    pub fn set(&mut self, idx: usize, val: u64)
        requires old(self).wf(), laws::<u64, Op>(), idx < 0x0fff_ffff
        ensures final(self).wf(), final(self).cap() == old(self).cap(),
            forall|q: int| 0 <= q < old(self).cap() ==> #[trigger] final(self).prefix(q) == (if q >= idx { Op::sop(old(self).prefix(q), val) } else { old(self).prefix(q) }),
    {
        let ghost i = idx as int + 1;
        let ghost old_tree = self.tree@;
        let mut idx = idx + 1;
        proof {
            assert forall|j: int| 1 <= j < old_tree.len() && j < i implies !covers(j, i) by { lemma_cover_basic(j as u64, i as u64); }
            lemma_cover_basic(1, i as u64);
        }
        while idx < self.tree.len()
            invariant self.wf(), self.tree.len() == old_tree.len(), 1 <= idx <= 0x2_0000_0000, 1 <= i < 0x1000_0000,
                idx < self.tree.len() ==> covers(idx as int, i),
                forall|j: int| 1 <= j < old_tree.len() ==> #[trigger] self.tree@[j] == (if covers(j, i) && j < idx { Op::sop(old_tree[j], val) } else { old_tree[j] }),
            decreases (if idx < self.tree.len() { self.tree.len() - idx } else { 0 })
        {
            proof { lemma_lowbit(idx); }
            let ghost cur = idx; let ghost before = self.tree@;
            self.tree[idx] = Op::operation(self.tree[idx], val);
            idx += (idx as isize & -(idx as isize)) as usize;
            proof {
                assert(idx == cur + lowbit(cur as u64));
                assert forall|j: int| 1 <= j < old_tree.len() implies self.tree@[j] == (if covers(j, i) && j < idx { Op::sop(old_tree[j], val) } else { old_tree[j] }) by {
                    lemma_chain(cur as u64, i as u64, j as u64);
                    assert(self.tree@ == before.update(cur as int, Op::sop(before[cur as int], val)));
                    assert(before[j] == (if covers(j, i) && j < cur { Op::sop(old_tree[j], val) } else { old_tree[j] }));
                    assert(cur < idx);
                    if j == cur { assert(before[j] == old_tree[j]); assert(covers(j, i)); }
                    else if j < cur { assert(self.tree@[j] == before[j]); }
                    else if j < idx { assert(!covers(j, i)); assert(self.tree@[j] == before[j]); }
                    else { assert(self.tree@[j] == before[j]); }
                }
                lemma_chain(cur as u64, i as u64, 1);
            }
        }
        proof {
            assert forall|q: int| 0 <= q < old(self).cap() implies #[trigger] final(self).prefix(q) == (if q >= i - 1 { Op::sop(old(self).prefix(q), val) } else { old(self).prefix(q) }) by {
                lemma_update::<u64, Op>(old_tree, self.tree@, i, val, 0u64, q + 1);
            }
        }
    }
}
pub open spec fn idx0(i: int) -> int { i - 1 }
}
fn main() {}

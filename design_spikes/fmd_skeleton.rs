use vstd::prelude::*;
verus! {
global size_of usize == 8;

pub struct BiInterval {
    lower: usize,
    lower_rev: usize,
    size: usize,
    match_size: usize,
}

// ---------------- trusted/abstract FM index (contracts of C04/C05) ----------------
pub struct FM { _p: () }
impl FM {
    pub uninterp spec fn n(&self) -> int;
    pub uninterp spec fn socc(&self, r: int, a: u8) -> int;
    pub uninterp spec fn sless(&self, a: u8) -> int;
    pub open spec fn wf(&self) -> bool {
        &&& 1 <= self.n() < 0x7fff_ffff_ffff
        &&& forall|r: int, a: u8| 0 <= r < self.n() ==> 0 <= #[trigger] self.socc(r, a) <= r + 1
        &&& forall|l: int, r: int, a: u8| 0 <= l <= r < self.n() ==> #[trigger] self.socc(l, a) <= #[trigger] self.socc(r, a)
        &&& forall|a: u8| 0 <= #[trigger] self.sless(a) <= self.n()
    }
    #[verifier::external_body]
    pub fn occ(&self, r: usize, a: u8) -> (res: usize)
        requires self.wf(), r < self.n()
        ensures res == self.socc(r as int, a)
    { unimplemented!() }
    #[verifier::external_body]
    pub fn less(&self, a: u8) -> (res: usize)
        requires self.wf()
        ensures res == self.sless(a)
    { unimplemented!() }
}
pub struct FMDIndex { fmindex: FM }

// ---------------- spec prelude ----------------
pub open spec fn order() -> Seq<u8> { seq![36u8, 84, 71, 67, 78, 65, 116, 103, 99, 110, 97] }   // $TGCNAtgcna
/// number of rows in [lo, lo+size) whose BWT symbol is b
pub open spec fn cnt(fm: &FM, lo: int, size: int, b: u8) -> int {
    fm.socc(lo + size - 1, b) - (if lo == 0 { 0 } else { fm.socc(lo - 1, b) })
}
/// sum of cnt over the first k symbols of the complement order
pub open spec fn acc(fm: &FM, lo: int, size: int, k: int) -> int decreases k {
    if k <= 0 { 0 } else { acc(fm, lo, size, k - 1) + cnt(fm, lo, size, order()[k - 1]) }
}
pub open spec fn idx_of(a: u8) -> int {
    if a == 36 { 0 } else if a == 84 { 1 } else if a == 71 { 2 } else if a == 67 { 3 } else if a == 78 { 4 } else if a == 65 { 5 }
    else if a == 116 { 6 } else if a == 103 { 7 } else if a == 99 { 8 } else if a == 110 { 9 } else { 10 }
}
// ---------------- end prelude ----------------

impl FMDIndex {
    fn backward_ext(&self, interval: &BiInterval, a: u8) -> (r: BiInterval)
        requires self.fmindex.wf(), interval.size >= 1, interval.lower + interval.size <= self.fmindex.n(),
            interval.lower_rev + interval.size <= self.fmindex.n(), interval.match_size < 0x7fff_ffff_ffff,
        ensures ({ let k = idx_of(a); let lo = interval.lower as int; let sz = interval.size as int;
            &&& r.size == cnt(&self.fmindex, lo, sz, order()[k])
            &&& r.lower == self.fmindex.sless(a) + (if lo == 0 { 0 } else { self.fmindex.socc(lo - 1, order()[k]) })
            &&& r.lower_rev == interval.lower_rev + acc(&self.fmindex, lo, sz, k)
            &&& r.match_size == interval.match_size + 1 })
    {
        let mut s = 0;
        let mut o = 0;
        let mut l = interval.lower_rev;
        let ghost lo = interval.lower as int; let ghost sz = interval.size as int; let ghost k = idx_of(a);
        // Interval [l(c(aP)), u(c(aP))] is a subinterval of [l(c(P)), u(c(P))] for each a,
        // starting with the lexicographically smallest ($),
        // then c(T) = A, c(G) = C, c(C) = G, N, c(A) = T, ...
        // Hence, we calculate lower revcomp bounds by iterating over
        // symbols and updating from previous one.
        for b in it: [b'$', b'T', b'G', b'C', b'N', b'A', b't', b'g', b'c', b'n', b'a'].iter()
            invariant self.fmindex.wf(), lo == interval.lower, sz == interval.size, sz >= 1, lo + sz <= self.fmindex.n(),
                interval.lower_rev + sz <= self.fmindex.n(),
                0 <= it.index@ <= 11, k == idx_of(a), it.index@ <= k + 1 || true,
                it.index@ > 0 ==> s == cnt(&self.fmindex, lo, sz, order()[it.index@ - 1])
                    && o == (if lo == 0 { 0 } else { self.fmindex.socc(lo - 1, order()[it.index@ - 1]) }),
                it.index@ == 0 ==> s == 0,
                l + s == interval.lower_rev + acc(&self.fmindex, lo, sz, it.index@),
                0 <= acc(&self.fmindex, lo, sz, it.index@) <= 11 * self.fmindex.n(),
                forall|j: int| 0 <= j < it.index@ ==> order()[j] != a,
        { let b = *b;
            proof {
                assert(b == order()[it.index@]);
                let i = it.index@;
                self.fmindex_bounds(lo, sz, b);
                assert(acc(&self.fmindex, lo, sz, i + 1) == acc(&self.fmindex, lo, sz, i) + cnt(&self.fmindex, lo, sz, order()[i]));
            }
            l += s;
            o = if interval.lower == 0 {
                0
            } else {
                self.fmindex.occ(interval.lower - 1, b)
            };
            // calculate size
            s = self.fmindex.occ(interval.lower + interval.size - 1, b) - o;
            if b == a {
                break;
            }
        }
        // calculate lower bound
        let k = self.fmindex.less(a) + o;

        BiInterval {
            lower: k,
            lower_rev: l,
            size: s,
            match_size: interval.match_size + 1,
        }
    }
    proof fn fmindex_bounds(&self, lo: int, sz: int, b: u8)
        requires self.fmindex.wf(), sz >= 1, 0 <= lo, lo + sz <= self.fmindex.n()
        ensures 0 <= cnt(&self.fmindex, lo, sz, b) <= self.fmindex.n()
    {
    }
}
}
fn main() {}

use vstd::prelude::*;
verus! {
global size_of usize == 8;
pub type BWT = Vec<u8>;

pub struct Interval {
    pub lower: usize,
    pub upper: usize,
}

pub enum BackwardSearchResult {
    Complete(Interval),
    Partial(Interval, usize),
    Absent,
}

// ---------------- spec prelude ----------------
/// abstract index: (less, occ, n)
pub struct Ix { pub less: spec_fn(u8) -> int, pub occ: spec_fn(int, u8) -> int, pub n: int }
pub open spec fn lf_l(ix: Ix, l: int, a: u8) -> int { (ix.less)(a) + if l > 0 { (ix.occ)(l - 1, a) } else { 0 } }
pub open spec fn lf_r(ix: Ix, r: int, a: u8) -> int { (ix.less)(a) + (ix.occ)(r, a) - 1 }
/// interval after consuming the last `k` pattern symbols (from the right)
pub open spec fn bs(ix: Ix, p: Seq<u8>, k: int) -> (int, int) decreases k {
    if k <= 0 { (0, ix.n - 1) } else {
        let (l, r) = bs(ix, p, k - 1);
        let a = p[p.len() - k];
        (lf_l(ix, l, a), lf_r(ix, r, a))
    }
}
pub open spec fn nonempty(ix: Ix, p: Seq<u8>, k: int) -> bool { bs(ix, p, k).0 <= bs(ix, p, k).1 }
/// all of the first k steps keep a non-empty interval
pub open spec fn alive(ix: Ix, p: Seq<u8>, k: int) -> bool { forall|q: int| 1 <= q <= k ==> nonempty(ix, p, q) }
// ---------------- end prelude ----------------

pub trait FMIndexable {
    spec fn wf(&self) -> bool;
    spec fn spec_occ(&self, r: int, a: u8) -> int;
    spec fn spec_less(&self, a: u8) -> int;
    spec fn n(&self) -> int;
    /// bounds every lawful index satisfies (proved by the implementor from the counting definitions)
    proof fn bounds(&self, r: int, a: u8)
        requires self.wf(), 0 <= r < self.n()
        ensures 0 <= self.spec_occ(r, a) <= r + 1, 0 <= self.spec_less(a), self.spec_less(a) + self.spec_occ(self.n() - 1, a) <= self.n(),
            r > 0 ==> self.spec_occ(r - 1, a) <= self.spec_occ(r, a);
    proof fn mono(&self, l: int, r: int, a: u8)
        requires self.wf(), 0 <= l <= r < self.n()
        ensures self.spec_occ(l, a) <= self.spec_occ(r, a);

    fn occ(&self, r: usize, a: u8) -> (res: usize)
        requires self.wf(), r < self.n()
        ensures res == self.spec_occ(r as int, a);
    fn less(&self, a: u8) -> (res: usize)
        requires self.wf()
        ensures res == self.spec_less(a);
    fn bwt(&self) -> (res: &BWT)
        requires self.wf()
        ensures res.len() == self.n();

    fn backward_search(
        &self,
        pattern: &[u8],
    ) -> (res: BackwardSearchResult)
        requires self.wf(), 1 <= self.n() < 0x7fff_ffff_ffff_ffff,
            forall|i: int| 0 <= i < pattern.len() ==> self.spec_less(#[trigger] pattern[i]) >= 1,
        ensures ({ let ix = Ix { less: |a: u8| self.spec_less(a), occ: |r: int, a: u8| self.spec_occ(r, a), n: self.n() };
            match res {
                BackwardSearchResult::Complete(iv) => alive(ix, pattern@, pattern.len() as int) && pattern.len() >= 1
                    && iv.lower == bs(ix, pattern@, pattern.len() as int).0 && iv.upper == bs(ix, pattern@, pattern.len() as int).1 + 1,
                BackwardSearchResult::Partial(iv, k) => 1 <= k < pattern.len() && alive(ix, pattern@, k as int) && !nonempty(ix, pattern@, k + 1)
                    && iv.lower == bs(ix, pattern@, k as int).0 && iv.upper == bs(ix, pattern@, k as int).1 + 1,
                BackwardSearchResult::Absent => pattern.len() == 0 || !nonempty(ix, pattern@, 1),
            } })
    {
        let ghost ix = Ix { less: |a: u8| self.spec_less(a), occ: |r: int, a: u8| self.spec_occ(r, a), n: self.n() };
        let (mut l, mut r) = (0, self.bwt().len() - 1);
        // to keep track of the last "valid" search interval if
        // there is any valid suffix match.
        let (mut pl, mut pr) = (l, r);

        // the length of the suffix we have been able to match
        // successfully
        let mut matched_len = 0;
        // track if we exit early or not due to an empty
        // search interval.
        let mut complete_match = true;

        proof { assert(bs(ix, pattern@, 0) == (0int, self.n() - 1)); }
        let mut __i = pattern.len();
        while __i > 0
            invariant_except_break
                complete_match,
                matched_len == pattern.len() - __i,
                (l as int, r as int) == bs(ix, pattern@, matched_len as int),
                l <= r < self.n(),
            invariant self.wf(), 1 <= self.n() < 0x7fff_ffff_ffff_ffff, __i <= pattern.len(),
                ix.n == self.n(), forall|a: u8| #[trigger] (ix.less)(a) == self.spec_less(a), forall|r: int, a: u8| #[trigger] (ix.occ)(r, a) == self.spec_occ(r, a),
                forall|i: int| 0 <= i < pattern.len() ==> self.spec_less(#[trigger] pattern[i]) >= 1,
                alive(ix, pattern@, matched_len as int),
                matched_len <= pattern.len(),
            ensures
                complete_match ==> __i == 0 && matched_len == pattern.len() && alive(ix, pattern@, matched_len as int) && (l as int, r as int) == bs(ix, pattern@, matched_len as int) && l <= r < self.n(),
                !complete_match ==> matched_len < pattern.len() && alive(ix, pattern@, matched_len as int) && !nonempty(ix, pattern@, matched_len + 1)
                    && (pl as int, pr as int) == bs(ix, pattern@, matched_len as int) && pl <= pr < self.n(),
            decreases __i
        {
            __i -= 1; let a = pattern[__i];
            let less = self.less(a);
            pl = l;
            pr = r;
            proof { self.bounds(r as int, a); self.bounds(self.n() - 1, a); if l > 0 { self.bounds(l as int - 1, a); } self.bounds(l as int, a); self.mono(l as int, r as int, a); self.mono(r as int, self.n() - 1, a); if l > 0 { self.mono(l as int - 1, r as int, a); } }
            l = less + if l > 0 { self.occ(l - 1, a) } else { 0 };
            r = less + self.occ(r, a) - 1;
            proof {
                let k = matched_len as int + 1; let p = pattern@;
                assert(p[p.len() - k] == a);
                assert((ix.less)(a) == self.spec_less(a));
                assert((ix.occ)(pr as int, a) == self.spec_occ(pr as int, a));
                if pl > 0 { assert((ix.occ)(pl as int - 1, a) == self.spec_occ(pl as int - 1, a)); }
                assert(bs(ix, p, k) == (lf_l(ix, bs(ix, p, k - 1).0, a), lf_r(ix, bs(ix, p, k - 1).1, a)));
                assert(bs(ix, p, k) == (l as int, r as int));
            }

            // The symbol was not found if we end up with an empty interval.
            // Terminate the LF-mapping process. In this case, also mark that
            // we do not have a complete match.
            if l > r {
                complete_match = false;
                break;
            }
            matched_len += 1;
        }

        // if we matched at least 1 character
        if matched_len > 0 {
            // if we matched the full pattern length we
            // have a complete match
            if complete_match {
                BackwardSearchResult::Complete(Interval {
                    lower: l,
                    upper: r + 1,
                })
            } else {
                // if we matched less than the full pattern length, we have
                // a partial suffix match
                BackwardSearchResult::Partial(
                    Interval {
                        lower: pl,
                        upper: pr + 1,
                    },
                    matched_len,
                )
            }
        } else {
            // if we matched nothing we have an absent result
            BackwardSearchResult::Absent
        }
    }
}
}
fn main() {}

use vstd::prelude::*;
use vstd::std_specs::cmp::*;
verus! {
global size_of usize == 8;
pub type TextSlice<'a> = &'a [u8];

// ---------------- spec prelude ----------------
pub open spec fn occurs(p: Seq<u8>, t: Seq<u8>, i: int) -> bool {
    0 <= i && i + p.len() <= t.len() && t.subrange(i, i + p.len()) == p
}
/// shift[c] = distance from the last occurrence of c in p[0..m-1) to the end, or m
pub open spec fn shift_ok(shift: Seq<usize>, p: Seq<u8>) -> bool {
    let m = p.len() as int;
    &&& shift.len() == 256
    &&& forall|c: int| 0 <= c < 256 ==> 1 <= #[trigger] shift[c] <= m
    &&& forall|j: int| 0 <= j < m - 1 ==> shift[#[trigger] p[j] as int] <= m - 1 - j
}
// ---------------- end prelude ----------------

pub struct Horspool<'a> {
    shift: Vec<usize>,
    m: usize,
    pattern: TextSlice<'a>,
}

impl<'a> Horspool<'a> {
    pub closed spec fn wf(&self) -> bool { self.m == self.pattern@.len() && self.m >= 1 && shift_ok(self.shift@, self.pattern@) }
    pub closed spec fn p(&self) -> Seq<u8> { self.pattern@ }

    pub fn new(pattern: TextSlice<'a>) -> (r: Self)
        requires pattern.len() >= 1
        ensures r.wf(), r.p() == pattern@
    {
        let m = pattern.len();
        let mut shift = vec![m; 256];
        // shift is m for all not occurring characters
        // and m - 1 - j for all others
        for j in 0..pattern[..m - 1].len()
            invariant m == pattern.len(), m >= 1, shift.len() == 256,
                forall|c: int| 0 <= c < 256 ==> 1 <= #[trigger] shift[c] <= m,
                forall|jj: int| 0 <= jj < j ==> shift[#[trigger] pattern@[jj] as int] <= m - 1 - jj,
        { let a = pattern[..m - 1][j];
            shift[a as usize] = m - 1 - j;
        }

        Horspool { m, shift, pattern }
    }
}

pub struct Matches<'a> {
    horspool: &'a Horspool<'a>,
    text: TextSlice<'a>,
    n: usize,
    last: usize,
    pattern_last: u8,
}

/// an occurrence ending (inclusive) at text index e forces shift[t[l]] <= e - l for every l < e inside it
proof fn lemma_shift(shift: Seq<usize>, p: Seq<u8>, t: Seq<u8>, l: int, e: int)
    requires shift_ok(shift, p), p.len() >= 1, 0 <= l < e, e - l < p.len(), occurs(p, t, e + 1 - p.len())
    ensures shift[t[l] as int] <= e - l
{
    let m = p.len() as int; let x = e + 1 - m; let j = l - x;
    assert(t.subrange(x, x + m)[j] == p[j]);
    assert(t[l] == p[j]);
    assert(0 <= j < m - 1);
}

impl<'a> Matches<'a> {
    pub closed spec fn wf(&self) -> bool {
        &&& self.horspool.wf()
        &&& self.n == self.text@.len() && self.n < 0x3fff_ffff_ffff_0000
        &&& self.pattern_last == self.horspool.pattern@[self.horspool.m - 1]
        &&& self.last >= self.horspool.m - 1
        &&& (self.last < self.n || self.last == self.horspool.m - 1 || self.last < 0x7fff_ffff_ffff_0000)
        &&& (self.last >= self.n ==> (self.last < 2 * self.n || self.last == self.horspool.m - 1))
    }
    pub closed spec fn p(&self) -> Seq<u8> { self.horspool.pattern@ }
    pub closed spec fn t(&self) -> Seq<u8> { self.text@ }
    /// first start position not yet decided
    pub closed spec fn frontier(&self) -> int { self.last + 1 - self.horspool.m }

    fn next(&mut self) -> (r: Option<usize>)
        requires old(self).wf()
        ensures final(self).wf(), final(self).p() == old(self).p(), final(self).t() == old(self).t(),
            match r {
                Some(i) => old(self).frontier() <= i < final(self).frontier() && occurs(old(self).p(), old(self).t(), i as int)
                    && (forall|x: int| old(self).frontier() <= x < final(self).frontier() && x != i ==> !occurs(old(self).p(), old(self).t(), x)),
                None => forall|x: int| old(self).frontier() <= x ==> !occurs(old(self).p(), old(self).t(), x),
            }
    {
        let ghost p = self.p(); let ghost t = self.t(); let ghost m = self.horspool.m as int; let ghost f0 = self.frontier();
        loop
            invariant self.wf(), self.p() == p, self.t() == t, m == self.horspool.m, m == p.len(), self.horspool == old(self).horspool, self.text == old(self).text,
                p == old(self).p(), t == old(self).t(), f0 == old(self).frontier(),
                f0 <= self.frontier(),
                forall|x: int| f0 <= x < self.frontier() ==> !occurs(p, t, x),
            decreases (if self.last < self.n { self.n - self.last } else { 0 })
        {
            let ghost l0 = self.last;
            // shift until the last symbol matches
            while self.last < self.n && self.text[self.last] != self.pattern_last
                invariant self.wf(), self.p() == p, self.t() == t, m == self.horspool.m, m == p.len(), self.horspool == old(self).horspool, self.text == old(self).text,
                    f0 <= self.frontier(), self.last >= l0,
                    forall|x: int| f0 <= x < self.frontier() ==> !occurs(p, t, x),
                decreases (if self.last < self.n { self.n - self.last } else { 0 })
            {
                let ghost l = self.last as int;
                proof {
                    let c = t[l]; let sh = self.horspool.shift@[c as int] as int;
                    assert forall|x: int| l + 1 - m <= x < l + sh + 1 - m implies !occurs(p, t, x) by {
                        if occurs(p, t, x) {
                            let e = x + m - 1;
                            if e == l { assert(t.subrange(x, x + m)[m - 1] == p[m - 1]); }
                            else { lemma_shift(self.horspool.shift@, p, t, l, e); }
                        }
                    }
                }
                self.last += self.horspool.shift[self.text[self.last] as usize];
            }
            // stop if end of text is reached
            if self.last >= self.n {
                proof {
                    assert forall|x: int| f0 <= x implies !occurs(p, t, x) by { }
                }
                return None;
            }

            // putative start position
            let i = self.last + 1 - self.horspool.m;
            let j = self.last;

            // shift again (after both match and mismatch, this makes sense)
            proof {
                let l = self.last as int; let c = t[l]; let sh = self.horspool.shift@[c as int] as int;
                assert(c == self.pattern_last);
                assert forall|x: int| l + 1 - m < x < l + sh + 1 - m implies !occurs(p, t, x) by {
                    if occurs(p, t, x) { lemma_shift(self.horspool.shift@, p, t, l, x + m - 1); }
                }
            }
            self.last += self.horspool.shift[self.pattern_last as usize];

            if self.text[i..j] == self.horspool.pattern[..self.horspool.m - 1] {
                proof {
                    let a = t.subrange(i as int, j as int); let b = p.subrange(0, m - 1);
                    assert(a =~= b);
                    assert(t.subrange(i as int, i + m) =~= p) by {
                        assert forall|k: int| 0 <= k < m implies t.subrange(i as int, i + m)[k] == p[k] by {
                            if k < m - 1 { assert(a[k] == b[k]); } else { }
                        }
                    }
                }
                return Some(i);
            }
            proof {
                // mismatch at i: not an occurrence
                if occurs(p, t, i as int) {
                    assert(t.subrange(i as int, j as int) =~= t.subrange(i as int, i + m).subrange(0, m - 1));
                    assert(false);
                }
            }
        }
    }
}
}
fn main() {}

use vstd::prelude::*;
use std::iter::Enumerate;
verus! {
global size_of usize == 8;

// ---- trusted std model: Enumerate over a slice iterator ----
#[verifier::external_type_specification]
#[verifier::external_body]
#[verifier::reject_recursive_types(I)]
pub struct ExEnumerate<I>(Enumerate<I>);
pub uninterp spec fn en_items<I: Iterator>(e: &Enumerate<I>) -> Seq<I::Item>;
pub uninterp spec fn en_pos<I: Iterator>(e: &Enumerate<I>) -> int;
pub assume_specification<I: Iterator> [Enumerate::<I>::next] (e: &mut Enumerate<I>) -> (r: Option<(usize, I::Item)>)
    ensures en_items(final(e)) == en_items(old(e)),
        0 <= en_pos(old(e)) <= en_items(old(e)).len(), en_items(old(e)).len() <= usize::MAX,
        en_pos(old(e)) < en_items(old(e)).len() ==> r == Some((en_pos(old(e)) as usize, en_items(old(e))[en_pos(old(e))])) && en_pos(final(e)) == en_pos(old(e)) + 1,
        en_pos(old(e)) >= en_items(old(e)).len() ==> r is None && en_pos(final(e)) == en_pos(old(e));

type Lps = Vec<usize>;
pub type TextSlice<'a> = &'a [u8];

// ---------------- spec prelude ----------------
/// p[0..k] is a suffix of s (k <= |s|, k <= |p|)
pub open spec fn pre_suf(p: Seq<u8>, s: Seq<u8>, k: int) -> bool {
    0 <= k <= p.len() && k <= s.len() && p.subrange(0, k) == s.subrange(s.len() - k, s.len() as int)
}
/// k is a proper border length of p[0..j]
pub open spec fn border(p: Seq<u8>, j: int, k: int) -> bool {
    0 <= k < j <= p.len() && pre_suf(p, p.subrange(0, j), k)
}
/// lps table correct up to (excluding) index n
pub open spec fn lps_ok(p: Seq<u8>, lps: Seq<usize>, n: int) -> bool {
    forall|i: int| 0 <= i < n ==> border(p, i + 1, #[trigger] lps[i] as int)
        && (forall|k: int| #[trigger] border(p, i + 1, k) ==> k <= lps[i])
}

/// a border of a border is a border
proof fn lemma_border_trans(p: Seq<u8>, j: int, q: int, k: int)
    requires border(p, j, q), border(p, q, k)
    ensures border(p, j, k)
{
    let a = p.subrange(0, j); let b = p.subrange(0, q);
    assert(p.subrange(0, k) =~= b.subrange(0, k));
    assert(b.subrange(q - k, q) =~= a.subrange(j - k, j)) by {
        assert(b =~= a.subrange(j - q, j));
    }
    assert(p.subrange(0, k) =~= a.subrange(j - k, j));
}
/// a shorter border of p[0..j] is a border of any longer border
proof fn lemma_border_of_border(p: Seq<u8>, j: int, q: int, k: int)
    requires border(p, j, q), border(p, j, k), k < q
    ensures border(p, q, k)
{
    let a = p.subrange(0, j); let b = p.subrange(0, q);
    assert(b =~= a.subrange(j - q, j));
    assert(b.subrange(q - k, q) =~= a.subrange(j - k, j));
    assert(p.subrange(0, k) =~= a.subrange(j - k, j));
}
/// extending: k+1 is a border of p[0..i+1] iff k is a border of p[0..i] (or k == 0 trivially) and p[k] == p[i]
proof fn lemma_border_ext(p: Seq<u8>, i: int, k: int)
    requires 0 <= k < i < p.len()
    ensures border(p, i + 1, k + 1) <==> (border(p, i, k) && p[k] == p[i])
{
    let a = p.subrange(0, i + 1); let b = p.subrange(0, i);
    if border(p, i, k) && p[k] == p[i] {
        assert(p.subrange(0, k + 1) =~= p.subrange(0, k).push(p[k]));
        assert(a.subrange(i + 1 - (k + 1), i + 1) =~= b.subrange(i - k, i).push(p[i]));
    }
    if border(p, i + 1, k + 1) {
        let x = p.subrange(0, k + 1); let y = a.subrange(i - k, i + 1);
        assert(x == y);
        assert(x[k] == y[k]);
        assert(p.subrange(0, k) =~= x.subrange(0, k));
        assert(b.subrange(i - k, i) =~= y.subrange(0, k));
    }
}
// ---------------- end prelude ----------------

fn lps(pattern: &[u8]) -> (res: Lps)
    ensures res.len() == pattern.len(), lps_ok(pattern@, res@, pattern.len() as int)
{
    let (m, mut q) = (pattern.len(), 0);
    let mut lps: Lps = vec![0; m];
    proof {
        if m > 0 {
            let p = pattern@;
            assert(border(p, 1, 0)) by { assert(p.subrange(0, 0) =~= p.subrange(0, 1).subrange(1, 1)); }
        }
    }
    for i in 1..m
        invariant
            m == pattern.len(), lps.len() == m,
            m > 0 ==> lps_ok(pattern@, lps@, i as int),
            m > 0 ==> q == lps[i - 1],
            q < i || m == 0,
    {
        let ghost p = pattern@;
        let ghost q0 = q as int;
        while q > 0 && pattern[q] != pattern[i]
            invariant
                1 <= i < m, m == pattern.len(), lps.len() == m, p == pattern@,
                lps_ok(p, lps@, i as int),
                0 <= q < i,
                border(p, i as int, q as int),
                // every border of p[0..i] longer than q fails to extend
                forall|k: int| border(p, i as int, k) && k > q ==> p[k] != p[i as int],
            decreases q
        {
            proof {
                let qq = q as int;
                // lps[q-1] is the longest border of p[0..q]
                assert(border(p, qq, lps[qq - 1] as int));
                lemma_border_trans(p, i as int, qq, lps[qq - 1] as int);
                assert forall|k: int| border(p, i as int, k) && k > lps[qq - 1] implies p[k] != p[i as int] by {
                    if k < qq { lemma_border_of_border(p, i as int, qq, k); }
                }
            }
            q = lps[q - 1];
        }
        let ghost qb = q as int;
        let ghost old_lps = lps@;
        if pattern[q] == pattern[i] {
            q += 1;
        }
        lps[i] = q;
        proof {
            let ii = i as int;
            assert(border(p, ii + 1, 0)) by { assert(p.subrange(0, 0) =~= p.subrange(0, ii + 1).subrange(ii + 1, ii + 1)); }
            lemma_border_ext(p, ii, qb);
            assert(border(p, ii + 1, q as int));
            assert forall|k: int| #[trigger] border(p, ii + 1, k) implies k <= q by {
                if k > 0 {
                    lemma_border_ext(p, ii, k - 1);
                    assert(border(p, ii, k - 1) && p[k - 1] == p[ii]);
                }
            }
            assert forall|j: int| 0 <= j < ii + 1 implies border(p, j + 1, #[trigger] lps@[j] as int)
                && (forall|k: int| #[trigger] border(p, j + 1, k) ==> k <= lps@[j]) by {
                if j < ii { assert(lps@[j] == old_lps[j]); }
            }
        }
    }

    lps
}

pub struct KMP<'a> {
    m: usize,
    lps: Lps,
    pattern: TextSlice<'a>,
}

/// q is the length of the longest prefix of p that is a suffix of s
pub open spec fn sigma(p: Seq<u8>, s: Seq<u8>, q: int) -> bool {
    pre_suf(p, s, q) && forall|k: int| #[trigger] pre_suf(p, s, k) ==> k <= q
}
/// a prefix-suffix of w = p[0..q0]·a of length k+1 comes from a prefix-suffix k of p[0..q0] with p[k] == a
proof fn lemma_ps_ext(p: Seq<u8>, q0: int, a: u8, k: int)
    requires 0 <= q0 <= p.len(), 0 <= k < p.len(), k <= q0
    ensures pre_suf(p, p.subrange(0, q0).push(a), k + 1) <==> (pre_suf(p, p.subrange(0, q0), k) && p[k] == a)
{
    let b = p.subrange(0, q0); let w = b.push(a);
    if pre_suf(p, b, k) && p[k] == a {
        assert(p.subrange(0, k + 1) =~= p.subrange(0, k).push(p[k]));
        assert(w.subrange(w.len() - (k + 1), w.len() as int) =~= b.subrange(q0 - k, q0).push(a));
    }
    if pre_suf(p, w, k + 1) {
        let x = p.subrange(0, k + 1); let y = w.subrange(q0 - k, q0 + 1);
        assert(x == y);
        assert(x[k] == y[k]);
        assert(p.subrange(0, k) =~= x.subrange(0, k));
        assert(b.subrange(q0 - k, q0) =~= y.subrange(0, k));
    }
}
/// prefix-suffixes of p[0..q0] are q0 itself and its borders
proof fn lemma_ps_border(p: Seq<u8>, q0: int, k: int)
    requires 0 <= q0 <= p.len()
    ensures pre_suf(p, p.subrange(0, q0), k) <==> (k == q0 || border(p, q0, k))
{
    let b = p.subrange(0, q0);
    if k == q0 { assert(p.subrange(0, q0) =~= b.subrange(0, q0)); }
}

impl<'a> KMP<'a> {
    pub closed spec fn wf(&self) -> bool {
        self.m == self.pattern@.len() && self.m >= 1 && self.lps@.len() == self.m && lps_ok(self.pattern@, self.lps@, self.m as int)
    }
    pub closed spec fn p(&self) -> Seq<u8> { self.pattern@ }

    fn delta(&self, mut q: usize, a: u8) -> (r: usize)
        requires self.wf(), q <= self.p().len()
        ensures r <= self.p().len(), sigma(self.p(), self.p().subrange(0, q as int).push(a), r as int)
    {
        let ghost p = self.pattern@; let ghost q0 = q as int; let ghost m = self.m as int;
        let ghost w = p.subrange(0, q0).push(a);
        proof {
            assert forall|k: int| k >= 1 && #[trigger] pre_suf(p, w, k) implies k - 1 <= q0 by { }
        }
        while q == self.m || (self.pattern[q] != a && q > 0)
            invariant self.wf(), p == self.pattern@, m == self.m, 0 <= q <= q0 <= m, w == p.subrange(0, q0).push(a),
                q == q0 || border(p, q0, q as int),
                forall|k: int| k >= 1 && #[trigger] pre_suf(p, w, k) ==> k - 1 <= q,
            decreases q
        {
            proof {
                let qq = q as int; let l = self.lps@[qq - 1] as int;
                assert(border(p, qq, l));
                if qq < q0 { lemma_border_trans(p, q0, qq, l); }
                assert forall|k: int| k >= 1 && #[trigger] pre_suf(p, w, k) implies k - 1 <= l by {
                    if k - 1 > l {
                        // k-1 <= q, and k-1 is a prefix-suffix of p[0..q0] with p[k-1] == a
                        lemma_ps_ext(p, q0, a, k - 1);
                        lemma_ps_border(p, q0, k - 1);
                        if k - 1 == qq {
                            // q == m is impossible for k <= m; otherwise p[q] != a contradicts
                            assert(qq < m);
                        } else {
                            // k-1 < q: a shorter prefix-suffix of p[0..q0] is a border of p[0..q]
                            if qq == q0 { assert(border(p, qq, k - 1)); } else { lemma_border_of_border(p, q0, qq, k - 1); }
                        }
                    }
                }
            }
            q = self.lps[q - 1];
        }
        proof {
            let qq = q as int;
            lemma_ps_ext(p, q0, a, qq);
            lemma_ps_border(p, q0, qq);
            assert(pre_suf(p, w, 0)) by { assert(p.subrange(0, 0) =~= w.subrange(w.len() as int, w.len() as int)); }
            if p[qq] != a {
                assert forall|k: int| #[trigger] pre_suf(p, w, k) implies k <= 0 by {
                    if k >= 1 { lemma_ps_ext(p, q0, a, k - 1); }
                }
            }
        }
        if self.pattern[q] == a {
            q += 1;
        }

        q
    }
}

pub struct Matches<'a> {
    kmp: &'a KMP<'a>,
    q: usize,
    text: Enumerate<std::slice::Iter<'a, u8>>,
}

pub open spec fn deref_seq(t: Seq<&u8>) -> Seq<u8> { Seq::new(t.len(), |i: int| *t[i]) }
pub open spec fn occurs(p: Seq<u8>, t: Seq<u8>, i: int) -> bool {
    0 <= i && i + p.len() <= t.len() && t.subrange(i, i + p.len()) == p
}
/// index form of pre_suf
pub open spec fn ps_idx(p: Seq<u8>, s: Seq<u8>, k: int) -> bool {
    0 <= k <= p.len() && k <= s.len() && forall|i: int| 0 <= i < k ==> p[i] == #[trigger] s[s.len() - k + i]
}
proof fn lemma_ps_idx(p: Seq<u8>, s: Seq<u8>, k: int)
    ensures pre_suf(p, s, k) <==> ps_idx(p, s, k)
{
    if pre_suf(p, s, k) {
        let x = p.subrange(0, k); let y = s.subrange(s.len() - k, s.len() as int);
        assert forall|i: int| 0 <= i < k implies p[i] == #[trigger] s[s.len() - k + i] by { assert(x[i] == y[i]); }
    }
    if ps_idx(p, s, k) {
        assert forall|i: int| 0 <= i < k implies p.subrange(0, k)[i] == s.subrange(s.len() - k, s.len() as int)[i] by {
            assert(p[i] == s[s.len() - k + i]);
        }
        assert(p.subrange(0, k) =~= s.subrange(s.len() - k, s.len() as int));
    }
}
proof fn lemma_sigma_sound(p: Seq<u8>, s: Seq<u8>, a: u8, q: int, r: int)
    requires pre_suf(p, s, q), pre_suf(p, p.subrange(0, q).push(a), r)
    ensures pre_suf(p, s.push(a), r)
{
    let w = p.subrange(0, q).push(a); let sa = s.push(a);
    lemma_ps_idx(p, s, q); lemma_ps_idx(p, w, r); lemma_ps_idx(p, sa, r);
    assert forall|i: int| 0 <= i < r implies p[i] == #[trigger] sa[sa.len() - r + i] by {
        let j = w.len() - r + i;   // index into w
        assert(p[i] == w[j]);
        if j < q { assert(w[j] == p[j]); assert(p[j] == s[s.len() - q + j]); assert(sa[sa.len() - r + i] == s[s.len() - q + j]); }
        else { assert(w[j] == a); }
    }
}
proof fn lemma_sigma_max(p: Seq<u8>, s: Seq<u8>, a: u8, q: int, k: int)
    requires sigma(p, s, q), pre_suf(p, s.push(a), k), k > 0
    ensures pre_suf(p, p.subrange(0, q).push(a), k)
{
    let w = p.subrange(0, q).push(a); let sa = s.push(a);
    lemma_ps_idx(p, sa, k); lemma_ps_idx(p, s, k - 1); lemma_ps_idx(p, s, q); lemma_ps_idx(p, w, k);
    // k-1 is a prefix-suffix of s
    assert forall|i: int| 0 <= i < k - 1 implies p[i] == #[trigger] s[s.len() - (k - 1) + i] by {
        assert(p[i] == sa[sa.len() - k + i]);
    }
    assert(pre_suf(p, s, k - 1));
    assert(k - 1 <= q);
    assert forall|i: int| 0 <= i < k implies p[i] == #[trigger] w[w.len() - k + i] by {
        let j = w.len() - k + i;
        assert(p[i] == sa[sa.len() - k + i]);
        if j < q { assert(w[j] == p[j]); assert(p[j] == s[s.len() - q + j]); }
        else { assert(w[j] == a); assert(sa[sa.len() - k + i] == a); }
    }
}
/// CLRS 32.3: the longest prefix-suffix of s·a is the longest prefix-suffix of P_q·a, q = sigma(s)
proof fn lemma_sigma_step(p: Seq<u8>, s: Seq<u8>, a: u8, q: int, r: int)
    requires sigma(p, s, q), sigma(p, p.subrange(0, q).push(a), r)
    ensures sigma(p, s.push(a), r)
{
    lemma_sigma_sound(p, s, a, q, r);
    assert forall|k: int| #[trigger] pre_suf(p, s.push(a), k) implies k <= r by {
        if k > 0 { lemma_sigma_max(p, s, a, q, k); }
    }
}

impl<'a> Matches<'a> {
    pub closed spec fn t(&self) -> Seq<u8> { deref_seq(en_items(&self.text)) }
    pub closed spec fn pos(&self) -> int { en_pos(&self.text) }
    pub closed spec fn p(&self) -> Seq<u8> { self.kmp.p() }
    pub closed spec fn wf(&self) -> bool {
        &&& self.kmp.wf()
        &&& 0 <= self.pos() <= self.t().len()
        &&& self.q <= self.p().len()
        &&& sigma(self.p(), self.t().subrange(0, self.pos()), self.q as int)
    }

    fn next(&mut self) -> (r: Option<usize>)
        requires old(self).wf()
        ensures final(self).wf(), final(self).p() == old(self).p(), final(self).t() == old(self).t(),
            old(self).pos() <= final(self).pos(),
            match r {
                Some(i) => occurs(old(self).p(), old(self).t(), i as int) && i + old(self).p().len() == final(self).pos()
                    && old(self).pos() < final(self).pos()
                    && forall|x: int| old(self).pos() < x + old(self).p().len() < final(self).pos() ==> !occurs(old(self).p(), old(self).t(), x),
                None => final(self).pos() == old(self).t().len()
                    && forall|x: int| old(self).pos() < x + old(self).p().len() ==> !occurs(old(self).p(), old(self).t(), x),
            }
    {
        let ghost p = self.p(); let ghost t = self.t(); let ghost m = p.len() as int; let ghost pos0 = self.pos();
        loop
            invariant self.wf(), self.p() == p, self.t() == t, m == p.len(), m == self.kmp.m, self.kmp == old(self).kmp,
                pos0 <= self.pos(), t == old(self).t(), p == old(self).p(), pos0 == old(self).pos(),
                forall|x: int| pos0 < x + m <= self.pos() ==> !occurs(p, t, x),
            ensures self.pos() == t.len(),
            decreases t.len() - self.pos()
        {
            let ghost e0 = self.pos(); let ghost q0 = self.q as int;
            match self.text.next() { Some((i, c)) => {
            self.q = self.kmp.delta(self.q, *c);
            proof {
                assert(i == e0 && *c == t[e0]);
                lemma_sigma_step(p, t.subrange(0, e0), *c, q0, self.q as int);
                assert(t.subrange(0, e0).push(*c) =~= t.subrange(0, e0 + 1));
                // occurrence ending at e0 <=> q == m
                assert forall|x: int| x + m == e0 + 1 implies (occurs(p, t, x) <==> self.q == m) by {
                    let s1 = t.subrange(0, e0 + 1);
                    if occurs(p, t, x) {
                        assert(s1.subrange(s1.len() - m, s1.len() as int) =~= t.subrange(x, x + m));
                        assert(p.subrange(0, m) =~= p);
                        assert(pre_suf(p, s1, m));
                    }
                    if self.q == m {
                        assert(pre_suf(p, s1, m));
                        assert(p.subrange(0, m) =~= p);
                        assert(s1.subrange(s1.len() - m, s1.len() as int) =~= t.subrange(x, x + m));
                    }
                }
            }
            if self.q == self.kmp.m {
                return Some(1 + i - self.kmp.m);
            }
            } None => break }
        }
        proof {
            assert forall|x: int| pos0 < x + m implies !occurs(p, t, x) by { }
        }

        None
    }
}
}
fn main() {}

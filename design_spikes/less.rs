use vstd::prelude::*;
verus! {
global size_of usize == 8;
pub type BWT = Vec<u8>;
pub type Less = Vec<usize>;

// ---------------- spec prelude ----------------
pub open spec fn count(s: Seq<u8>, a: u8) -> nat decreases s.len() {
    if s.len() == 0 { 0 } else { count(s.drop_last(), a) + if s.last() == a { 1nat } else { 0nat } }
}
/// number of symbols of s strictly smaller than c (c may be 256)
pub open spec fn count_lt(s: Seq<u8>, c: int) -> nat decreases s.len() {
    if s.len() == 0 { 0 } else { count_lt(s.drop_last(), c) + if (s.last() as int) < c { 1nat } else { 0nat } }
}
pub open spec fn sum_upto(f: Seq<usize>, c: int) -> int decreases c {
    if c <= 0 { 0 } else { sum_upto(f, c - 1) + f[c - 1] }
}
proof fn lemma_count_bound(s: Seq<u8>, a: u8) ensures count(s, a) <= s.len() decreases s.len() {
    if s.len() > 0 { lemma_count_bound(s.drop_last(), a); }
}
/// sum over symbols < c of their counts == number of symbols < c
proof fn lemma_sum_counts(s: Seq<u8>, f: Seq<usize>, c: int)
    requires 0 <= c <= f.len(), f.len() <= 257, forall|a: int| 0 <= a < f.len() && a < 256 ==> #[trigger] f[a] == count(s, a as u8),
        f.len() == 257 ==> f[256] == 0,
    ensures sum_upto(f, c) == count_lt(s, c)
    decreases s.len(), c
{
    if c == 0 {
        lemma_count_lt_zero(s);
    } else {
        lemma_sum_counts(s, f, c - 1);
        lemma_count_lt_step(s, c - 1);
    }
}
proof fn lemma_count_lt_zero(s: Seq<u8>) ensures count_lt(s, 0) == 0 decreases s.len() {
    if s.len() > 0 { lemma_count_lt_zero(s.drop_last()); }
}
proof fn lemma_count_lt_step(s: Seq<u8>, c: int)
    requires 0 <= c
    ensures count_lt(s, c + 1) == count_lt(s, c) + (if c < 256 { count(s, c as u8) } else { 0 })
    decreases s.len()
{
    if s.len() > 0 { lemma_count_lt_step(s.drop_last(), c); }
}
proof fn lemma_sum_bound(s: Seq<u8>, c: int) ensures count_lt(s, c) <= s.len() decreases s.len() {
    if s.len() > 0 { lemma_sum_bound(s.drop_last(), c); }
}
// ---------------- end prelude ----------------

pub fn prescan<F: Fn(usize, usize) -> usize>(a: &mut [usize], neutral: usize, op: F)
    requires
        forall|x: usize, y: usize| x + y <= usize::MAX ==> #[trigger] op.requires((x, y)),
        forall|x: usize, y: usize, r: usize| #[trigger] op.ensures((x, y), r) ==> r == x + y,
        neutral + sum_upto(old(a)@, old(a)@.len() as int) <= usize::MAX,
    ensures final(a)@.len() == old(a)@.len(),
        forall|i: int| 0 <= i < old(a)@.len() ==> #[trigger] final(a)@[i] == neutral + sum_upto(old(a)@, i),
{
    let mut s = neutral;
    proof { lemma_sum_mono(old(a)@, 0, old(a)@.len() as int); }
    for __i in 0..a.len()
        invariant a@.len() == old(a)@.len(),
            s == neutral + sum_upto(old(a)@, __i as int),
            forall|i: int| 0 <= i < __i ==> #[trigger] a@[i] == neutral + sum_upto(old(a)@, i),
            forall|i: int| __i <= i < a@.len() ==> #[trigger] a@[i] == old(a)@[i],
            forall|x: usize, y: usize| x + y <= usize::MAX ==> #[trigger] op.requires((x, y)),
            forall|x: usize, y: usize, r: usize| #[trigger] op.ensures((x, y), r) ==> r == x + y,
            neutral + sum_upto(old(a)@, old(a)@.len() as int) <= usize::MAX,
    {
        let t = a[__i];
        proof { lemma_sum_mono(old(a)@, __i as int + 1, old(a)@.len() as int); }
        a[__i] = s;
        s = op(s, t);
    }
}
proof fn lemma_sum_mono(f: Seq<usize>, i: int, j: int)
    requires 0 <= i <= j <= f.len()
    ensures sum_upto(f, i) <= sum_upto(f, j), sum_upto(f, i) >= 0
    decreases j
{
    if i < j { lemma_sum_mono(f, i, j - 1); }
    else { lemma_sum_nonneg(f, i); }
}
proof fn lemma_sum_nonneg(f: Seq<usize>, i: int)
    requires 0 <= i <= f.len()
    ensures sum_upto(f, i) >= 0
    decreases i
{
    if i > 0 { lemma_sum_nonneg(f, i - 1); }
}

pub fn less(bwt: &[u8], m: usize) -> (less: Less)
    requires 2 <= m <= 257, bwt.len() < 0x7fff_ffff_ffff_ffff, forall|i: int| 0 <= i < bwt.len() ==> (#[trigger] bwt[i] as int) < m - 1,
    ensures less@.len() == m, forall|c: int| 0 <= c < m ==> #[trigger] less@[c] == count_lt(bwt@, c),
{
    let mut less: Less = vec![0; m];
    for c in it: bwt.iter()
        invariant less@.len() == m, m <= 257,
            forall|i: int| 0 <= i < bwt.len() ==> (#[trigger] bwt[i] as int) < m - 1,
            forall|a: int| 0 <= a < m && a < 256 ==> #[trigger] less@[a] == count(bwt@.subrange(0, it.index@), a as u8),
            m == 257 ==> less@[256] == 0,
    { let c = *c;
        proof {
            lemma_count_bound(bwt@.subrange(0, it.index@), c);
            assert(bwt@.subrange(0, it.index@ + 1).drop_last() =~= bwt@.subrange(0, it.index@));
        }
        less[c as usize] += 1;
    }
    // calculate +-prescan
    proof {
        assert(bwt@.subrange(0, bwt@.len() as int) =~= bwt@);
        lemma_sum_counts(bwt@, less@, m as int);
        lemma_sum_bound(bwt@, m as int);
        assert forall|c: int| 0 <= c <= m implies sum_upto(less@, c) == count_lt(bwt@, c) by { lemma_sum_counts(bwt@, less@, c); }
    }
    let ghost counts = less@;
    prescan(less.as_mut_slice(), 0, |a: usize, b: usize| -> (r: usize) requires a + b <= usize::MAX ensures r == a + b { a + b });

    less
}
}
fn main() {}

// appended to a scratch copy of src/pattern_matching/myers/simple.rs (see DESIGN.md C09)
#[cfg(kani)]
mod verif_harness {
    use super::*;
    // decode a column: d[0] = 0, d[i] = d[i-1] + pv_bit(i-1) - mv_bit(i-1)
    #[kani::proof]
    #[kani::unwind(10)]
    fn myers_step_u8() {
        let m: usize = kani::any();
        kani::assume(m >= 1 && m <= 8);
        let eq: u8 = kani::any();
        let pv: u8 = kani::any();
        let mv: u8 = kani::any();
        kani::assume(pv & mv == 0);
        // old column
        let mut d = [0i32; 9];
        let mut i = 1;
        while i <= 8 {
            d[i] = d[i - 1] + ((pv >> (i - 1)) & 1) as i32 - ((mv >> (i - 1)) & 1) as i32;
            i += 1;
        }
        let mut i = 1;
        while i <= 8 { if i <= m { kani::assume(d[i] >= 0); } i += 1; }
        kani::assume(d[m] <= 200);
        let mut myers: Myers<u8> = Myers {
            peq: [0u8; 256],
            bound: 1u8 << (m - 1),
            m: m as u8,
            states_store: vec![],
        };
        myers.peq[0] = eq;
        let mut st = State { pv, mv, dist: d[m] as u8 };
        myers._step(&mut st, 0);
        // expected new column
        let mut e = [0i32; 9];
        let mut i = 1;
        while i <= 8 {
            let sub = d[i - 1] + if (eq >> (i - 1)) & 1 == 1 { 0 } else { 1 };
            let a = d[i] + 1;
            let b = e[i - 1] + 1;
            let mut v = sub; if a < v { v = a; } if b < v { v = b; }
            e[i] = v;
            i += 1;
        }
        // decode new column up to m
        let mut n = [0i32; 9];
        let mut i = 1;
        while i <= 8 {
            n[i] = n[i - 1] + ((st.pv >> (i - 1)) & 1) as i32 - ((st.mv >> (i - 1)) & 1) as i32;
            i += 1;
        }
        let mut i = 1;
        while i <= 8 { if i <= m { assert!(n[i] == e[i]); } i += 1; }
        assert!(st.dist as i32 == e[m]);
        assert!(st.pv & st.mv == 0);
    }
    #[kani::proof]
    #[kani::unwind(66)]
    fn myers_step_u64() {
        let m: usize = kani::any();
        kani::assume(m >= 1 && m <= 64);
        let eq: u64 = kani::any();
        let pv: u64 = kani::any();
        let mv: u64 = kani::any();
        kani::assume(pv & mv == 0);
        // old column
        let mut d = [0i32; 65];
        let mut i = 1;
        while i <= 64 {
            d[i] = d[i - 1] + ((pv >> (i - 1)) & 1) as i32 - ((mv >> (i - 1)) & 1) as i32;
            i += 1;
        }
        let mut i = 1;
        while i <= 64 { if i <= m { kani::assume(d[i] >= 0); } i += 1; }
        kani::assume(d[m] <= 200);
        let mut myers: Myers<u64> = Myers {
            peq: [0u64; 256],
            bound: 1u64 << (m - 1),
            m: m as u8,
            states_store: vec![],
        };
        myers.peq[0] = eq;
        let mut st = State { pv, mv, dist: d[m] as u8 };
        myers._step(&mut st, 0);
        // expected new column
        let mut e = [0i32; 65];
        let mut i = 1;
        while i <= 64 {
            let sub = d[i - 1] + if (eq >> (i - 1)) & 1 == 1 { 0 } else { 1 };
            let a = d[i] + 1;
            let b = e[i - 1] + 1;
            let mut v = sub; if a < v { v = a; } if b < v { v = b; }
            e[i] = v;
            i += 1;
        }
        // decode new column up to m
        let mut n = [0i32; 65];
        let mut i = 1;
        while i <= 64 {
            n[i] = n[i - 1] + ((st.pv >> (i - 1)) & 1) as i32 - ((st.mv >> (i - 1)) & 1) as i32;
            i += 1;
        }
        let mut i = 1;
        while i <= 64 { if i <= m { assert!(n[i] == e[i]); } i += 1; }
        assert!(st.dist as i32 == e[m]);
        assert!(st.pv & st.mv == 0);
    }
}

use vstd::prelude::*;
verus! {
global size_of usize == 8;
pub assume_specification [usize::pow] (b: usize, e: u32) -> (r: usize)
    requires vstd::arithmetic::power::pow(b as int, e as nat) <= usize::MAX
    ensures r == vstd::arithmetic::power::pow(b as int, e as nat);

pub mod collections {
    use vstd::prelude::*;
    /// trusted stub of the part of std::collections::HashMap used here
    #[verifier::external_body]
    #[verifier::reject_recursive_types(K)]
    #[verifier::reject_recursive_types(V)]
    pub struct HashMap<K, V> { _k: K, _v: V }
    #[verifier::external_body]
    #[verifier::reject_recursive_types(K)]
    #[verifier::reject_recursive_types(V)]
    pub struct VacantEntry<'a, K, V> { _k: &'a K, _v: &'a V }
    #[verifier::external_body]
    #[verifier::reject_recursive_types(K)]
    #[verifier::reject_recursive_types(V)]
    pub struct OccupiedEntry<'a, K, V> { _k: &'a K, _v: &'a V }
    pub mod hash_map {
        #[verifier::reject_recursive_types(K)]
        #[verifier::reject_recursive_types(V)]
        pub enum Entry<'a, K, V> { Vacant(super::VacantEntry<'a, K, V>), Occupied(super::OccupiedEntry<'a, K, V>) }
    }
    impl<K, V> HashMap<K, V> {
        #[verifier::external_body]
        pub fn new() -> Self { unimplemented!() }
        #[verifier::external_body]
        pub fn entry(&mut self, k: K) -> hash_map::Entry<'_, K, V> { unimplemented!() }
    }
    impl<'a, K, V> VacantEntry<'a, K, V> {
        #[verifier::external_body]
        pub fn insert(self, v: V) { unimplemented!() }
    }
    impl<'a, K, V> OccupiedEntry<'a, K, V> {
        #[verifier::external_body]
        pub fn get_mut(&mut self) -> &mut V { unimplemented!() }
    }
}
use collections::hash_map::Entry;

pub struct Interval {
    pub start: usize,
    pub stop: usize,
}
pub struct Match {
    pub pattern: Interval,
    pub text: Interval,
    pub count: usize,
}

pub fn matches_core(qgram_positions: &Vec<Vec<usize>>, q: usize, min_count: usize)
    requires q < 100
{
        let mut diagonals = collections::HashMap::new();
        for i in 0..qgram_positions.len() {
            for idx in 0..qgram_positions[i].len() { let p = qgram_positions[i][idx];
                let diagonal = p - i;
                match diagonals.entry(diagonal) {
                    Entry::Vacant(v) => {
                        v.insert(Match {
                            pattern: Interval {
                                start: i,
                                stop: i + q,
                            },
                            text: Interval {
                                start: p,
                                stop: p + q,
                            },
                            count: 1,
                        });
                    }
                    Entry::Occupied(mut o) => {
                        let m = o.get_mut();
                        m.pattern.stop = i + q;
                        m.text.stop = p + q;
                        m.count += 1;
                    }
                }
            }
        }
}
}
fn main() {}

use vstd::prelude::*;
verus! {
global size_of usize == 8;

// ---------------- spec prelude ----------------
/// bit-packed code of a rank sequence, most recent symbol in the low bits, truncated by `mask`
pub open spec fn enc(s: Seq<u8>, bits: u32, mask: usize) -> usize decreases s.len() {
    if s.len() == 0 { 0 } else { (((enc(s.drop_last(), bits, mask) << bits) | (s.last() as usize)) & mask) as usize }
}
pub open spec fn full_mask(q: u32, bits: u32) -> usize { if q * bits >= 64 { usize::MAX } else { ((1usize << ((q * bits) as usize)) - 1) as usize } }
/// the code keeps exactly the last q symbols: field j (from the low end) is s[len-1-j]
pub open spec fn field(x: usize, bits: u32, j: int) -> usize { (x >> ((j * bits) as usize)) & (((1usize << (bits as usize)) - 1) as usize) }

proof fn lemma_push_fields(x: usize, a: usize, bits: usize, qb: usize, j: usize)
    requires 1 <= bits <= 8, qb <= 64, qb % bits == 0 || true, a < (1usize << bits), (j + 1) * bits <= qb, j * bits + bits <= 64,
    ensures ({ let m = if qb >= 64 { usize::MAX } else { ((1usize << qb) - 1) as usize };
               let y = ((x << bits) | a) & m;
               (y >> ((j * bits) as usize)) & (((1usize << bits) - 1) as usize)
                 == (if j == 0 { a } else { (x >> (((j - 1) * bits) as usize)) & (((1usize << bits) - 1) as usize) }) })
{
    let sh = (j * bits) as usize; let shm = if j == 0 { 0usize } else { ((j - 1) * bits) as usize };
    let m = if qb >= 64 { usize::MAX } else { ((1usize << qb) - 1) as usize };
    let fm = ((1usize << bits) - 1) as usize;
    assert(sh + bits <= qb && sh + bits <= 64) by (nonlinear_arith) requires (j + 1) * bits <= qb, j * bits + bits <= 64, sh == j * bits, bits >= 1;
    if j == 0 {
        assert((((x << bits) | a) & m) & fm == a) by (bit_vector)
            requires 1 <= bits <= 8, bits <= qb, qb <= 64, a < (1usize << bits), fm == ((1usize << bits) - 1) as usize,
                m == (if qb >= 64 { 0xffff_ffff_ffff_ffffusize } else { ((1usize << qb) - 1) as usize });
        assert((((x << bits) | a) & m) >> 0usize == ((x << bits) | a) & m) by (bit_vector);
    } else {
        assert((j - 1) * bits >= 0 && (j - 1) * bits + bits == j * bits) by (nonlinear_arith) requires j >= 1, bits >= 1;
        assert(shm + bits == sh);
        assert(((((x << bits) | a) & m) >> sh) & fm == (x >> shm) & fm) by (bit_vector)
            requires 1 <= bits <= 8, sh + bits <= qb, qb <= 64, shm + bits == sh, a < (1usize << bits), fm == ((1usize << bits) - 1) as usize,
                m == (if qb >= 64 { 0xffff_ffff_ffff_ffffusize } else { ((1usize << qb) - 1) as usize });
    }
}
// ---------------- end prelude ----------------

pub struct QGramsCore {
    q: u32,
    bits: u32,
    mask: usize,
    qgram: usize,
}
impl QGramsCore {
    fn qgram_push(&mut self, a: u8)
        requires 1 <= old(self).bits <= 8,
        ensures final(self).q == old(self).q, final(self).bits == old(self).bits, final(self).mask == old(self).mask,
            final(self).qgram == ((old(self).qgram << old(self).bits) | (a as usize)) & old(self).mask,
    {
        self.qgram <<= self.bits;
        self.qgram |= a as usize;
        self.qgram &= self.mask;
    }
}
}
fn main() {}

use vstd::prelude::*;
verus! {
global size_of usize == 8;

// ---------------- spec prelude ----------------
pub open spec fn cnt(c: Seq<usize>, g: int, k: int) -> int decreases k {
    if k <= 0 { 0 } else { cnt(c, g, k - 1) + if c[k - 1] == g { 1int } else { 0int } }
}
proof fn lemma_cnt_bound(c: Seq<usize>, g: int, k: int) requires 0 <= k <= c.len() ensures 0 <= cnt(c, g, k) <= k decreases k {
    if k > 0 { lemma_cnt_bound(c, g, k - 1); }
}
proof fn lemma_cnt_mono(c: Seq<usize>, g: int, i: int, k: int) requires 0 <= i <= k <= c.len() ensures cnt(c, g, i) <= cnt(c, g, k) decreases k {
    if i < k { lemma_cnt_mono(c, g, i, k - 1); }
}
pub open spec fn sum_upto(f: Seq<usize>, c: int) -> int decreases c {
    if c <= 0 { 0 } else { sum_upto(f, c - 1) + f[c - 1] }
}
proof fn lemma_sum_mono(f: Seq<usize>, i: int, j: int)
    requires 0 <= i <= j <= f.len()
    ensures 0 <= sum_upto(f, i) <= sum_upto(f, j)
    decreases j
{
    if i < j { lemma_sum_mono(f, i, j - 1); } else { lemma_sum_nonneg(f, i); }
}
proof fn lemma_sum_nonneg(f: Seq<usize>, i: int) requires 0 <= i <= f.len() ensures sum_upto(f, i) >= 0 decreases i {
    if i > 0 { lemma_sum_nonneg(f, i - 1); }
}
/// sum of all per-code counts (capped or not) is at most the number of codes
proof fn lemma_total(c: Seq<usize>, f: Seq<usize>, m: int, k: int)
    requires 0 <= m <= f.len(), 0 <= k <= c.len(), forall|g: int| 0 <= g < m ==> 0 <= #[trigger] f[g] <= cnt(c, g, k),
        forall|i: int| 0 <= i < k ==> c[i] < f.len(),
    ensures sum_upto(f, m) <= cnt_lt(c, m, k)
    decreases m
{
    if m > 0 { lemma_total(c, f, m - 1, k); lemma_cnt_lt_step(c, m - 1, k); }
    else { lemma_cnt_lt_zero(c, k); }
}
pub open spec fn cnt_lt(c: Seq<usize>, m: int, k: int) -> int decreases k {
    if k <= 0 { 0 } else { cnt_lt(c, m, k - 1) + if (c[k - 1] as int) < m { 1int } else { 0int } }
}
proof fn lemma_cnt_lt_zero(c: Seq<usize>, k: int) ensures cnt_lt(c, 0, k) == 0 decreases k { if k > 0 { lemma_cnt_lt_zero(c, k - 1); } }
proof fn lemma_cnt_lt_step(c: Seq<usize>, m: int, k: int)
    requires m >= 0
    ensures cnt_lt(c, m + 1, k) == cnt_lt(c, m, k) + cnt(c, m, k)
    decreases k
{ if k > 0 { lemma_cnt_lt_step(c, m, k - 1); } }
proof fn lemma_cnt_lt_bound(c: Seq<usize>, m: int, k: int) requires 0 <= k ensures 0 <= cnt_lt(c, m, k) <= k decreases k {
    if k > 0 { lemma_cnt_lt_bound(c, m, k - 1); }
}
/// index of the r-th (0-based) occurrence of g
pub open spec fn is_rth(c: Seq<usize>, g: int, r: int, i: int) -> bool { 0 <= i < c.len() && c[i] == g && cnt(c, g, i) == r }

// trusted model of the q-gram iterator: yields the codes in text order
#[verifier::external_body]
pub struct QG { _p: () }
impl QG {
    pub uninterp spec fn items(&self) -> Seq<usize>;
    pub uninterp spec fn pos(&self) -> int;
    #[verifier::external_body]
    pub fn next(&mut self) -> (r: Option<usize>)
        ensures final(self).items() == old(self).items(), 0 <= old(self).pos() <= old(self).items().len(), old(self).items().len() <= usize::MAX,
            old(self).pos() < old(self).items().len() ==> r == Some(old(self).items()[old(self).pos()]) && final(self).pos() == old(self).pos() + 1,
            old(self).pos() >= old(self).items().len() ==> r is None && final(self).pos() == old(self).pos(),
    { unimplemented!() }
}
#[verifier::external_body]
fn qgrams(Ghost(codes): Ghost<Seq<usize>>) -> (r: QG) ensures r.items() == codes, r.pos() == 0 { unimplemented!() }

/// the slices [address[g], address[g+1]) are disjoint
proof fn lemma_slots_distinct(address: Seq<usize>, codes: Seq<usize>, max_count: int, m: int, g: int, r: int, g2: int, r2: int)
    requires address.len() == m + 1, 0 <= g < m, 0 <= g2 < m,
        forall|h: int| 0 <= h < m ==> 0 <= #[trigger] address[h] <= address[h + 1] && address[h + 1] - address[h] == mcount(codes, h, max_count),
        0 <= r < mcount(codes, g, max_count), 0 <= r2 < mcount(codes, g2, max_count), !(g == g2 && r == r2),
    ensures address[g] + r != address[g2] + r2
{
    if g < g2 { lemma_addr_mono(address, m, g + 1, g2); }
    else if g2 < g { lemma_addr_mono(address, m, g2 + 1, g); }
}
proof fn lemma_addr_mono(address: Seq<usize>, m: int, a: int, b: int)
    requires address.len() == m + 1, 0 <= a <= b <= m, forall|h: int| 0 <= h < m ==> #[trigger] address[h] <= address[h + 1]
    ensures address[a] <= address[b]
    decreases b - a
{
    if a < b { lemma_addr_mono(address, m, a, b - 1); }
}
// ---------------- end prelude ----------------

pub fn prescan<F: Fn(usize, usize) -> usize>(a: &mut [usize], neutral: usize, op: F)
    requires
        forall|x: usize, y: usize| x + y <= usize::MAX ==> #[trigger] op.requires((x, y)),
        forall|x: usize, y: usize, r: usize| #[trigger] op.ensures((x, y), r) ==> r == x + y,
        neutral + sum_upto(old(a)@, old(a)@.len() as int) <= usize::MAX,
    ensures final(a)@.len() == old(a)@.len(),
        forall|i: int| 0 <= i < old(a)@.len() ==> #[trigger] final(a)@[i] == neutral + sum_upto(old(a)@, i),
{
    let mut s = neutral;
    proof { lemma_sum_mono(old(a)@, 0, old(a)@.len() as int); }
    for __i in 0..a.len()
        invariant a@.len() == old(a)@.len(),
            s == neutral + sum_upto(old(a)@, __i as int),
            forall|i: int| 0 <= i < __i ==> #[trigger] a@[i] == neutral + sum_upto(old(a)@, i),
            forall|i: int| __i <= i < a@.len() ==> #[trigger] a@[i] == old(a)@[i],
            forall|x: usize, y: usize| x + y <= usize::MAX ==> #[trigger] op.requires((x, y)),
            forall|x: usize, y: usize, r: usize| #[trigger] op.ensures((x, y), r) ==> r == x + y,
            neutral + sum_upto(old(a)@, old(a)@.len() as int) <= usize::MAX,
    {
        let t = a[__i];
        proof { lemma_sum_mono(old(a)@, __i as int + 1, old(a)@.len() as int); }
        a[__i] = s;
        s = op(s, t);
    }
}

pub struct QGramIndex {
    q: u32,
    address: Vec<usize>,
    pos: Vec<usize>,
}

/// masked count of code g
pub open spec fn mcount(c: Seq<usize>, g: int, max_count: int) -> int {
    if cnt(c, g, c.len() as int) > max_count { 0 } else { cnt(c, g, c.len() as int) }
}

fn with_max_count(q: u32, Ghost(codes): Ghost<Seq<usize>>, qgram_count: usize, max_count: usize) -> (res: QGramIndex)
    requires qgram_count < 0x7fff_ffff_ffff, forall|i: int| 0 <= i < codes.len() ==> #[trigger] codes[i] < qgram_count,
        codes.len() < 0x7fff_ffff_ffff,
    ensures res.address@.len() == qgram_count + 1,
        forall|g: int| 0 <= g < qgram_count ==> 0 <= #[trigger] res.address@[g] <= res.address@[g + 1] <= res.pos@.len()
            && res.address@[g + 1] - res.address@[g] == mcount(codes, g, max_count as int),
        forall|g: int, r: int| 0 <= g < qgram_count && 0 <= r < mcount(codes, g, max_count as int) ==>
            is_rth(codes, g, r, #[trigger] res.pos@[res.address@[g] + r] as int),
{
        let mut address = vec![0; qgram_count + 1];

        // R15: for qgram in ranks.qgrams(q, text.clone())
        let mut __it = qgrams(Ghost(codes));
        loop
            invariant address@.len() == qgram_count + 1, __it.items() == codes, 0 <= __it.pos() <= codes.len(),
                forall|i: int| 0 <= i < codes.len() ==> #[trigger] codes[i] < qgram_count,
                forall|g: int| 0 <= g < qgram_count ==> #[trigger] address@[g] == cnt(codes, g, __it.pos()),
                address@[qgram_count as int] == 0,
            ensures __it.pos() == codes.len(),
            decreases codes.len() - __it.pos()
        { match __it.next() { Some(qgram) => {
            proof { lemma_cnt_bound(codes, qgram as int, __it.pos() - 1); }
            address[qgram] += 1;
        } None => break } }

        let __n = address.len();
        for __j in 0..__n
            invariant address@.len() == qgram_count + 1, __n == qgram_count + 1,
                forall|g: int| 0 <= g < qgram_count && g < __j ==> #[trigger] address@[g] == mcount(codes, g, max_count as int),
                forall|g: int| 0 <= g < qgram_count && g >= __j ==> #[trigger] address@[g] == cnt(codes, g, codes.len() as int),
                address@[qgram_count as int] == 0,
        {
            if address[__j] > max_count {
                // mask qgram
                address[__j] = 0;
            }
        }
        let ghost counts = address@;
        proof {
            assert forall|g: int| 0 <= g < qgram_count + 1 implies 0 <= #[trigger] counts[g] <= cnt(codes, g, codes.len() as int) by {
                lemma_cnt_bound(codes, g, codes.len() as int);
            }
            lemma_total(codes, counts, qgram_count as int + 1, codes.len() as int);
            lemma_cnt_lt_bound(codes, qgram_count as int + 1, codes.len() as int);
        }

        prescan(address.as_mut_slice(), 0, |a: usize, b: usize| -> (r: usize) requires a + b <= usize::MAX ensures r == a + b { a + b });

        proof {
            assert forall|g: int| 0 <= g < qgram_count implies address@[g + 1] - address@[g] == mcount(codes, g, max_count as int) && 0 <= #[trigger] address@[g] by {
                assert(sum_upto(counts, g + 1) == sum_upto(counts, g) + counts[g]);
                lemma_sum_nonneg(counts, g);
            }
        }
        // Address has at least size 1, so unwrap is fine.
        let mut pos = vec![0; *address.last().unwrap()];
        proof {
            assert forall|g: int| 0 <= g < qgram_count implies #[trigger] address@[g + 1] <= pos@.len() by {
                lemma_addr_mono(address@, qgram_count as int, g + 1, qgram_count as int);
            }
        }

        {
            let mut offset = vec![0; qgram_count];
            // R15: for (i, qgram) in ranks.qgrams(q, text).enumerate()
            let mut __it2 = qgrams(Ghost(codes)); let mut i: usize = 0;
            loop
                invariant address@.len() == qgram_count + 1, offset@.len() == qgram_count, __it2.items() == codes, i == __it2.pos(), 0 <= i <= codes.len(),
                    codes.len() < 0x7fff_ffff_ffff,
                    forall|k: int| 0 <= k < codes.len() ==> #[trigger] codes[k] < qgram_count,
                    pos@.len() == address@[qgram_count as int],
                    forall|g: int| 0 <= g < qgram_count ==> 0 <= #[trigger] address@[g] <= address@[g + 1] <= pos@.len()
                        && address@[g + 1] - address@[g] == mcount(codes, g, max_count as int),
                    forall|g: int| 0 <= g < qgram_count ==> #[trigger] offset@[g] == (if mcount(codes, g, max_count as int) == 0 { 0 } else { cnt(codes, g, i as int) }),
                    forall|g: int, r: int| 0 <= g < qgram_count && 0 <= r < offset@[g] ==> is_rth(codes, g, r, #[trigger] pos@[address@[g] + r] as int),
                ensures i == codes.len(),
                decreases codes.len() - i
            { match __it2.next() { Some(qgram) => {
                let a = address[qgram];
                proof {
                    lemma_cnt_mono(codes, qgram as int, i as int + 1, codes.len() as int);
                    lemma_cnt_bound(codes, qgram as int, i as int);
                }
                if address[qgram + 1] - a != 0 {
                    // if not masked, insert positions
                    let ghost pos0 = pos@;
                    pos[a + offset[qgram]] = i;
                    offset[qgram] += 1;
                    proof {
                        let gq = qgram as int; let r0 = cnt(codes, gq, i as int);
                        assert forall|g: int, r: int| 0 <= g < qgram_count && 0 <= r < offset@[g] implies is_rth(codes, g, r, #[trigger] pos@[address@[g] + r] as int) by {
                            if g == gq && r == r0 { }
                            else {
                                // other slots are untouched: distinct (g, r) map to distinct positions
                                lemma_cnt_mono(codes, g, i as int + 1, codes.len() as int);
                                lemma_cnt_mono(codes, g, i as int, i as int + 1);
                                lemma_slots_distinct(address@, codes, max_count as int, qgram_count as int, g, r, gq, r0);
                                assert(pos@[address@[g] + r] == pos0[address@[g] + r]);
                            }
                        }
                    }
                }
                i += 1;
            } None => break } }
            proof {
                assert forall|g: int, r: int| 0 <= g < qgram_count && 0 <= r < mcount(codes, g, max_count as int) implies
                    is_rth(codes, g, r, #[trigger] pos@[address@[g] + r] as int) by { }
            }
        }

        QGramIndex { q, address, pos }
}
}
fn main() {}

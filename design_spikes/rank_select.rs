use vstd::prelude::*;
use vstd::arithmetic::div_mod::*;
use vstd::arithmetic::mul::*;
use std::cmp;
use vstd::std_specs::cmp::*;
use std::ops::Deref;
verus! {
global size_of usize == 8;

// ---------------- trusted stubs ----------------
pub open spec fn bit8(b: u8, i: int) -> nat { if (b >> (i as u8)) & 1 == 1 { 1nat } else { 0nat } }
pub open spec fn popcount8(b: u8) -> nat { bit8(b,0)+bit8(b,1)+bit8(b,2)+bit8(b,3)+bit8(b,4)+bit8(b,5)+bit8(b,6)+bit8(b,7) }
pub assume_specification [u8::count_ones] (b: u8) -> (r: u32) ensures r == popcount8(b);
pub assume_specification [u8::count_zeros] (b: u8) -> (r: u32) ensures r == 8 - popcount8(b);

pub mod bv {
    use vstd::prelude::*;
    /// trusted model of bv::BitVec<u8>: a sequence of bits; block b holds bits 8b..8b+7 (LSB first), padding bits are 0
    #[verifier::external_body]
    #[verifier::reject_recursive_types(B)]
    pub struct BitVec<B> { _p: B }
    impl BitVec<u8> {
        pub uninterp spec fn bits(&self) -> Seq<bool>;
        pub open spec fn bit_or_pad(&self, i: int) -> bool { if 0 <= i < self.bits().len() { self.bits()[i] } else { false } }
        #[verifier::external_body]
        pub fn len(&self) -> (r: u64) ensures r == self.bits().len() { unimplemented!() }
        pub open spec fn block_len_spec(&self) -> nat { (self.bits().len() + 7) / 8 }
        #[verifier::external_body]
        pub fn block_len(&self) -> (r: usize) ensures r == (self.bits().len() + 7) / 8 { unimplemented!() }
        pub uninterp spec fn get_block_spec(&self, b: int) -> u8;
        #[verifier::external_body]
        pub fn get_block(&self, b: usize) -> (r: u8)
            requires b < (self.bits().len() + 7) / 8
            ensures r == self.get_block_spec(b as int), forall|i: int| 0 <= i < 8 ==> (#[trigger] super::bit8(r, i) == 1) == self.bit_or_pad(8 * b + i)
        { unimplemented!() }
        #[verifier::external_body]
        pub fn get_bit(&self, i: u64) -> (r: bool)
            requires i < self.bits().len()
            ensures r == self.bits()[i as int]
        { unimplemented!() }
    }
}
use bv::BitVec;
// ---------------- spec prelude ----------------
/// number of one bits among positions [lo, hi) (padding counts as zero)
pub open spec fn ones(v: &BitVec<u8>, lo: int, hi: int) -> nat decreases hi - lo {
    if hi <= lo { 0 } else { ones(v, lo, hi - 1) + if v.bit_or_pad(hi - 1) { 1nat } else { 0nat } }
}
proof fn ones_bound(v: &BitVec<u8>, lo: int, hi: int)
    requires lo <= hi
    ensures ones(v, lo, hi) <= hi - lo
    decreases hi - lo
{
    if hi > lo { ones_bound(v, lo, hi - 1); }
}
proof fn lemma_ones_split(v: &BitVec<u8>, lo: int, mid: int, hi: int)
    requires lo <= mid <= hi
    ensures ones(v, lo, hi) == ones(v, lo, mid) + ones(v, mid, hi)
    decreases hi - mid
{
    if hi > mid { lemma_ones_split(v, lo, mid, hi - 1); }
}
proof fn lemma_block_ones(v: &BitVec<u8>, b: int, byte: u8, upto: int)
    requires 0 <= upto <= 8, forall|i: int| 0 <= i < 8 ==> (#[trigger] bit8(byte, i) == 1) == v.bit_or_pad(8 * b + i)
    ensures ones(v, 8 * b, 8 * b + upto) == (if upto > 0 { bit8(byte,0) } else { 0 }) + (if upto > 1 { bit8(byte,1) } else { 0 }) + (if upto > 2 { bit8(byte,2) } else { 0 })
        + (if upto > 3 { bit8(byte,3) } else { 0 }) + (if upto > 4 { bit8(byte,4) } else { 0 }) + (if upto > 5 { bit8(byte,5) } else { 0 })
        + (if upto > 6 { bit8(byte,6) } else { 0 }) + (if upto > 7 { bit8(byte,7) } else { 0 })
    decreases upto
{
    if upto > 0 { lemma_block_ones(v, b, byte, upto - 1); assert(bit8(byte, upto - 1) == 1 <==> v.bit_or_pad(8 * b + (upto - 1))); }
}
proof fn lemma_mask_popcount(byte: u8, j: u8)
    requires j < 8
    ensures popcount8(byte & (((2u16 << j) - 1) as u8)) == (if j >= 0 { bit8(byte,0) } else { 0 }) + (if j >= 1 { bit8(byte,1) } else { 0 }) + (if j >= 2 { bit8(byte,2) } else { 0 })
        + (if j >= 3 { bit8(byte,3) } else { 0 }) + (if j >= 4 { bit8(byte,4) } else { 0 }) + (if j >= 5 { bit8(byte,5) } else { 0 })
        + (if j >= 6 { bit8(byte,6) } else { 0 }) + (if j >= 7 { bit8(byte,7) } else { 0 })
{
    let m = ((2u16 << j) - 1) as u8;
    assert(((byte & m) >> 0u8) & 1 == (if j >= 0u8 { (byte >> 0u8) & 1 } else { 0u8 })) by (bit_vector) requires j < 8, m == ((2u16 << j) - 1u16) as u8;
    assert(((byte & m) >> 1u8) & 1 == (if j >= 1u8 { (byte >> 1u8) & 1 } else { 0u8 })) by (bit_vector) requires j < 8, m == ((2u16 << j) - 1u16) as u8;
    assert(((byte & m) >> 2u8) & 1 == (if j >= 2u8 { (byte >> 2u8) & 1 } else { 0u8 })) by (bit_vector) requires j < 8, m == ((2u16 << j) - 1u16) as u8;
    assert(((byte & m) >> 3u8) & 1 == (if j >= 3u8 { (byte >> 3u8) & 1 } else { 0u8 })) by (bit_vector) requires j < 8, m == ((2u16 << j) - 1u16) as u8;
    assert(((byte & m) >> 4u8) & 1 == (if j >= 4u8 { (byte >> 4u8) & 1 } else { 0u8 })) by (bit_vector) requires j < 8, m == ((2u16 << j) - 1u16) as u8;
    assert(((byte & m) >> 5u8) & 1 == (if j >= 5u8 { (byte >> 5u8) & 1 } else { 0u8 })) by (bit_vector) requires j < 8, m == ((2u16 << j) - 1u16) as u8;
    assert(((byte & m) >> 6u8) & 1 == (if j >= 6u8 { (byte >> 6u8) & 1 } else { 0u8 })) by (bit_vector) requires j < 8, m == ((2u16 << j) - 1u16) as u8;
    assert(((byte & m) >> 7u8) & 1 == (if j >= 7u8 { (byte >> 7u8) & 1 } else { 0u8 })) by (bit_vector) requires j < 8, m == ((2u16 << j) - 1u16) as u8;
}

#[derive(Copy, Clone, Eq, PartialEq)]
pub enum SuperblockRank {
    First(u64),
    Some(u64),
}

impl Deref for SuperblockRank {
    type Target = u64;

    fn deref(&self) -> (r: &u64)
        ensures *r == self.value()
    {
        match self {
            SuperblockRank::First(rank) => rank,
            SuperblockRank::Some(rank) => rank,
        }
    }
}
pub assume_specification [<cmp::Ordering as PartialEq>::eq] (a: &cmp::Ordering, b: &cmp::Ordering) -> (r: bool) ensures r == (*a == *b);
impl PartialOrdSpecImpl for SuperblockRank {
    open spec fn obeys_partial_cmp_spec() -> bool { false }
    open spec fn partial_cmp_spec(&self, other: &Self) -> Option<cmp::Ordering> { None }
}
impl OrdSpecImpl for SuperblockRank {
    open spec fn obeys_cmp_spec() -> bool { false }
    open spec fn cmp_spec(&self, other: &Self) -> cmp::Ordering { cmp::Ordering::Equal }
}
impl PartialOrd for SuperblockRank {
    fn partial_cmp(&self, other: &Self) -> Option<cmp::Ordering> {
        Some(self.cmp(other))
    }
}

impl Ord for SuperblockRank {
    fn cmp(&self, other: &Self) -> (r: cmp::Ordering)
        ensures r == (if self.key() < other.key() { cmp::Ordering::Less } else if self.key() == other.key() { cmp::Ordering::Equal } else { cmp::Ordering::Greater })
    {
        let cmp = (**self).cmp(&**other);
        proof {
            let a = self.value(); let b = other.value();
            assert(cmp == (if a < b { cmp::Ordering::Less } else if a == b { cmp::Ordering::Equal } else { cmp::Ordering::Greater }));
        }
        if cmp == cmp::Ordering::Equal {
            match (self, other) {
                (SuperblockRank::First(_), SuperblockRank::Some(_)) => cmp::Ordering::Less,
                (SuperblockRank::Some(_), SuperblockRank::First(_)) => cmp::Ordering::Greater,
                _ => cmp,
            }
        } else {
            cmp
        }
    }
}
impl SuperblockRank {
    pub open spec fn value(&self) -> u64 { match self { SuperblockRank::First(r) => *r, SuperblockRank::Some(r) => *r } }
    pub open spec fn key(&self) -> int { 2 * self.value() + (if self is First { 0int } else { 1int }) }
}

pub struct RankSelect {
    n: usize,
    bits: BitVec<u8>,
    superblocks_1: Vec<SuperblockRank>,
    superblocks_0: Vec<SuperblockRank>,
    s: usize,
    k: usize,
}

impl RankSelect {
    pub closed spec fn wf(&self) -> bool {
        &&& self.n == self.bits.bits().len()
        &&& 1 <= self.k < 0x100_0000 && self.s == self.k * 32
        &&& self.n < 0x7fff_ffff_ffff
        &&& self.superblocks_1.len() * self.s >= self.n
        &&& forall|q: int| 0 <= q < self.superblocks_1.len() ==> (#[trigger] self.superblocks_1[q]).value() == ones(&self.bits, 0, q * self.s)
    }
    pub closed spec fn view(&self) -> Seq<bool> { self.bits.bits() }
    pub closed spec fn ones_upto(&self, hi: int) -> nat { ones(&self.bits, 0, hi) }

    pub fn rank_1(&self, i: u64) -> (r: Option<u64>)
        requires self.wf()
        ensures r == (if i < self.view().len() { Some(self.ones_upto(i as int + 1) as u64) } else { None })
    {
        if i >= self.n as u64 {
            None
        } else {
            let s = i / self.s as u64; // the superblock
            let b = i / 8; // the block
            let j = i % 8; // the bit in the block
            let ghost ss = self.s as int; let ghost ii = i as int; let ghost q = ii / ss;
            proof {
                lemma_fundamental_div_mod(ii, ss); lemma_mod_bound(ii, ss); lemma_div_pos_is_pos(ii, ss);
                lemma_mul_is_commutative(ss, ii / ss);
                // s < number of superblocks
                assert(ii / ss < self.superblocks_1.len()) by {
                    if ii / ss >= self.superblocks_1.len() {
                        assert((ii / ss) * ss >= self.superblocks_1.len() * ss) by (nonlinear_arith) requires ii / ss >= self.superblocks_1.len(), ss >= 1;
                    }
                }
                // superblock start is a multiple of 8 (s = 32k)
                assert(q * ss == 8 * (q * (self.k as int) * 4)) by (nonlinear_arith) requires ss == self.k * 32;
                assert(q * ss / 8 == q * (self.k as int) * 4);
                assert(q * ss <= ii);
                let jj = j as u16;
                assert(2u16 << jj >= 1 && 2u16 << jj <= 256) by (bit_vector) requires jj < 8;
            }
            let mut rank = *self.superblocks_1[s as usize];
            let mask = ((2u16 << j) - 1) as u8;
            proof {
                let bb = b as int; let byte = self.bits.get_block_spec(bb);
                ones_bound(&self.bits, 0, q * ss);
                lemma_mask_popcount(byte, j as u8);
            }
            let ghost r0 = rank;
            rank += (self.bits.get_block(b as usize) & mask).count_ones() as u64;
            let ghost first = (s * self.s as u64 / 8) as int;
            proof {
                let bb = b as int; let byte = self.bits.get_block_spec(bb);
                lemma_block_ones(&self.bits, bb, byte, j as int + 1);
                assert(rank == ones(&self.bits, 0, q * ss) + ones(&self.bits, 8 * bb, ii + 1));
                assert(first == q * (self.k as int) * 4);
                assert(8 * first == q * ss);
            }
            for block in (s * self.s as u64 / 8)..b
                invariant self.wf(), first <= b, b == ii / 8, 8 * first == q * ss, q * ss <= ii < self.n, ss == self.s,
                    first <= block <= b,
                    rank == ones(&self.bits, 0, 8 * (block as int)) + ones(&self.bits, 8 * (b as int), ii + 1),
                    rank <= ii + 1,
            {
                let ghost bb = b as int;
                let b = self.bits.get_block(block as usize);
                proof {
                    lemma_block_ones(&self.bits, block as int, b, 8);
                    lemma_ones_split(&self.bits, 0, 8 * (block as int), 8 * (block as int) + 8);
                    ones_bound(&self.bits, 0, 8 * (block as int) + 8);
                    ones_bound(&self.bits, 8 * bb, ii + 1);
                }
                rank += b.count_ones() as u64;
            }
            proof {
                lemma_ones_split(&self.bits, 0, 8 * (b as int), ii + 1);
            }

            Some(rank)
        }
    }
}

/// R13: trusted stub for `(X as f64 / 8.0).ceil() as usize`
#[verifier::external_body]
fn ceil_div8(x: u64) -> (r: usize)
    requires x < 0x20_0000_0000_0000
    ensures r == (x + 7) / 8
{ unimplemented!() }

/// number of bits equal to t among positions [lo, hi); padding positions count as `false`
pub open spec fn cnt(v: &BitVec<u8>, t: bool, lo: int, hi: int) -> nat decreases hi - lo {
    if hi <= lo { 0 } else { cnt(v, t, lo, hi - 1) + if v.bit_or_pad(hi - 1) == t { 1nat } else { 0nat } }
}
proof fn lemma_cnt_ones(v: &BitVec<u8>, lo: int, hi: int)
    requires lo <= hi
    ensures cnt(v, true, lo, hi) == ones(v, lo, hi), cnt(v, false, lo, hi) == (hi - lo) - ones(v, lo, hi)
    decreases hi - lo
{
    if hi > lo { lemma_cnt_ones(v, lo, hi - 1); }
}

proof fn lemma_cnt_split(v: &BitVec<u8>, t: bool, lo: int, mid: int, hi: int)
    requires lo <= mid <= hi
    ensures cnt(v, t, lo, hi) == cnt(v, t, lo, mid) + cnt(v, t, mid, hi)
    decreases hi - mid
{
    if hi > mid { lemma_cnt_split(v, t, lo, mid, hi - 1); }
}
proof fn lemma_cnt_bound(v: &BitVec<u8>, t: bool, lo: int, hi: int)
    requires lo <= hi
    ensures cnt(v, t, lo, hi) <= hi - lo
    decreases hi - lo
{
    if hi > lo { lemma_cnt_bound(v, t, lo, hi - 1); }
}
proof fn lemma_block_cnt(v: &BitVec<u8>, t: bool, b: int, byte: u8)
    requires forall|i: int| 0 <= i < 8 ==> (#[trigger] bit8(byte, i) == 1) == v.bit_or_pad(8 * b + i)
    ensures cnt(v, t, 8 * b, 8 * b + 8) == (if t { popcount8(byte) } else { (8 - popcount8(byte)) as nat })
{
    lemma_block_ones(v, b, byte, 8);
    lemma_cnt_ones(v, 8 * b, 8 * b + 8);
}
/// number of superblock entries after `block` blocks have been visited
pub open spec fn nsb(block: int, s: int) -> int { if block == 0 { 0 } else { (8 * block - 8) / s + 1 } }
proof fn lemma_nsb(block: int, s: int)
    requires block >= 0, s >= 8, s % 8 == 0
    ensures (8 * block) % s == 0 ==> nsb(block + 1, s) == nsb(block, s) + 1 && nsb(block, s) * s == 8 * block,
        (8 * block) % s != 0 ==> nsb(block + 1, s) == nsb(block, s),
        nsb(block + 1, s) * s >= 8 * block + 8 || true,
{
    let i = 8 * block;
    lemma_fundamental_div_mod(i, s); lemma_mod_bound(i, s);
    lemma_mul_is_commutative(s, i / s);
    if block > 0 {
        lemma_fundamental_div_mod(i - 8, s); lemma_mod_bound(i - 8, s);
        let q = i / s; let r = i % s;
        // r is a multiple of 8
        assert(r % 8 == 0) by {
            lemma_fundamental_div_mod(s, 8); lemma_mul_is_commutative(8, s / 8);
            assert(q * s == 8 * (q * (s / 8))) by (nonlinear_arith) requires s == 8 * (s / 8);
            assert(r == 8 * block - 8 * (q * (s / 8)));
            assert(r == 8 * (block - q * (s / 8)));
            lemma_mod_multiples_basic(block - q * (s / 8), 8);
            lemma_mul_is_commutative(8, block - q * (s / 8));
        }
        if r == 0 {
            assert((q - 1) * s == q * s - s) by (nonlinear_arith);
            lemma_fundamental_div_mod_converse(i - 8, s, q - 1, s - 8);
        } else {
            assert(r >= 8);
            lemma_fundamental_div_mod_converse(i - 8, s, q, r - 8);
        }
    }
}

proof fn lemma_mod8(x: int, s: int)
    requires x >= 0, x % 8 == 0, s >= 8, s % 8 == 0
    ensures (x % s) % 8 == 0, x % s <= s - 8
{
    lemma_fundamental_div_mod(x, s); lemma_mod_bound(x, s);
    lemma_fundamental_div_mod(s, 8); lemma_fundamental_div_mod(x, 8);
    let q = x / s; let r = x % s;
    lemma_mul_is_commutative(s, q); lemma_mul_is_commutative(8, s / 8); lemma_mul_is_commutative(8, x / 8);
    assert(q * s == 8 * (q * (s / 8))) by (nonlinear_arith) requires s == 8 * (s / 8);
    assert(r == 8 * (x / 8 - q * (s / 8)));
    lemma_mod_multiples_basic(x / 8 - q * (s / 8), 8);
    lemma_mul_is_commutative(8, x / 8 - q * (s / 8));
    if r > s - 8 { assert(r % 8 == 0); assert(false) by { lemma_fundamental_div_mod(r, 8); lemma_fundamental_div_mod(s, 8); lemma_mod_bound(r, 8); } }
}
fn superblocks(t: bool, n: usize, s: usize, bits: &BitVec<u8>) -> (res: Vec<SuperblockRank>)
    requires n == bits.bits().len(), n < 0x7fff_ffff_ffff, s >= 32, s % 8 == 0, s < 0x7fff_ffff,
    ensures res.len() * s >= n, n >= 1 ==> (res.len() - 1) * s < n && res.len() >= 1,
        forall|q: int| 0 <= q < res.len() ==> (#[trigger] res[q]).value() == cnt(bits, t, 0, q * s),
        forall|q: int| 0 <= q < res.len() ==> ((#[trigger] res[q]) is First <==> (q == 0 || res[q].value() != res[q - 1].value())),
{
    let mut superblocks: Vec<SuperblockRank> = Vec::with_capacity(n / s + 1);
    let mut rank: u64 = 0;
    let mut last_rank: Option<u64> = None;
    let mut i = 0;
    let nblocks = ceil_div8(bits.len());
    for block in 0..nblocks
        invariant n == bits.bits().len(), n < 0x7fff_ffff_ffff, s >= 32, s % 8 == 0, s < 0x7fff_ffff, nblocks == (n + 7) / 8,
            i == 8 * block,
            rank == cnt(bits, t, 0, 8 * (block as int)),
            superblocks.len() == nsb(block as int, s as int),
            forall|q: int| 0 <= q < superblocks.len() ==> (#[trigger] superblocks[q]).value() == cnt(bits, t, 0, q * s),
            forall|q: int| 0 <= q < superblocks.len() ==> ((#[trigger] superblocks[q]) is First <==> (q == 0 || superblocks[q].value() != superblocks[q - 1].value())),
            last_rank == (if superblocks.len() == 0 { None::<u64> } else { Some(superblocks[superblocks.len() - 1].value()) }),
            block > 0 ==> (superblocks.len() - 1) * s <= 8 * (block - 1),
    {
        let b = bits.get_block(block);
        proof {
            lemma_nsb(block as int, s as int);
            lemma_block_cnt(bits, t, block as int, b);
            lemma_cnt_split(bits, t, 0, 8 * (block as int), 8 * (block as int) + 8);
            lemma_cnt_bound(bits, t, 0, 8 * (block as int));
        }
        if i % s == 0 {
            superblocks.push(if Some(rank) != last_rank {
                SuperblockRank::First(rank)
            } else {
                SuperblockRank::Some(rank)
            });
            last_rank = Some(rank);
        }
        rank += if t {
            b.count_ones() as u64
        } else {
            b.count_zeros() as u64
        };
        i += 8;
    }
    proof {
        // enough superblocks to cover n bits
        let nb = nblocks as int; let ss = s as int;
        if nb > 0 {
            let x = 8 * nb - 8;
            lemma_fundamental_div_mod(x, ss); lemma_mod_bound(x, ss);
            lemma_mul_is_commutative(ss, x / ss);
            assert(x % 8 == 0) by { lemma_mod_multiples_basic(nb - 1, 8); lemma_mul_is_commutative(8, nb - 1); }
            lemma_mod8(x, ss);
            let qq = x / ss;
            assert(nsb(nb, ss) == qq + 1);
            assert((qq + 1) * ss == qq * ss + ss) by (nonlinear_arith);
        }
    }

    superblocks
}

pub assume_specification<T: Ord> [std::cmp::min::<T>] (a: T, b: T) -> (r: T)
    ensures T::obeys_cmp_spec() ==> r == (if a.cmp_spec(&b) == core::cmp::Ordering::Greater { b } else { a });
/// trusted: `[T]::binary_search` for T = SuperblockRank, phrased over `key` (the order the real `cmp` implements)
pub assume_specification<T: Ord> [<[T]>::binary_search] (s: &[T], x: &T) -> (r: Result<usize, usize>)
    requires forall|i: int, j: int| 0 <= i <= j < s@.len() ==> sort_key(s@[i]) <= sort_key(s@[j]),
    ensures match r {
        Ok(i) => i < s@.len() && sort_key(s@[i as int]) == sort_key(*x),
        Err(i) => i <= s@.len() && (forall|k: int| 0 <= k < i ==> sort_key(s@[k]) < sort_key(*x)) && (forall|k: int| i <= k < s@.len() ==> sort_key(s@[k]) > sort_key(*x)),
    };
pub uninterp spec fn sort_key<T>(x: T) -> int;
pub broadcast proof fn axiom_sort_key(x: SuperblockRank)
    ensures #[trigger] sort_key(x) == x.key()
{ admit(); }

pub open spec fn tflag<F: Fn(u8) -> bool>(f: F) -> bool { f.ensures((1u8,), true) }
pub open spec fn cntbyte(t: bool, b: u8) -> nat { if t { popcount8(b) } else { (8 - popcount8(b)) as nat } }
/// superblock table for bit value t
pub open spec fn table_ok(v: &BitVec<u8>, t: bool, sb: Seq<SuperblockRank>, s: int) -> bool {
    &&& sb.len() >= 1 && sb.len() * s >= v.bits().len() && (sb.len() - 1) * s < v.bits().len()
    &&& forall|q: int| 0 <= q < sb.len() ==> (#[trigger] sb[q]).value() == cnt(v, t, 0, q * s)
    &&& forall|q: int| 0 <= q < sb.len() ==> ((#[trigger] sb[q]) is First <==> (q == 0 || sb[q].value() != sb[q - 1].value()))
}

proof fn lemma_cnt_mono(v: &BitVec<u8>, t: bool, lo: int, a: int, b: int)
    requires lo <= a <= b
    ensures cnt(v, t, lo, a) <= cnt(v, t, lo, b)
{
    lemma_cnt_split(v, t, lo, a, b);
}
/// keys of a well-formed table are non-decreasing
proof fn lemma_table_sorted(v: &BitVec<u8>, t: bool, sb: Seq<SuperblockRank>, s: int, i: int, j: int)
    requires table_ok(v, t, sb, s), s >= 1, 0 <= i <= j < sb.len()
    ensures sb[i].key() <= sb[j].key()
    decreases j - i
{
    if i < j {
        assert(i * s <= j * s) by (nonlinear_arith) requires i <= j, s >= 1;
        assert(0 <= i * s) by (nonlinear_arith) requires 0 <= i, s >= 1;
        lemma_cnt_mono(v, t, 0, i * s, j * s);
        if sb[i].value() == sb[j].value() && sb[j] is First {
            // then value(j-1) != value(j), but value(i) <= value(j-1) <= value(j)
            assert((j - 1) * s <= j * s && i * s <= (j - 1) * s) by (nonlinear_arith) requires i <= j - 1, s >= 1;
            lemma_cnt_mono(v, t, 0, i * s, (j - 1) * s);
            lemma_cnt_mono(v, t, 0, (j - 1) * s, j * s);
            assert(sb[j - 1].value() == cnt(v, t, 0, (j - 1) * s));
        }
    }
}
/// every t-bit counted in [lo, hi) beyond the vector end is a padding zero; positions < n are real
proof fn lemma_cnt_prefix_total(v: &BitVec<u8>, t: bool, hi: int)
    requires hi >= v.bits().len(), t
    ensures cnt(v, t, 0, hi) == cnt(v, t, 0, v.bits().len() as int)
    decreases hi - v.bits().len()
{
    if hi > v.bits().len() { lemma_cnt_prefix_total(v, t, hi - 1); }
}

pub open spec fn bs_ok(sb: Seq<SuperblockRank>, x: SuperblockRank, i: int) -> bool { 0 <= i < sb.len() && sort_key(sb[i]) == sort_key(x) }
pub open spec fn bs_err(sb: Seq<SuperblockRank>, x: SuperblockRank, i: int) -> bool {
    0 <= i <= sb.len() && (forall|k: int| 0 <= k < i ==> sort_key(#[trigger] sb[k]) < sort_key(x)) && (forall|k: int| i <= k < sb.len() ==> sort_key(#[trigger] sb[k]) > sort_key(x))
}
proof fn lemma_bs_result(v: &BitVec<u8>, t: bool, sb: Seq<SuperblockRank>, s: int, j: u64, i: int)
    requires table_ok(v, t, sb, s), s >= 1, j >= 1, bs_ok(sb, SuperblockRank::First(j), i) || bs_err(sb, SuperblockRank::First(j), i)
    ensures 1 <= i <= sb.len(),
        forall|k: int| 0 <= k < i ==> (#[trigger] sb[k]).value() < j,
        forall|k: int| i <= k < sb.len() ==> (#[trigger] sb[k]).value() >= j,
{
    broadcast use axiom_sort_key;
    let x = SuperblockRank::First(j);
    assert(x.key() == 2 * j);
    assert(sb[0].value() == cnt(v, t, 0, 0 * s));
    assert(0 * s == 0) by (nonlinear_arith);
    assert(sb[0].key() <= 1);
    if bs_ok(sb, x, i) {
            // entries before an exact hit are strictly smaller in key (sortedness), entries after are >=
            assert forall|k: int| 0 <= k < i implies (#[trigger] sb[k]).value() < j by {
                lemma_table_sorted(v, t, sb, s, k, i);
                // key(k) <= key(i) == 2j; equality impossible: two First entries with the same value
                if sb[k].key() == 2 * j {
                    // sb[k] is First(j) and sb[i] is First(j), k < i: but First means value differs from predecessor
                    assert(sb[i] is First);
                    assert(i * s >= (i - 1) * s && (i - 1) * s >= k * s && k * s >= 0) by (nonlinear_arith) requires 0 <= k <= i - 1, s >= 1;
                    lemma_cnt_mono(v, t, 0, k * s, (i - 1) * s);
                    lemma_cnt_mono(v, t, 0, (i - 1) * s, i * s);
                    assert(sb[i - 1].value() == cnt(v, t, 0, (i - 1) * s));
                }
            }
            assert forall|k: int| i <= k < sb.len() implies (#[trigger] sb[k]).value() >= j by {
                lemma_table_sorted(v, t, sb, s, i, k);
            }
    } else {
            assert forall|k: int| 0 <= k < i implies (#[trigger] sb[k]).value() < j by { assert(sort_key(sb[k]) < 2 * j); }
            assert forall|k: int| i <= k < sb.len() implies (#[trigger] sb[k]).value() >= j by { assert(sort_key(sb[k]) > 2 * j); }
    }
}

proof fn lemma_table_sorted_all(v: &BitVec<u8>, t: bool, sb: Seq<SuperblockRank>, s: int)
    requires table_ok(v, t, sb, s), s >= 1
    ensures forall|a: int, b: int| 0 <= a <= b < sb.len() ==> sort_key(sb[a]) <= sort_key(sb[b])
{
    assert forall|a: int, b: int| 0 <= a <= b < sb.len() implies sort_key(sb[a]) <= sort_key(sb[b]) by {
        lemma_table_sorted(v, t, sb, s, a, b);
        axiom_sort_key(sb[a]); axiom_sort_key(sb[b]);
    }
}
/// one more bit: cnt over [0, p+1) from cnt over [0, p)
proof fn lemma_cnt_step(v: &BitVec<u8>, t: bool, p: int)
    requires p >= 0
    ensures cnt(v, t, 0, p + 1) == cnt(v, t, 0, p) + (if v.bit_or_pad(p) == t { 1nat } else { 0nat })
{
}
proof fn lemma_bit_test(b: u8, i: u8)
    requires i < 8
    ensures ((b & (1u8 << i)) != 0) == (bit8(b, i as int) == 1)
{
    assert(((b & (1u8 << i)) != 0) == ((b >> i) & 1 == 1)) by (bit_vector) requires i < 8;
}
impl RankSelect {
    fn select_x<F: Fn(u8) -> bool, C: Fn(u8) -> u32>(
        &self,
        j: u64,
        superblocks: &[SuperblockRank],
        is_match: F,
        count_all: C,
    ) -> (r: Option<u64>)
        requires self.wf(), table_ok(&self.bits, tflag(is_match), superblocks@, self.s as int),
            forall|b: u8| #[trigger] count_all.requires((b,)), forall|b: u8, r: u32| #[trigger] count_all.ensures((b,), r) ==> r == cntbyte(tflag(is_match), b),
            forall|x: u8| #[trigger] is_match.requires((x,)), forall|x: u8, r: bool| #[trigger] is_match.ensures((x,), r) ==> r == ((x != 0) == tflag(is_match)),
        ensures match r {
            Some(p) => p < self.view().len() && self.view()[p as int] == tflag(is_match) && cnt(&self.bits, tflag(is_match), 0, p as int + 1) == j,
            None => j == 0 || j > cnt(&self.bits, tflag(is_match), 0, self.view().len() as int),
        }
    {
        if j == 0 {
            return None;
        }
        let ghost t = tflag(is_match); let ghost sbs = superblocks@; let ghost ss = self.s as int; let ghost n = self.n as int;
        proof { lemma_table_sorted_all(&self.bits, t, sbs, ss); }
        let mut superblock = match superblocks.binary_search(&SuperblockRank::First(j)) {
            Ok(i) | Err(i) => i, // superblock with same rank exists
        };
        proof {
            assert(bs_ok(sbs, SuperblockRank::First(j), superblock as int) || bs_err(sbs, SuperblockRank::First(j), superblock as int));
            lemma_bs_result(&self.bits, t, sbs, ss, j, superblock as int);
        }
        superblock = superblock.saturating_sub(1);
        let mut rank = *superblocks[superblock];
        let ghost sb0 = superblock as int;
        proof {
            assert(rank == cnt(&self.bits, t, 0, sb0 * ss));
            assert(sb0 * ss == 8 * (sb0 * (self.k as int) * 4)) by (nonlinear_arith) requires ss == self.k * 32;
            assert(sb0 * ss >= 0) by (nonlinear_arith) requires sb0 >= 0, ss >= 1;
            assert(sb0 * ss <= (sbs.len() - 1) * ss) by (nonlinear_arith) requires sb0 <= sbs.len() - 1, ss >= 1;
        }

        let first_block = superblock * self.s / 8;
        proof { assert(first_block == sb0 * (self.k as int) * 4); assert(8 * first_block == sb0 * ss); assert(8 * first_block < n); assert(first_block < self.bits.block_len_spec()); }
        for block in first_block..cmp::min(first_block + self.s / 8, self.bits.block_len())
            invariant self.wf(), t == tflag(is_match), n == self.n, n == self.bits.bits().len(), ss == self.s, j >= 1,
                table_ok(&self.bits, t, sbs, ss), 8 * first_block == sb0 * ss, 0 <= sb0 < sbs.len(),
                first_block <= block,
                (rank == cnt(&self.bits, t, 0, 8 * (block as int)) && rank < j) || (8 * (block as int) > n && cnt(&self.bits, t, 0, n) < j),
                forall|b: u8| #[trigger] count_all.requires((b,)), forall|b: u8, r: u32| #[trigger] count_all.ensures((b,), r) ==> r == cntbyte(t, b),
                forall|x: u8| #[trigger] is_match.requires((x,)), forall|x: u8, r: bool| #[trigger] is_match.ensures((x,), r) ==> r == ((x != 0) == t),
        {
            let b = self.bits.get_block(block);
            let p = count_all(b) as u64;
            proof {
                lemma_block_cnt(&self.bits, t, block as int, b);
                lemma_cnt_split(&self.bits, t, 0, 8 * (block as int), 8 * (block as int) + 8);
                lemma_cnt_bound(&self.bits, t, 0, 8 * (block as int));
            }
            if rank + p >= j {
                let mut bit = 0b1;
                let max_bit = cmp::min(8, self.bits.len() - block as u64 * 8);
                let ghost r0 = rank;
                proof { assert(1u8 << 0u8 == 1u8) by (bit_vector); lemma_cnt_bound(&self.bits, t, 0, 8 * (block as int)); }
                for i in 0..max_bit
                    invariant self.wf(), t == tflag(is_match), n == self.n, n == self.bits.bits().len(), j >= 1,
                        max_bit <= 8, 8 * (block as int) + max_bit <= n, block < (n + 7) / 8,
                        bit == 1u8 << (i as u8) || i == 8,
                        rank == cnt(&self.bits, t, 0, 8 * (block as int) + i), rank < j,
                        forall|k: int| 0 <= k < 8 ==> (#[trigger] bit8(b, k) == 1) == self.bits.bit_or_pad(8 * (block as int) + k),
                        forall|x: u8| #[trigger] is_match.requires((x,)), forall|x: u8, r: bool| #[trigger] is_match.ensures((x,), r) ==> r == ((x != 0) == t),
                {
                    proof {
                        lemma_bit_test(b, i as u8);
                        lemma_cnt_step(&self.bits, t, 8 * (block as int) + i);
                        lemma_cnt_bound(&self.bits, t, 0, 8 * (block as int) + i);
                        assert(bit8(b, i as int) == 1 <==> self.bits.bit_or_pad(8 * (block as int) + i));
                    }
                    rank += is_match(b & bit) as u64;
                    if rank == j {
                        return Some(block as u64 * 8 + i);
                    }
                    proof { let ii = i as u8; if ii < 7 { assert((1u8 << ii) << 1u8 == 1u8 << ((ii + 1) as u8)) by (bit_vector) requires ii < 7; } }
                    bit <<= 1;
                }
            }
            proof {
                // if the inner scan ran over a full byte without finding the j-th match we have a contradiction;
                // otherwise this was the partial last byte and cnt(0, n) < j is now known
                lemma_cnt_bound(&self.bits, t, 0, 8 * (block as int) + 8);
            }
            rank += p;
        }
        proof {
            let be = if first_block + self.s / 8 <= self.bits.block_len_spec() { (first_block + self.s / 8) as int } else { self.bits.block_len_spec() as int };
            if 8 * be >= n { lemma_cnt_mono(&self.bits, t, 0, n, 8 * be); }
            else {
                // a further superblock exists and already holds >= j
                assert((sb0 + 1) * ss == sb0 * ss + ss) by (nonlinear_arith);
                assert(sbs.len() > sb0 + 1) by { if sbs.len() <= sb0 + 1 { assert(sbs.len() * ss <= (sb0 + 1) * ss) by (nonlinear_arith) requires sbs.len() <= sb0 + 1, ss >= 1; } }
                assert(sbs[sb0 + 1].value() == cnt(&self.bits, t, 0, (sb0 + 1) * ss));
            }
        }

        None
    }
}
}
fn main() {}

use vstd::prelude::*;
use std::iter::Enumerate;
verus! {
global size_of usize == 8;

// ---- trusted std model: Enumerate over a slice iterator ----
#[verifier::external_type_specification]
#[verifier::external_body]
#[verifier::reject_recursive_types(I)]
pub struct ExEnumerate<I>(Enumerate<I>);
pub uninterp spec fn en_items<I: Iterator>(e: &Enumerate<I>) -> Seq<I::Item>;
pub uninterp spec fn en_pos<I: Iterator>(e: &Enumerate<I>) -> int;
pub assume_specification<I: Iterator> [Enumerate::<I>::next] (e: &mut Enumerate<I>) -> (r: Option<(usize, I::Item)>)
    ensures en_items(final(e)) == en_items(old(e)),
        0 <= en_pos(old(e)) <= en_items(old(e)).len(),
        en_pos(old(e)) < en_items(old(e)).len() ==> r == Some((en_pos(old(e)) as usize, en_items(old(e))[en_pos(old(e))])) && en_pos(final(e)) == en_pos(old(e)) + 1,
        en_pos(old(e)) >= en_items(old(e)).len() ==> r is None && en_pos(final(e)) == en_pos(old(e));

// ---- spec prelude ----
pub open spec fn bit_set(x: u64, j: int) -> bool { (x >> (j as u64)) & 1 == 1 }
pub open spec fn masks_ok(masks: Seq<u64>, p: Seq<u8>, upto: int) -> bool {
    forall|c: int, j: int| 0 <= c < 256 && 0 <= j < 64 ==> (#[trigger] bit_set(masks[c], j) <==> (j < upto && p[j] == c))
}
pub open spec fn prefix_matches(p: Seq<u8>, t: Seq<u8>, i: int, j: int) -> bool {
    // p[0..=j] is a suffix of t[0..=i]
    j <= i && forall|k: int| 0 <= k <= j ==> p[k] == t[i - j + k]
}

proof fn lemma_set_bit(x: u64, bit: u64, k: u64, j: u64)
    requires k < 64, j < 64, bit == 1u64 << k
    ensures ((x | bit) >> j) & 1 == (if j == k { 1 } else { (x >> j) & 1 })
{
    assert(((x | bit) >> j) & 1 == (if j == k { 1 } else { (x >> j) & 1 })) by (bit_vector) requires k < 64, j < 64, bit == 1u64 << k;
}

pub fn masks(pattern: &[u8]) -> (r: ([u64; 256], u64))
    requires 1 <= pattern.len() <= 64
    ensures masks_ok(r.0@, pattern@, pattern.len() as int), r.1 == 1u64 << ((pattern.len() - 1) as u64)
{
    let mut masks = [0; 256];

    let mut bit = 1;
    let mut accept = 0;
    proof {
        assert forall|c: int, j: int| 0 <= c < 256 && 0 <= j < 64 implies (#[trigger] bit_set(masks@[c], j) <==> (j < 0 && pattern@[j] == c)) by {
            let jj = j as u64;
            assert((0u64 >> jj) & 1 == 0) by (bit_vector);
        }
        assert(1u64 == 1u64 << 0u64) by (bit_vector);
    }
    for c in it: pattern.iter()
        invariant
            0 <= it.index@ <= pattern.len(),
            masks_ok(masks@, pattern@, it.index@),
            it.index@ < 64 ==> bit == 1u64 << (it.index@ as u64),
            it.index@ > 0 ==> accept == 1u64 << ((it.index@ - 1) as u64),
            pattern.len() <= 64,
    {
        let ghost old_masks = masks@;
        let ghost idx = it.index@;
        assert(*c == pattern@[idx]);
        masks[*c as usize] |= bit;
        accept = bit;
        bit <<= 1;
        proof {
            let k = idx as u64;
            assert(k < 64);
            assert forall|cc: int, j: int| 0 <= cc < 256 && 0 <= j < 64 implies (#[trigger] bit_set(masks@[cc], j) <==> (j < idx + 1 && pattern@[j] == cc)) by {
                assert(bit_set(old_masks[cc], j) <==> (j < idx && pattern@[j] == cc));
                if cc == *c as int {
                    lemma_set_bit(old_masks[cc], 1u64 << k, k, j as u64);
                    assert(masks@[cc] == old_masks[cc] | (1u64 << k));
                } else {
                    assert(masks@[cc] == old_masks[cc]);
                }
            }
            if k < 63 { assert((1u64 << k) << 1u64 == 1u64 << ((k + 1) as u64)) by (bit_vector) requires k < 63; }
        }
    }

    (masks, accept)
}
}
fn main() {}

use vstd::prelude::*;
use std::iter::Enumerate;
verus! {
global size_of usize == 8;

// ---- trusted std model: Enumerate over a slice iterator ----
#[verifier::external_type_specification]
#[verifier::external_body]
#[verifier::reject_recursive_types(I)]
pub struct ExEnumerate<I>(Enumerate<I>);
pub uninterp spec fn en_items<I: Iterator>(e: &Enumerate<I>) -> Seq<I::Item>;
pub uninterp spec fn en_pos<I: Iterator>(e: &Enumerate<I>) -> int;
pub assume_specification<I: Iterator> [Enumerate::<I>::next] (e: &mut Enumerate<I>) -> (r: Option<(usize, I::Item)>)
    ensures en_items(final(e)) == en_items(old(e)),
        0 <= en_pos(old(e)) <= en_items(old(e)).len(), en_items(old(e)).len() <= usize::MAX,
        en_pos(old(e)) < en_items(old(e)).len() ==> r == Some((en_pos(old(e)) as usize, en_items(old(e))[en_pos(old(e))])) && en_pos(final(e)) == en_pos(old(e)) + 1,
        en_pos(old(e)) >= en_items(old(e)).len() ==> r is None && en_pos(final(e)) == en_pos(old(e));

// ---- spec prelude ----
pub open spec fn bit_set(x: u64, j: int) -> bool { (x >> (j as u64)) & 1 == 1 }
pub open spec fn masks_ok(masks: Seq<u64>, p: Seq<u8>, upto: int) -> bool {
    forall|c: int, j: int| 0 <= c < 256 && 0 <= j < 64 ==> (#[trigger] bit_set(masks[c], j) <==> (j < upto && p[j] == c))
}
pub open spec fn prefix_matches(p: Seq<u8>, t: Seq<u8>, i: int, j: int) -> bool {
    // p[0..=j] is a suffix of t[0..=i]
    j <= i && forall|k: int| 0 <= k <= j ==> p[k] == t[i - j + k]
}

proof fn lemma_set_bit(x: u64, bit: u64, k: u64, j: u64)
    requires k < 64, j < 64, bit == 1u64 << k
    ensures ((x | bit) >> j) & 1 == (if j == k { 1 } else { (x >> j) & 1 })
{
    assert(((x | bit) >> j) & 1 == (if j == k { 1 } else { (x >> j) & 1 })) by (bit_vector) requires k < 64, j < 64, bit == 1u64 << k;
}

pub fn masks(pattern: &[u8]) -> (r: ([u64; 256], u64))
    requires 1 <= pattern.len() <= 64
    ensures masks_ok(r.0@, pattern@, pattern.len() as int), r.1 == 1u64 << ((pattern.len() - 1) as u64)
{
    let mut masks = [0; 256];

    let mut bit = 1;
    let mut accept = 0;
    proof {
        assert forall|c: int, j: int| 0 <= c < 256 && 0 <= j < 64 implies (#[trigger] bit_set(masks@[c], j) <==> (j < 0 && pattern@[j] == c)) by {
            let jj = j as u64;
            assert((0u64 >> jj) & 1 == 0) by (bit_vector);
        }
        assert(1u64 == 1u64 << 0u64) by (bit_vector);
    }
    for c in it: pattern.iter()
        invariant
            0 <= it.index@ <= pattern.len(),
            masks_ok(masks@, pattern@, it.index@),
            it.index@ < 64 ==> bit == 1u64 << (it.index@ as u64),
            it.index@ > 0 ==> accept == 1u64 << ((it.index@ - 1) as u64),
            pattern.len() <= 64,
    {
        let ghost old_masks = masks@;
        let ghost idx = it.index@;
        assert(*c == pattern@[idx]);
        masks[*c as usize] |= bit;
        accept = bit;
        bit <<= 1;
        proof {
            let k = idx as u64;
            assert(k < 64);
            assert forall|cc: int, j: int| 0 <= cc < 256 && 0 <= j < 64 implies (#[trigger] bit_set(masks@[cc], j) <==> (j < idx + 1 && pattern@[j] == cc)) by {
                assert(bit_set(old_masks[cc], j) <==> (j < idx && pattern@[j] == cc));
                if cc == *c as int {
                    lemma_set_bit(old_masks[cc], 1u64 << k, k, j as u64);
                    assert(masks@[cc] == old_masks[cc] | (1u64 << k));
                } else {
                    assert(masks@[cc] == old_masks[cc]);
                }
            }
            if k < 63 { assert((1u64 << k) << 1u64 == 1u64 << ((k + 1) as u64)) by (bit_vector) requires k < 63; }
        }
    }

    (masks, accept)
}

pub struct ShiftAnd {
    m: usize,
    masks: [u64; 256],
    accept: u64,
}

pub struct Matches<'a> {
    shiftand: &'a ShiftAnd,
    active: u64,
    text: Enumerate<std::slice::Iter<'a, u8>>,
}

pub open spec fn occurs(p: Seq<u8>, t: Seq<&u8>, i: int) -> bool {
    0 <= i && i + p.len() <= t.len() && forall|k: int| 0 <= k < p.len() ==> p[k] == *t[i + k]
}
/// p[0..=j] equals the j+1 text symbols ending at index e (inclusive)
pub open spec fn pm(p: Seq<u8>, t: Seq<&u8>, e: int, j: int) -> bool {
    0 <= j <= e < t.len() && j < p.len() && forall|k: int| 0 <= k <= j ==> p[k] == *t[e - j + k]
}
proof fn lemma_step(a: u64, mk: u64, j: u64)
    requires j < 64
    ensures ((((a << 1) | 1) & mk) >> j) & 1 == 1 <==> ((j == 0 || (a >> ((j - 1) as u64)) & 1 == 1) && (mk >> j) & 1 == 1)
{
    assert(((((a << 1) | 1) & mk) >> j) & 1 == 1 <==> ((j == 0 || (a >> ((j - 1) as u64)) & 1 == 1) && (mk >> j) & 1 == 1)) by (bit_vector) requires j < 64;
}
proof fn lemma_acc(active: u64, s: u64)
    requires s < 64
    ensures (active & (1u64 << s) > 0) <==> ((active >> s) & 1 == 1)
{
    assert((active & (1u64 << s) > 0) <==> ((active >> s) & 1 == 1)) by (bit_vector) requires s < 64;
}

impl ShiftAnd {
    pub closed spec fn pat(&self) -> Seq<u8> {
        Seq::new(self.m as nat, |i: int| choose|c: u8| bit_set(self.masks@[c as int], i))
    }
    pub closed spec fn wf(&self) -> bool {
        &&& 1 <= self.m <= 64
        &&& masks_ok(self.masks@, self.pat(), self.m as int)
        &&& self.accept == 1u64 << ((self.m - 1) as u64)
    }
}

impl<'a> Matches<'a> {
    pub closed spec fn t(&self) -> Seq<&'a u8> { en_items(&self.text) }
    pub closed spec fn pos(&self) -> int { en_pos(&self.text) }
    pub closed spec fn p(&self) -> Seq<u8> { self.shiftand.pat() }
    pub closed spec fn wf(&self) -> bool {
        &&& self.shiftand.wf()
        &&& 0 <= self.pos() <= self.t().len()
        &&& forall|j: int| 0 <= j < 64 ==> (#[trigger] bit_set(self.active, j) <==> pm(self.p(), self.t(), self.pos() - 1, j))
    }

    fn next(&mut self) -> (r: Option<usize>)
        requires old(self).wf()
        ensures final(self).wf(), final(self).p() == old(self).p(), final(self).t() == old(self).t(),
            old(self).pos() <= final(self).pos(),
            match r {
                // i is an occurrence ending exactly at the new position; none ended in between
                Some(i) => occurs(old(self).p(), old(self).t(), i as int) && i + old(self).p().len() == final(self).pos()
                    && old(self).pos() < final(self).pos()
                    && forall|x: int| old(self).pos() < x + old(self).p().len() < final(self).pos() ==> !occurs(old(self).p(), old(self).t(), x),
                None => final(self).pos() == old(self).t().len()
                    && forall|x: int| old(self).pos() < x + old(self).p().len() ==> !occurs(old(self).p(), old(self).t(), x),
            }
    {
        let ghost p = self.p(); let ghost t = self.t(); let ghost m = self.shiftand.m as int; let ghost pos0 = self.pos();
        loop
            invariant self.wf(), self.p() == p, self.t() == t, m == self.shiftand.m, p.len() == m, self.shiftand == old(self).shiftand,
                pos0 <= self.pos(), t == old(self).t(), p == old(self).p(), pos0 == old(self).pos(),
                forall|x: int| pos0 < x + m <= self.pos() ==> !occurs(p, t, x),
            ensures self.pos() == t.len(),
            decreases t.len() - self.pos()
        {
            let ghost a0 = self.active; let ghost e0 = self.pos();
            assert(0 <= e0 <= t.len());
            match self.text.next() { Some((i, c)) => {
            self.active = ((self.active << 1) | 1) & self.shiftand.masks[*c as usize];
            proof {
                let mk = self.shiftand.masks@[*c as int];
                assert(en_items(&self.text) == t);
                assert(e0 < t.len());
                assert(en_pos(&self.text) == e0 + 1);
                assert(i == e0);
                assert(c == t[e0]);
                assert forall|j: int| 0 <= j < 64 implies (#[trigger] bit_set(self.active, j) <==> pm(p, t, e0, j)) by {
                    lemma_step(a0, mk, j as u64);
                    assert(bit_set(mk, j) <==> (j < m && p[j] == *c));
                    if j > 0 {
                        assert(bit_set(a0, j - 1) <==> pm(p, t, e0 - 1, j - 1));
                        if pm(p, t, e0 - 1, j - 1) && j < m && p[j] == *c {
                            assert forall|k: int| 0 <= k <= j implies p[k] == *t[e0 - j + k] by { if k < j { assert(p[k] == *t[(e0 - 1) - (j - 1) + k]); } }
                        }
                        if pm(p, t, e0, j) {
                            assert forall|k: int| 0 <= k <= j - 1 implies p[k] == *t[(e0 - 1) - (j - 1) + k] by { assert(p[k] == *t[e0 - j + k]); }
                            assert(p[j] == *t[e0 - j + j]);
                        }
                    } else {
                        if pm(p, t, e0, 0) { assert(p[0] == *t[e0 - 0 + 0]); }
                    }
                }
                lemma_acc(self.active, (m - 1) as u64);
                // an occurrence ending at e0 (inclusive) is exactly pm(.., e0, m-1)
                assert forall|x: int| x + m == e0 + 1 implies (occurs(p, t, x) <==> pm(p, t, e0, m - 1)) by {
                    if occurs(p, t, x) { assert forall|k: int| 0 <= k <= m - 1 implies p[k] == *t[e0 - (m - 1) + k] by { assert(p[k] == *t[x + k]); } }
                    if pm(p, t, e0, m - 1) { assert forall|k: int| 0 <= k < m implies p[k] == *t[x + k] by { assert(p[k] == *t[e0 - (m - 1) + k]); } }
                }
            }
            proof {
                assert(self.pos() == e0 + 1);
                assert(self.wf());
                assert(bit_set(self.active, m - 1) <==> pm(p, t, e0, m - 1));
                if !bit_set(self.active, m - 1) {
                    assert forall|x: int| pos0 < x + m <= self.pos() implies !occurs(p, t, x) by { }
                }
            }
            if self.active & self.shiftand.accept > 0 {
                proof {
                    assert(pm(p, t, e0, m - 1));
                    assert(occurs(p, t, e0 + 1 - m));
                }
                return Some(i + 1 - self.shiftand.m);
            }
            } None => break }
        }
        proof {
            assert forall|x: int| pos0 < x + m implies !occurs(p, t, x) by { }
        }

        None
    }
}
}
fn main() {}

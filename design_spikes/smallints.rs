use vstd::prelude::*;
verus! {
global size_of usize == 8;

// ---------------- trusted stubs ----------------
pub mod collections {
    use vstd::prelude::*;
    #[verifier::external_body]
    #[verifier::reject_recursive_types(K)]
    #[verifier::reject_recursive_types(V)]
    pub struct BTreeMap<K, V> { _k: K, _v: V }
    impl<V> BTreeMap<usize, V> {
        pub uninterp spec fn view(&self) -> Map<usize, V>;
        #[verifier::external_body]
        pub fn new() -> (r: Self) ensures r@ == Map::<usize, V>::empty() { unimplemented!() }
        #[verifier::external_body]
        pub fn insert(&mut self, k: usize, v: V) -> (r: Option<V>)
            ensures final(self)@ == old(self)@.insert(k, v)
        { unimplemented!() }
        #[verifier::external_body]
        pub fn get(&self, k: &usize) -> (r: Option<&V>)
            ensures r == (if self@.dom().contains(*k) { Some(&self@[*k]) } else { None })
        { unimplemented!() }
    }
}
use collections::BTreeMap;
/// num_traits::cast at the instantiation used by LCPArray
#[verifier::external_body]
pub fn cast_isize_i8(v: isize) -> (r: Option<i8>)
    ensures r == (if -128 <= v <= 127 { Some(v as i8) } else { None })
{ unimplemented!() }
#[verifier::external_body]
pub fn cast_i8_isize(v: i8) -> (r: Option<isize>)
    ensures r == Some(v as isize)
{ unimplemented!() }
// ---------------- end stubs ----------------

pub struct SmallInts {
    smallints: Vec<i8>,
    bigints: BTreeMap<usize, isize>,
}

impl SmallInts {
    pub closed spec fn wf(&self) -> bool {
        forall|i: int| 0 <= i < self.smallints@.len() && self.smallints@[i] == i8::MAX ==> self.bigints@.dom().contains(i as usize)
    }
    pub closed spec fn elem(&self, i: int) -> isize {
        if self.smallints@[i] < i8::MAX { self.smallints@[i] as isize } else { self.bigints@[i as usize] }
    }
    pub closed spec fn view(&self) -> Seq<isize> { Seq::new(self.smallints@.len(), |i: int| self.elem(i)) }

    pub fn get(&self, i: usize) -> (r: Option<isize>)
        requires self.wf()
        ensures r == (if i < self.view().len() { Some(self.view()[i as int]) } else { None })
    {
        if i < self.smallints.len() {
            self.real_value(i, self.smallints[i])
        } else {
            None
        }
    }

    pub fn push(&mut self, v: isize)
        requires old(self).wf()
        ensures final(self).wf(), final(self).view() == old(self).view().push(v)
    {
        let maxv: i8 = i8::MAX;
        match cast_isize_i8(v) {
            Some(v) if v < maxv => self.smallints.push(v),
            _ => {
                let i = self.smallints.len();
                self.smallints.push(maxv);
                self.bigints.insert(i, v);
            }
        }
        proof {
            assert forall|j: int| 0 <= j < self.view().len() implies self.view()[j] == old(self).view().push(v)[j] by { }
            assert(final(self).view() =~= old(self).view().push(v));
        }
    }

    pub fn set(&mut self, i: usize, v: isize)
        requires old(self).wf(), i < old(self).view().len()
        ensures final(self).wf(), final(self).view() == old(self).view().update(i as int, v)
    {
        let maxv: i8 = i8::MAX;
        match cast_isize_i8(v) {
            Some(v) if v < maxv => self.smallints[i] = v,
            _ => {
                self.smallints[i] = maxv;
                self.bigints.insert(i, v);
            }
        }
        proof {
            assert(self.view().len() == old(self).view().len());
            assert(self.smallints@.len() == self.smallints.len());
            assert forall|j: int| 0 <= j < self.view().len() implies self.view()[j] == old(self).view().update(i as int, v)[j] by {
                if j == i as int {
                    assert(self.elem(j) == v);
                } else {
                    assert(self.smallints@[j] == old(self).smallints@[j]);
                    if self.smallints@[j] == i8::MAX { assert(old(self).bigints@.dom().contains(j as usize)); assert(self.bigints@[j as usize] == old(self).bigints@[j as usize]); }
                    assert(self.elem(j) == old(self).elem(j));
                }
            }
            assert(final(self).view() =~= old(self).view().update(i as int, v));
        }
    }

    pub fn len(&self) -> (r: usize) ensures r == self.view().len() {
        self.smallints.len()
    }

    fn real_value(&self, i: usize, v: i8) -> (r: Option<isize>)
        requires self.wf(), i < self.smallints@.len(), v == self.smallints@[i as int]
        ensures r == Some(self.elem(i as int))
    {
        if v < i8::MAX {
            cast_i8_isize(v)
        } else {
            self.bigints.get(&i).cloned()
        }
    }
}
}
fn main() {}

// harness crate over the REAL src/alphabets/{mod,dna,rna,protein}.rs of /repo (included by path; __REPO__ is substituted at run time)
#[macro_use]
extern crate lazy_static;
#[macro_use]
extern crate serde_derive;

#[path = "__REPO__/src/alphabets/mod.rs"]
pub mod alphabets;

#[cfg(kani)]
mod verif_harness {
    use crate::alphabets::{dna, rna};

    fn is_letter(b: u8) -> bool { (b >= b'A' && b <= b'Z') || (b >= b'a' && b <= b'z') }
    fn in_set(b: u8, set: &[u8]) -> bool { let u = if b >= b'a' && b <= b'z' { b - 32 } else { b }; let mut i = 0; let mut r = false; while i < set.len() { if set[i] == u { r = true; } i += 1; } r }

    /// C20: DNA complement is an involution on all 256 bytes, preserves case, maps letters to letters and
    /// leaves bytes outside the IUPAC table unchanged; lower-case twin of every upper-case entry.
    #[kani::proof]
    #[kani::unwind(258)]
    fn dna_complement_all_bytes() {
        let b: u8 = kani::any();
        let c = dna::complement(b);
        assert!(dna::complement(c) == b);
        if b >= b'A' && b <= b'Z' { assert!(c >= b'A' && c <= b'Z'); assert!(dna::complement(b + 32) == c + 32); }
        if b >= b'a' && b <= b'z' { assert!(c >= b'a' && c <= b'z'); }
        if !is_letter(b) || !in_set(b, b"AGCTYRWSKMDVHBN") { assert!(c == b); }
        // the four Watson-Crick pairs
        if b == b'A' { assert!(c == b'T'); }
        if b == b'C' { assert!(c == b'G'); }
        if b == b'G' { assert!(c == b'C'); }
        if b == b'T' { assert!(c == b'A'); }
        if b == b'N' { assert!(c == b'N'); }
    }

    #[kani::proof]
    #[kani::unwind(258)]
    fn rna_complement_all_bytes() {
        let b: u8 = kani::any();
        let c = rna::complement(b);
        assert!(rna::complement(c) == b);
        if b >= b'A' && b <= b'Z' { assert!(c >= b'A' && c <= b'Z'); assert!(rna::complement(b + 32) == c + 32); }
        if b >= b'a' && b <= b'z' { assert!(c >= b'a' && c <= b'z'); }
        if !is_letter(b) || !in_set(b, b"AGCUYRWSKMDVHBNZ") { assert!(c == b); }
        if b == b'A' { assert!(c == b'U'); }
        if b == b'C' { assert!(c == b'G'); }
        if b == b'G' { assert!(c == b'C'); }
        if b == b'U' { assert!(c == b'A'); }
        if b == b'N' { assert!(c == b'N'); }
    }
}

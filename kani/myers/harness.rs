// appended to a scratch copy of src/pattern_matching/myers/simple.rs on every run (see DESIGN.md C09):
// ONE Myers column step (`Myers::<T>::_step`, the real function) against the DP column recurrence, complete for the word width
// (fixed-count loops, unwinding assertions on): for every m in 1..=W, every peq mask, every column with non-negative entries and
// Pv & Mv == 0, the new (Pv, Mv, dist) decode to exactly the recurrence column.
#[cfg(kani)]
mod verif_harness {
    use super::*;
    macro_rules! step_harness {
        ($name:ident, $T:ty, $W:expr, $unwind:expr) => {
            #[kani::proof]
            #[kani::unwind($unwind)]
            fn $name() {
                let m: usize = kani::any();
                kani::assume(m >= 1 && m <= $W);
                let eq: $T = kani::any();
                let pv: $T = kani::any();
                let mv: $T = kani::any();
                kani::assume(pv & mv == 0);
                // old column: d[0] = 0, d[i] = d[i-1] + pv_bit(i-1) - mv_bit(i-1)
                let mut d = [0i32; $W + 1];
                let mut i = 1;
                while i <= $W {
                    d[i] = d[i - 1] + ((pv >> (i - 1)) & 1) as i32 - ((mv >> (i - 1)) & 1) as i32;
                    i += 1;
                }
                let mut i = 1;
                while i <= $W { if i <= m { kani::assume(d[i] >= 0); } i += 1; }
                kani::assume(d[m] <= 200);
                let mut myers: Myers<$T> = Myers {
                    peq: [0; 256],
                    bound: (1 as $T) << (m - 1),
                    m: m as u8,
                    states_store: vec![],
                };
                myers.peq[0] = eq;
                let mut st = State { pv, mv, dist: d[m] as u8 };
                myers._step(&mut st, 0);
                // expected new column (text symbol 0 against the pattern whose match mask is `eq`)
                let mut e = [0i32; $W + 1];
                let mut i = 1;
                while i <= $W {
                    let sub = d[i - 1] + if (eq >> (i - 1)) & 1 == 1 { 0 } else { 1 };
                    let a = d[i] + 1;
                    let b = e[i - 1] + 1;
                    let mut v = sub; if a < v { v = a; } if b < v { v = b; }
                    e[i] = v;
                    i += 1;
                }
                // decode new column up to m
                let mut n = [0i32; $W + 1];
                let mut i = 1;
                while i <= $W {
                    n[i] = n[i - 1] + ((st.pv >> (i - 1)) & 1) as i32 - ((st.mv >> (i - 1)) & 1) as i32;
                    i += 1;
                }
                let mut i = 1;
                while i <= $W { if i <= m { assert!(n[i] == e[i]); } i += 1; }
                assert!(st.dist as i32 == e[m]);
                assert!(st.pv & st.mv == 0);
            }
        };
    }
    step_harness!(myers_step_u8, u8, 8, 10);
    step_harness!(myers_step_u16, u16, 16, 18);
    step_harness!(myers_step_u32, u32, 32, 34);
    step_harness!(myers_step_u64, u64, 64, 66);
}

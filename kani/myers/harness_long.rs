// appended to a scratch copy of src/pattern_matching/myers/long.rs on every run (see DESIGN.md C09):
// ONE block step of the block-based Myers algorithm (`advance_block`, the real function) against the DP column recurrence,
// complete for the word width: for every vertical-delta encoding (Pv & Mv == 0), every match mask, every incoming horizontal
// delta hin in {-1, 0, 1} and every position of the bound bit, the new (Pv, Mv) decode to exactly the recurrence column of the
// block, the returned hout (in {-1, 0, 1}) is the horizontal delta at the bound row, and dist moves by hout (wrapping addition of the
// sign-extended delta, for EVERY old dist).
#[cfg(kani)]
mod verif_harness_long {
    use super::*;
    macro_rules! block_harness {
        ($name:ident, $T:ty, $W:expr, $unwind:expr) => {
            #[kani::proof]
            #[kani::unwind($unwind)]
            fn $name() {
                let eq: $T = kani::any();
                let pv: $T = kani::any();
                let mv: $T = kani::any();
                kani::assume(pv & mv == 0);
                let hin: i8 = kani::any();
                kani::assume(hin >= -1 && hin <= 1);
                let b: usize = kani::any();
                kani::assume(b < $W);
                let dist0: usize = kani::any();
                // old column of the block relative to its top cell: o[0] = 0, o[i] = o[i-1] + pv_bit(i-1) - mv_bit(i-1)
                let mut o = [0i32; $W + 1];
                let mut i = 1;
                while i <= $W {
                    o[i] = o[i - 1] + ((pv >> (i - 1)) & 1) as i32 - ((mv >> (i - 1)) & 1) as i32;
                    i += 1;
                }
                let mut p = Peq { peq: [0 as $T; 256], bound: (1 as $T) << b };
                p.peq[0] = eq;
                let mut st: State<$T, usize> = State { pv, mv, dist: dist0 };
                let hout = advance_block(&mut st, &p, 0, hin);
                // expected new column: top cell moves by hin, below it the edit-distance recurrence
                let mut e = [0i32; $W + 1];
                e[0] = hin as i32;
                let mut i = 1;
                while i <= $W {
                    let sub = o[i - 1] + if (eq >> (i - 1)) & 1 == 1 { 0 } else { 1 };
                    let a = o[i] + 1;
                    let c = e[i - 1] + 1;
                    let mut v = sub; if a < v { v = a; } if c < v { v = c; }
                    e[i] = v;
                    i += 1;
                }
                // decode the new column
                let mut n = [0i32; $W + 1];
                n[0] = hin as i32;
                let mut i = 1;
                while i <= $W {
                    n[i] = n[i - 1] + ((st.pv >> (i - 1)) & 1) as i32 - ((st.mv >> (i - 1)) & 1) as i32;
                    i += 1;
                }
                let mut i = 1;
                while i <= $W { assert!(n[i] == e[i]); i += 1; }
                assert!(st.pv & st.mv == 0);
                assert!(hout as i32 == e[b + 1] - o[b + 1]);
                assert!(hout >= -1 && hout <= 1);
                assert!(st.dist == dist0.wrapping_add(hout as usize));
            }
        };
    }
    block_harness!(myers_block_u8, u8, 8, 10);
    block_harness!(myers_block_u16, u16, 16, 18);
    block_harness!(myers_block_u32, u32, 32, 34);
    block_harness!(myers_block_u64, u64, 64, 66);
}

// harness crate for the REAL myers module: src/pattern_matching/myers/* is copied from /repo's current tree on every run,
// and harness.rs is appended to the copy of simple.rs (the harness needs the private `_step` and the pub(crate) fields).
#[macro_use]
extern crate serde_derive;

pub mod alignment {
    pub use bio_types::alignment::*;
}
pub mod pattern_matching {
    pub mod myers;
}

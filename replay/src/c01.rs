//! C01: pairwise alignment is optimal and its path achieves the reported score (oracle: independent affine-gap DP, path re-scoring, reuse independence)
use crate::util::*;
use bio::alignment::pairwise::{Aligner, Scoring, MIN_SCORE};
use bio::alignment::{Alignment, AlignmentOperation};

const NEG: i64 = -1_000_000_000;

/// best affine-gap score; mode 0 global, 1 semiglobal (x global, y local), 2 local
pub fn reference(x: &[u8], y: &[u8], ms: i64, mm: i64, go: i64, ge: i64, mode: u8) -> i64 {
    let (m, n) = (x.len(), y.len());
    let mut s = vec![vec![NEG; n + 1]; m + 1];
    let mut ii = vec![vec![NEG; n + 1]; m + 1];   // gap consuming x
    let mut dd = vec![vec![NEG; n + 1]; m + 1];   // gap consuming y
    let mut best = NEG;
    for i in 0..=m { for j in 0..=n {
        if i == 0 && j == 0 { s[0][0] = 0; }
        if i > 0 { ii[i][j] = (s[i - 1][j] + go + ge).max(ii[i - 1][j] + ge); }
        if j > 0 { dd[i][j] = (s[i][j - 1] + go + ge).max(dd[i][j - 1] + ge); }
        let mut v = if i == 0 && j == 0 { 0 } else { NEG };
        if i > 0 && j > 0 { v = v.max(s[i - 1][j - 1] + if x[i - 1] == y[j - 1] { ms } else { mm }); }
        v = v.max(ii[i][j]).max(dd[i][j]);
        if mode == 1 && i == 0 { v = v.max(0); }
        if mode == 2 { v = v.max(0); }
        s[i][j] = v;
        if mode == 2 { best = best.max(v); }
        if mode == 1 && i == m { best = best.max(v); }
    } }
    match mode { 0 => s[m][n], _ => best }
}

/// the documented model of `custom`, by brute force: the best affine-gap GLOBAL alignment of a sub-range of x against a sub-range of y plus the
/// clip penalty of every non-empty clipped end; a forbidden clip (MIN_SCORE) is not available
pub fn custom_optimum(x: &[u8], y: &[u8], ms: i64, mm: i64, go: i64, ge: i64, clips: [i64; 4]) -> i64 {
    let forbidden = |c: i64| c <= -800_000_000;
    let mut best = NEG;
    for xs in 0..=x.len() { for xe in xs..=x.len() { for ys in 0..=y.len() { for ye in ys..=y.len() {
        let mut pen = 0i64; let mut ok = true;
        for (nonempty, c) in [(xs > 0, clips[0]), (xe < x.len(), clips[1]), (ys > 0, clips[2]), (ye < y.len(), clips[3])] {
            if nonempty { if forbidden(c) { ok = false; } else { pen += c; } }
        }
        if !ok { continue; }
        let g = reference(&x[xs..xe], &y[ys..ye], ms, mm, go, ge, 0);
        if g + pen > best { best = g + pen; }
    } } } }
    best
}
/// re-score an alignment path and check that it is a real alignment of the reported sub-ranges
pub fn rescore(a: &Alignment, x: &[u8], y: &[u8], ms: i64, mm: i64, go: i64, ge: i64, clips: [i64; 4]) -> Result<i64, String> {
    let (mut i, mut j) = (a.xstart, a.ystart);
    let mut score = 0i64;
    let mut prev = 0u8; // 1 ins, 2 del
    let mut seen_core = false;
    let (mut xpre, mut ypre) = (false, false);
    for op in &a.operations {
        match *op {
            AlignmentOperation::Match | AlignmentOperation::Subst => {
                if i >= x.len() || j >= y.len() { return Err("path runs past the end of a sequence".into()); }
                let eq = x[i] == y[j];
                if eq != (*op == AlignmentOperation::Match) { return Err(format!("{:?} at x[{}]={} y[{}]={}", op, i, x[i], j, y[j])); }
                score += if eq { ms } else { mm };
                i += 1; j += 1; prev = 0; seen_core = true;
            }
            AlignmentOperation::Ins => { if i >= x.len() { return Err("Ins past the end of x".into()); } score += if prev == 1 { ge } else { go + ge }; i += 1; prev = 1; seen_core = true; }
            AlignmentOperation::Del => { if j >= y.len() { return Err("Del past the end of y".into()); } score += if prev == 2 { ge } else { go + ge }; j += 1; prev = 2; seen_core = true; }
            // (a zero-length clip is no clipped end: the documented model charges the penalty of every NON-EMPTY clipped end)
            AlignmentOperation::Xclip(0) | AlignmentOperation::Yclip(0) => { prev = 0; }
            AlignmentOperation::Xclip(k) => { prev = 0;
                if i == a.xstart && !xpre && k == a.xstart { xpre = true; score += clips[0]; }
                else { if i + k != x.len() { return Err(format!("Xclip({}) suffix at x position {} of {}", k, i, x.len())); } score += clips[1]; } }
            AlignmentOperation::Yclip(k) => { prev = 0;
                if j == a.ystart && !ypre && k == a.ystart { ypre = true; score += clips[2]; }
                else { if j + k != y.len() { return Err(format!("Yclip({}) suffix at y position {} of {}", k, j, y.len())); } score += clips[3]; } }
        }
    }
    if i != a.xend || j != a.yend { return Err(format!("path ends at ({}, {}), reported end is ({}, {})", i, j, a.xend, a.yend)); }
    Ok(score)
}

fn check(x: &[u8], y: &[u8], ms: i32, mm: i32, go: i32, ge: i32, warm: &[u8]) -> Result<(), String> {
    let (x, y, warm) = (x.to_vec(), y.to_vec(), warm.to_vec());
    guarded(move || {
        let (msl, mml, gol, gel) = (ms as i64, mm as i64, go as i64, ge as i64);
        let mut used = Aligner::with_scoring(Scoring::from_scores(go, ge, ms, mm));
        // history: use the aligner for something else first
        if !warm.is_empty() { used.local(&warm, &y); used.global(&y, &warm); used.semiglobal(&warm, &warm); }
        for mode in 0..3u8 {
            let mut fresh = Aligner::with_scoring(Scoring::from_scores(go, ge, ms, mm));
            let (a, b) = match mode { 0 => (fresh.global(&x, &y), used.global(&x, &y)), 1 => (fresh.semiglobal(&x, &y), used.semiglobal(&x, &y)), _ => (fresh.local(&x, &y), used.local(&x, &y)) };
            if a.score != b.score || a.operations != b.operations || (a.xstart, a.xend, a.ystart, a.yend) != (b.xstart, b.xend, b.ystart, b.yend) {
                return Err(format!("mode {}: a reused aligner gives {:?} score {}, a fresh one {:?} score {}", mode, b.operations, b.score, a.operations, a.score));
            }
            let want = reference(&x, &y, msl, mml, gol, gel, mode);
            if a.score as i64 != want { return Err(format!("mode {}: score {} but the optimum is {}", mode, a.score, want)); }
            // the wrappers filter clip operations out of the path; re-score the same alignment with the clips still in it (`custom` with the mode's penalties)
            let (xc, yc) = match mode { 0 => (MIN_SCORE, MIN_SCORE), 1 => (MIN_SCORE, 0), _ => (0, 0) };
            let mut c = Aligner::with_scoring(Scoring::from_scores(go, ge, ms, mm).xclip(xc).yclip(yc));
            let u = c.custom(&x, &y);
            if u.score != a.score { return Err(format!("mode {}: wrapper score {} != custom-with-mode-penalties score {}", mode, a.score, u.score)); }
            let strip = |ops: &Vec<AlignmentOperation>| ops.iter().cloned().filter(|o| !matches!(o, AlignmentOperation::Xclip(_) | AlignmentOperation::Yclip(_))).collect::<Vec<_>>();
            if mode > 0 && strip(&u.operations) != a.operations { return Err(format!("mode {}: wrapper path {:?} is not the custom path {:?} without clips", mode, a.operations, u.operations)); }
            let got = rescore(&u, &x, &y, msl, mml, gol, gel, [xc as i64, xc as i64, yc as i64, yc as i64]).map_err(|e| format!("mode {}: {}", mode, e))?;
            if got != u.score as i64 { return Err(format!("mode {}: path {:?} re-scores to {} but the reported score is {}", mode, u.operations, got, u.score)); }
            if mode == 0 && (a.xstart, a.ystart, a.xend, a.yend) != (0, 0, x.len(), y.len()) { return Err("global alignment does not span both sequences".into()); }
            if mode == 1 && (a.xstart, a.xend) != (0, x.len()) { return Err("semiglobal alignment does not span x".into()); }
        }
        // custom with clip penalties: score >= every mode that the penalties allow, path consistent
        let xc = -3; let yc = -2;
        let mut al = Aligner::with_scoring(Scoring::from_scores(go, ge, ms, mm).xclip(xc).yclip(yc));
        let a = al.custom(&x, &y);
        let got = rescore(&a, &x, &y, msl, mml, gol, gel, [xc as i64, xc as i64, yc as i64, yc as i64]).map_err(|e| format!("custom: {}", e))?;
        if got != a.score as i64 { return Err(format!("custom: path {:?} re-scores to {} but the reported score is {}", a.operations, got, a.score)); }
        let g = reference(&x, &y, msl, mml, gol, gel, 0);
        if (a.score as i64) < g { return Err(format!("custom with clips scores {} below the global optimum {}", a.score, g)); }
        // custom with four INDEPENDENT clip penalties chosen by the input (forbidden / free / small): the reported score is the optimum of the
        // documented model (brute force over all sub-ranges) and the path re-scores to it
        if x.len() <= 7 && y.len() <= 7 {
            let pick = |i: usize| -> i32 { match (x.len() * 7 + y.len() * 3 + i * 5 + (ms as usize) + warm.len()) % 4 { 0 => MIN_SCORE, 1 => 0, 2 => -1, _ => -3 } };
            let cl = [pick(0), pick(1), pick(2), pick(3)];
            let mut al = Aligner::with_scoring(Scoring::from_scores(go, ge, ms, mm).xclip_prefix(cl[0]).xclip_suffix(cl[1]).yclip_prefix(cl[2]).yclip_suffix(cl[3]));
            if !warm.is_empty() { al.local(&warm, &x); }
            let a = al.custom(&x, &y);
            let clips = [cl[0] as i64, cl[1] as i64, cl[2] as i64, cl[3] as i64];
            let got = rescore(&a, &x, &y, msl, mml, gol, gel, clips).map_err(|e| format!("custom clips {:?}: {}", cl, e))?;
            if got != a.score as i64 { return Err(format!("custom clips {:?}: path {:?} re-scores to {} but the reported score is {}", cl, a.operations, got, a.score)); }
            let opt = custom_optimum(&x, &y, msl, mml, gol, gel, clips);
            if a.score as i64 != opt { return Err(format!("custom clips {:?}: score {} but the optimum of the documented model is {} (path {:?})", cl, a.score, opt, a.operations)); }
        }
        // reuse with distinct clip penalties: a mode call must not disturb a later custom() on the same aligner
        {
            let sc = || Scoring::from_scores(go, ge, ms, mm).xclip_prefix(-1).xclip_suffix(-2).yclip_prefix(-3).yclip_suffix(-4);
            let mut fresh = Aligner::with_scoring(sc());
            let mut used2 = Aligner::with_scoring(sc());
            used2.local(&y, &x); used2.semiglobal(&x, &y); used2.global(&x, &x);
            let (f, u) = (fresh.custom(&x, &y), used2.custom(&x, &y));
            if f.score != u.score || f.operations != u.operations { return Err(format!("custom() after mode calls gives score {} / {:?}, a fresh aligner {} / {:?}", u.score, u.operations, f.score, f.operations)); }
            let got = rescore(&f, &x, &y, msl, mml, gol, gel, [-1, -2, -3, -4]).map_err(|e| format!("custom (4 clips): {}", e))?;
            if got != f.score as i64 { return Err(format!("custom (4 clips): path {:?} re-scores to {} but the reported score is {}", f.operations, got, f.score)); }
            // the mode wrappers override whatever clip penalties the aligner carries: same result as on a default-scoring aligner
            for mode in 0..3u8 {
                let mut carried = Aligner::with_scoring(sc());
                let mut plain = Aligner::with_scoring(Scoring::from_scores(go, ge, ms, mm));
                let (a, b) = match mode { 0 => (carried.global(&x, &y), plain.global(&x, &y)), 1 => (carried.semiglobal(&x, &y), plain.semiglobal(&x, &y)), _ => (carried.local(&x, &y), plain.local(&x, &y)) };
                if a.score != b.score || a.operations != b.operations || (a.xstart, a.xend, a.ystart, a.yend) != (b.xstart, b.xend, b.ystart, b.yend) {
                    return Err(format!("mode {} on an aligner carrying clip penalties (-1,-2,-3,-4) gives score {} / {:?}, on a default aligner {} / {:?}", mode, a.score, a.operations, b.score, b.operations));
                }
            }
        }
        // asymmetric substitution function: global score against a reference DP with the same function
        {
            let f = |a: u8, b: u8| -> i32 { if a == b { ms } else if a < b { mm } else { mm - 3 } };
            let mut al = Aligner::with_scoring(Scoring::new(go, ge, f));
            let a = al.global(&x, &y);
            let (m, n) = (x.len(), y.len());
            let mut s_ = vec![vec![NEG; n + 1]; m + 1]; let mut ii = s_.clone(); let mut dd = s_.clone();
            for i in 0..=m { for j in 0..=n {
                if i > 0 { ii[i][j] = (s_[i - 1][j] + gol + gel).max(ii[i - 1][j] + gel); }
                if j > 0 { dd[i][j] = (s_[i][j - 1] + gol + gel).max(dd[i][j - 1] + gel); }
                let mut v = if i == 0 && j == 0 { 0 } else { NEG };
                if i > 0 && j > 0 { v = v.max(s_[i - 1][j - 1] + f(x[i - 1], y[j - 1]) as i64); }
                s_[i][j] = v.max(ii[i][j]).max(dd[i][j]);
            } }
            if a.score as i64 != s_[m][n] { return Err(format!("global with an asymmetric substitution function scores {}, optimum is {}", a.score, s_[m][n])); }
        }
        let _ = MIN_SCORE;
        Ok(())
    }).and_then(|r| r)
}
pub fn run(input: &str) -> Result<(), String> {
    let sc = nums(field(input, "sc").unwrap_or("1,-1,-5,-1"));
    check(&unhex(field(input, "x").unwrap_or("")), &unhex(field(input, "y").unwrap_or("")), sc[0] as i32, sc[1] as i32, sc[2] as i32, sc[3] as i32, &unhex(field(input, "warm").unwrap_or("")))
}
pub fn search(seed: u64, budget: &Budget, thorough: bool) -> (u64, Option<(String, String)>) {
    let rng = Rng::new(seed);
    let mut tried = 0;
    let rounds = if thorough { 200000 } else { 3000 };
    for _ in 0..rounds {
        if !budget.left() { break; }
        let alpha: &[u8] = if rng.below(2) == 0 { b"AC" } else { b"ACGT" };
        let x = rng.bytes(rng.below(9) as usize, alpha);
        let mut y = rng.bytes(rng.below(9) as usize, alpha);
        if rng.below(3) == 0 { y = x.clone(); if !y.is_empty() { let i = rng.below(y.len() as u64) as usize; y.remove(i); } }
        let warm = if rng.below(2) == 0 { rng.bytes(1 + rng.below(12) as usize, alpha) } else { vec![] };
        let (ms, mm) = (*rng.pick(&[1i32, 2, 5]), *rng.pick(&[-1i32, -2, -4, 0]));
        let (go, ge) = (*rng.pick(&[0i32, -1, -3, -5]), *rng.pick(&[0i32, -1, -2]));
        tried += 1;
        let input = format!("sc={},{},{},{} x={} y={} warm={}", ms, mm, go, ge, hex(&x), hex(&y), hex(&warm));
        note_current(&input);
        if let Err(e) = check(&x, &y, ms, mm, go, ge, &warm) {
            return (tried, Some((input, e)));
        }
    }
    (tried, None)
}

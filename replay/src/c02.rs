//! C02: banded alignment is sound, and exact whenever the band covers the matrix (oracle: full DP reference + path re-scoring)
use crate::c01::{reference, rescore};
use crate::util::*;
use bio::alignment::pairwise::{banded, Scoring, MIN_SCORE};
use bio::alignment::AlignmentOperation;
use bio::alignment::sparse::find_kmer_matches;

fn check(x: &[u8], y: &[u8], ms: i32, mm: i32, go: i32, ge: i32, k: usize, w: usize, warm: &[u8], cl: [i32; 4]) -> Result<(), String> {
    let (x, y, warm) = (x.to_vec(), y.to_vec(), warm.to_vec());
    guarded(move || {
        let (msl, mml, gol, gel) = (ms as i64, mm as i64, go as i64, ge as i64);
        let score = move |a: u8, b: u8| if a == b { ms } else { mm };
        let mut al = banded::Aligner::new(go, ge, score, k, w);
        if !warm.is_empty() { al.local(&warm, &y); al.global(&y, &warm); }
        let no_kmer = find_kmer_matches(&x, &y, k).is_empty();
        for mode in 0..3u8 {
            let a = match mode { 0 => al.global(&x, &y), 1 => al.semiglobal(&x, &y), _ => al.local(&x, &y) };
            let opt = reference(&x, &y, msl, mml, gol, gel, mode);
            if a.score as i64 > opt { return Err(format!("mode {}: banded score {} exceeds the unbanded optimum {}", mode, a.score, opt)); }
            if no_kmer && a.score as i64 != opt { return Err(format!("mode {}: no k-mer match (band covers the matrix) but score {} != optimum {}", mode, a.score, opt)); }
            // the wrappers filter clip operations out of the path; the same alignment with the clips still in it comes from `custom`
            // with the mode's clip penalties, and that path must re-score exactly
            let (xc, yc) = match mode { 0 => (MIN_SCORE, MIN_SCORE), 1 => (MIN_SCORE, 0), _ => (0, 0) };
            let mut c = banded::Aligner::with_scoring(Scoring::new(go, ge, score).xclip(xc).yclip(yc), k, w);
            let b = c.custom(&x, &y);
            if b.score != a.score { return Err(format!("mode {}: wrapper score {} != custom-with-mode-penalties score {}", mode, a.score, b.score)); }
            let strip = |ops: &Vec<AlignmentOperation>| ops.iter().cloned().filter(|o| !matches!(o, AlignmentOperation::Xclip(_) | AlignmentOperation::Yclip(_))).collect::<Vec<_>>();
            if mode > 0 && strip(&b.operations) != a.operations { return Err(format!("mode {}: wrapper path {:?} is not the custom path {:?} without clips", mode, a.operations, b.operations)); }
            let clips = [xc as i64, xc as i64, yc as i64, yc as i64];
            let got = rescore(&b, &x, &y, msl, mml, gol, gel, clips).map_err(|e| format!("mode {}: {}", mode, e))?;
            if got != b.score as i64 { return Err(format!("mode {}: path {:?} re-scores to {} but the reported score is {}", mode, b.operations, got, b.score)); }
        }
        // the mode wrappers (incl. the prehashed variant) override whatever clip penalties the aligner carries
        {
            use bio::alignment::sparse::hash_kmers;
            let carried = || Scoring::new(go, ge, score).xclip_prefix(-1).xclip_suffix(-2).yclip_prefix(-3).yclip_suffix(-4);
            for mode in 0..4u8 {
                let mut c = banded::Aligner::with_scoring(carried(), k, w);
                let mut p = banded::Aligner::new(go, ge, score, k, w);
                let h = hash_kmers(&y, k);
                let (a, b) = match mode { 0 => (c.global(&x, &y), p.global(&x, &y)), 1 => (c.semiglobal(&x, &y), p.semiglobal(&x, &y)), 2 => (c.local(&x, &y), p.local(&x, &y)), _ => (c.semiglobal_with_prehash(&x, &y, &h), p.semiglobal(&x, &y)) };
                if a.score != b.score || a.operations != b.operations || (a.xstart, a.xend, a.ystart, a.yend) != (b.xstart, b.xend, b.ystart, b.yend) {
                    return Err(format!("banded mode {} on an aligner carrying clip penalties (-1,-2,-3,-4) gives score {} / {:?}, on a default aligner {} / {:?}", mode, a.score, a.operations, b.score, b.operations));
                }
            }
        }
        // the remaining ways of supplying the backbone: explicit matches, mismatch-expanded matches (with / without the LCSk++ union), prehash
        {
            use bio::alignment::sparse::hash_kmers;
            let ms_all = find_kmer_matches(&x, &y, k);
            let opt = reference(&x, &y, msl, mml, gol, gel, 0);
            let h = hash_kmers(&y, k);
            for variant in 0..5u8 {
                let mut b = banded::Aligner::new(go, ge, score, k, w);
                let a = match variant {
                    0 => b.custom_with_matches(&x, &y, &ms_all),
                    1 => b.custom_with_expanded_matches(&x, &y, ms_all.clone(), Some(1), false),
                    2 => b.custom_with_expanded_matches(&x, &y, ms_all.clone(), Some(2), true),
                    3 => b.custom_with_expanded_matches(&x, &y, ms_all.clone(), None, true),
                    _ => b.custom_with_prehash(&x, &y, &h),
                };
                if a.score as i64 > opt { return Err(format!("entry point {}: banded score {} exceeds the unbanded optimum {}", variant, a.score, opt)); }
                if no_kmer && a.score as i64 != opt { return Err(format!("entry point {}: no k-mer match but score {} != optimum {}", variant, a.score, opt)); }
                let mn = MIN_SCORE as i64;
                let got = rescore(&a, &x, &y, msl, mml, gol, gel, [mn, mn, mn, mn]).map_err(|e| format!("entry point {}: {}", variant, e))?;
                if got != a.score as i64 { return Err(format!("entry point {}: path {:?} re-scores to {} but the reported score is {}", variant, a.operations, got, a.score)); }
            }
        }
        // custom() with four INDEPENDENT clip penalties (each one forbidden, free or a small penalty): the path re-scores to the reported score,
        // the score never exceeds the unbanded aligner's, and equals it when the band is the whole matrix
        {
            let sc = || Scoring::new(go, ge, score).xclip_prefix(cl[0]).xclip_suffix(cl[1]).yclip_prefix(cl[2]).yclip_suffix(cl[3]);
            let mut b = banded::Aligner::with_scoring(sc(), k, w);
            if !warm.is_empty() { b.local(&warm, &y); }
            let a = b.custom(&x, &y);
            let clips = [cl[0] as i64, cl[1] as i64, cl[2] as i64, cl[3] as i64];
            let got = rescore(&a, &x, &y, msl, mml, gol, gel, clips).map_err(|e| format!("custom clips {:?}: {}", cl, e))?;
            if got != a.score as i64 { return Err(format!("custom clips {:?}: path {:?} re-scores to {} but the reported score is {}", cl, a.operations, got, a.score)); }
            let mut full = bio::alignment::pairwise::Aligner::with_scoring(sc());
            let f = full.custom(&x, &y);
            if a.score > f.score { return Err(format!("custom clips {:?}: banded score {} exceeds the unbanded score {}", cl, a.score, f.score)); }
            if no_kmer && a.score != f.score { return Err(format!("custom clips {:?}: no k-mer match but banded score {} != unbanded score {}", cl, a.score, f.score)); }
        }
        Ok(())
    }).and_then(|r| r)
}
/// clip penalties from a 4-letter code: 0 = forbidden (MIN_SCORE), 1 = free, 2 = -1, 3 = -3
fn clips_of(code: &str) -> [i32; 4] {
    let b = code.as_bytes();
    let f = |c: u8| match c { b'1' => 0, b'2' => -1, b'3' => -3, _ => MIN_SCORE };
    [f(b[0]), f(b[1]), f(b[2]), f(b[3])]
}
pub fn run(input: &str) -> Result<(), String> {
    if let Some(b) = field(input, "budget") { let v = nums(b); return check_budget(v[0] as usize, v[1] as usize); }
    let sc = nums(field(input, "sc").unwrap_or("1,-1,-5,-1"));
    check(&unhex(field(input, "x").unwrap_or("")), &unhex(field(input, "y").unwrap_or("")), sc[0] as i32, sc[1] as i32, sc[2] as i32, sc[3] as i32,
          num(input, "k"), num(input, "w"), &unhex(field(input, "warm").unwrap_or("")), clips_of(field(input, "clip").unwrap_or("0000")))
}
/// the documented cell budget: a band of more than MAX_CELLS (5 million) cells is refused with the empty MIN_SCORE alignment, anything up to
/// the budget is aligned; shapes (m, n) with no k-mer match (band = whole matrix of (m+1)(n+1) cells)
fn check_budget(m: usize, n: usize) -> Result<(), String> {
    guarded(move || {
        let x = vec![b'A'; m]; let y = vec![b'C'; n];
        let score = |a: u8, b: u8| if a == b { 1i32 } else { -1i32 };
        let mut al = banded::Aligner::new(-5, -1, score, 2, 1);
        let a = al.global(&x, &y);
        let cells = (m + 1) * (n + 1);
        let refused = a.score == MIN_SCORE && a.operations.is_empty();
        if cells > 5_000_000 && !refused { return Err(format!("{} x {} sequences: band of {} cells exceeds the budget but an alignment (score {}) is returned", m, n, cells, a.score)); }
        if cells <= 5_000_000 && refused { return Err(format!("{} x {} sequences: band of {} cells is within the budget but the alignment is refused", m, n, cells)); }
        Ok(())
    }).and_then(|r| r)
}
pub fn search(seed: u64, budget: &Budget, thorough: bool) -> (u64, Option<(String, String)>) {
    let rng = Rng::new(seed);
    let mut tried = 0;
    for &(m, n) in &[(1usize, 2_600_000usize), (1, 2_400_000), (2_600_000, 1), (2235, 2236), (2234, 2236)] {
        tried += 1;
        if let Err(e) = check_budget(m, n) { return (tried, Some((format!("budget={},{}", m, n), e))); }
    }
    let rounds = if thorough { 200000 } else { 3000 };
    for _ in 0..rounds {
        if !budget.left() { break; }
        let alpha: &[u8] = if rng.below(2) == 0 { b"AC" } else { b"ACGT" };
        let x = rng.bytes(1 + rng.below(14) as usize, alpha);
        let mut y = rng.bytes(1 + rng.below(14) as usize, alpha);
        if rng.below(2) == 0 { y = x.clone(); for _ in 0..rng.below(3) { if y.len() > 1 { let i = rng.below(y.len() as u64) as usize; if rng.below(2) == 0 { y.remove(i); } else { y[i] = *rng.pick(alpha); } } } }
        let k = 1 + rng.below(4) as usize; let w = rng.below(5) as usize;
        // a shared core with independent overhangs at both ends of both sequences (long enough to leave the band: more than 2k + w)
        let (x, y) = if rng.below(3) == 0 {
            let core = rng.bytes(k + rng.below(8) as usize, alpha);
            let oh = |lim: u64| rng.bytes(rng.below(lim) as usize, alpha);
            let lim = (2 * k + w + 6) as u64;
            let mut x2 = oh(lim); x2.extend(&core); x2.extend(oh(lim));
            let mut y2 = oh(lim); y2.extend(&core); y2.extend(oh(lim));
            (x2, y2)
        } else { (x, y) };
        // the property quantifies over all byte sequences, the empty one included
        let (x, y) = match rng.below(16) { 0 => (vec![], y), 1 => (x, vec![]), 2 => (vec![], vec![]), _ => (x, y) };
        let warm = if rng.below(2) == 0 { rng.bytes(1 + rng.below(12) as usize, alpha) } else { vec![] };
        let (ms, mm) = (*rng.pick(&[1i32, 2]), *rng.pick(&[-1i32, -2, -4]));
        let (go, ge) = (*rng.pick(&[0i32, -1, -3, -5]), *rng.pick(&[-1i32, -2]));
        tried += 1;
        let code: String = (0..4).map(|_| *rng.pick(&['0', '0', '1', '1', '2', '3'])).collect();
        let input = format!("sc={},{},{},{} k={} w={} x={} y={} warm={} clip={}", ms, mm, go, ge, k, w, hex(&x), hex(&y), hex(&warm), code);
        note_current(&input);
        if let Err(e) = check(&x, &y, ms, mm, go, ge, k, w, &warm, clips_of(&code)) {
            return (tried, Some((input, e)));
        }
    }
    (tried, None)
}

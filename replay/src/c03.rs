//! C03: suffix array is the sorted permutation of all suffixes; LCP and sampling agree (oracle: brute-force sorting)
use crate::util::*;
use bio::alphabets::Alphabet;
use bio::data_structures::bwt::{bwt, less, Occ};
use bio::data_structures::suffix_array::{lcp, shortest_unique_substrings, suffix_array, suffix_array_int, SuffixArray};

fn check_bytes(text: &[u8], k: u32, s: usize) -> Result<(), String> {
    let text = text.to_vec();
    guarded(move || {
        let n = text.len();
        let sent = text[n - 1];
        let sa = suffix_array(&text);
        let mut seen = vec![false; n];
        for &p in sa.iter() { if p >= n || seen[p] { return Err(format!("suffix array {:?} is not a permutation", sa)); } seen[p] = true; }
        if sa.len() != n { return Err("suffix array has the wrong length".into()); }
        if sa[0] != n - 1 { return Err(format!("the final sentinel is not the smallest suffix: sa[0] = {}", sa[0])); }
        let nsent = text.iter().filter(|&&c| c == sent).count();
        if nsent == 1 {
            // single sentinel: plain lexicographic order
            for r in 1..n { if text[sa[r - 1]..] >= text[sa[r]..] { return Err(format!("suffixes {} and {} are out of order", sa[r - 1], sa[r])); } }
            if n >= 2 {
                let l = lcp(&text, &sa);
                let lv: Vec<isize> = l.decompress();
                if lv.len() != n + 1 || lv[0] != -1 || lv[n] != -1 { return Err(format!("lcp ends are not -1: {:?}", lv)); }
                for r in 1..n {
                    let (a, b) = (&text[sa[r - 1]..], &text[sa[r]..]);
                    let want = a.iter().zip(b.iter()).take_while(|(x, y)| x == y).count() as isize;
                    if lv[r] != want { return Err(format!("lcp[{}] = {}, longest common prefix of suffixes {} and {} is {}", r, lv[r], sa[r - 1], sa[r], want)); }
                }
                let sus = shortest_unique_substrings(&sa, &l);
                for p in 0..n {
                    // shortest unique substring starting at p (brute force)
                    let mut want = None;
                    for len in 1..=n - p {
                        let sub = &text[p..p + len];
                        let cnt = (0..=n - len).filter(|&q| &text[q..q + len] == sub).count();
                        if cnt == 1 { want = Some(len); break; }
                    }
                    if sus[p] != want { return Err(format!("shortest unique substring at {}: {:?}, brute force {:?}", p, sus[p], want)); }
                }
            }
        } else {
            // several sentinels: sorted under ONE consistent order in which every sentinel is below all other symbols
            // and sentinel occurrences are totally ordered among themselves: check pairwise consistency of adjacent suffixes
            // with the order of sentinel occurrences induced by the array itself
            let mut srank = vec![usize::MAX; n];
            let mut c = 0; for r in 0..n { if text[sa[r]] == sent { srank[sa[r]] = c; c += 1; } }
            let cmp = |a: usize, b: usize| -> std::cmp::Ordering {
                let (mut i, mut j) = (a, b);
                loop {
                    if i == n || j == n { return (j == n).cmp(&(i == n)).reverse(); }
                    let (x, y) = (text[i], text[j]);
                    if x == sent && y == sent { if i != j { return srank[i].cmp(&srank[j]); } }
                    else if x == sent { return std::cmp::Ordering::Less; }
                    else if y == sent { return std::cmp::Ordering::Greater; }
                    else if x != y { return x.cmp(&y); }
                    i += 1; j += 1;
                }
            };
            for r in 1..n { if cmp(sa[r - 1], sa[r]) != std::cmp::Ordering::Less { return Err(format!("suffixes {} and {} are out of order (multi-sentinel text)", sa[r - 1], sa[r])); } }
        }
        // sampled suffix array agrees with the full one
        let alphabet = Alphabet::new(&text);
        let b = bwt(&text, &sa);
        let le = less(&b, &alphabet);
        let occ = Occ::new(&b, k, &alphabet);
        let ssa = sa.sample(&text, &b, &le, &occ, s);
        for i in 0..n { if ssa.get(i) != Some(sa[i]) { return Err(format!("sampled SA (rate {}, Occ rate {}) get({}) = {:?}, full array has {}", s, k, i, ssa.get(i), sa[i])); } }
        if ssa.get(n).is_some() { return Err("sampled get beyond the end is Some".into()); }
        Ok(())
    }).and_then(|r| r)
}
fn check_int(text: &[usize]) -> Result<(), String> {
    let text = text.to_vec();
    guarded(move || {
        let n = text.len();
        let sa = suffix_array_int(&text);
        let mut want: Vec<usize> = (0..n).collect();
        want.sort_by(|&a, &b| text[a..].cmp(&text[b..]));
        if sa != want { return Err(format!("suffix_array_int = {:?}, sorted order is {:?}", sa, want)); }
        Ok(())
    }).and_then(|r| r)
}
/// suffix_array() of a big text: a permutation whose adjacent suffixes ascend
fn check_big(t: &[u8]) -> Result<(), String> {
    let t = t.to_vec();
    guarded(move || {
        let sa = suffix_array(&t);
        if sa.len() != t.len() { return Err(format!("suffix array has {} entries for {} symbols", sa.len(), t.len())); }
        let mut seen = vec![false; t.len()];
        for &p in sa.iter() { if p >= t.len() || seen[p] { return Err(format!("suffix array is not a permutation (entry {})", p)); } seen[p] = true; }
        for w in sa.windows(2) { if t[w[0]..] >= t[w[1]..] { return Err(format!("suffixes {} and {} are out of order", w[0], w[1])); } }
        Ok(())
    }).and_then(|r| r)
}
pub fn run(input: &str) -> Result<(), String> {
    if let Some(n) = field(input, "big") {
        // re-create the text of the search (its own generator, seeded by seed ^ n)
        let n: usize = n.parse().unwrap(); let syms = num(input, "syms") as u64;
        let rng = Rng::new(num(input, "seed") as u64 ^ n as u64);
        let mut t: Vec<u8> = (0..n).map(|_| 1 + rng.below(syms) as u8).collect(); t.push(0);
        return check_big(&t);
    }
    if let Some(t) = field(input, "int") { return check_int(&nums(t).into_iter().map(|x| x as usize).collect::<Vec<_>>()); }
    check_bytes(&unhex(field(input, "text").unwrap_or("")), num(input, "k") as u32, num(input, "s"))
}
pub fn search(seed: u64, budget: &Budget, thorough: bool) -> (u64, Option<(String, String)>) {
    let rng = Rng::new(seed);
    let mut tried = 0;
    // exhaustive tiny texts over {a,b} with a final sentinel, including length 1
    for len in 0..=7usize { for bits in 0..(1u32 << len) {
        let mut t: Vec<u8> = (0..len).map(|i| b'a' + ((bits >> i) & 1) as u8).collect(); t.push(b'$');
        tried += 1;
        if let Err(e) = check_bytes(&t, 3, 2) { return (tried, Some((format!("k=3 s=2 text={}", hex(&t)), e))); }
    } }
    for n in 1..=5usize { let total = (n as u64 + 1).pow(n as u32).min(4000); for code in 0..total {
        // dense integer texts ending in a unique minimum 0
        let mut c = code; let mut t: Vec<usize> = (0..n).map(|_| { let x = 1 + (c % n as u64) as usize; c /= n as u64; x }).collect();
        let mx = *t.iter().max().unwrap_or(&0); if (1..=mx).any(|v| !t.contains(&v)) { continue; }
        t.push(0); tried += 1;
        if let Err(e) = check_int(&t) { return (tried, Some((format!("int={}", t.iter().map(|x| x.to_string()).collect::<Vec<_>>().join(",")), e))); }
    } }
    // many-sentinel texts: alphabet size + sentinel count beyond 256 switches the integer width of the transformed text
    for &reads in &[120usize, 250, 254, 255, 256, 257, 300, 600] {
        for alpha in [&b"a"[..], b"ACGT", b"abcdefghijkl"] {
            let mut t = vec![];
            for _ in 0..reads { t.extend(rng.bytes(rng.below(3) as usize, alpha)); t.push(b'$'); }
            tried += 1;
            if let Err(e) = check_bytes(&t, 3, 4) { return (tried, Some((format!("k=3 s=4 text={}", hex(&t)), e))); }
        }
    }
    // large texts over a large alphabet: more than 65535 LMS substrings with more than 65536 distinct names switch the integer width inside
    // SA-IS (the recursion text); verified by permutation + adjacent-suffix order (cheap: random texts have short common prefixes)
    for &(n, syms) in &[(300_000usize, 250u64), (150_000, 8)] {
        let r2 = Rng::new(seed ^ n as u64);
        let mut t: Vec<u8> = (0..n).map(|_| 1 + r2.below(syms) as u8).collect(); t.push(0);
        tried += 1;
        if let Err(e) = check_big(&t) { return (tried, Some((format!("big={} syms={} seed={}", n, syms, seed), e))); }
    }
    let rounds = if thorough { 100000 } else { 1500 };
    for _ in 0..rounds {
        if !budget.left() { break; }
        let alpha: &[u8] = *rng.pick(&[&b"ab"[..], b"a", b"ACGT", b"abcdefgh"]);
        let n = rng.below(if rng.below(6) == 0 { 300 } else { 40 }) as usize;
        let mut t = rng.bytes(n, alpha);
        if rng.below(3) == 0 { for _ in 0..1 + rng.below(3) { let at = rng.below(t.len() as u64 + 1) as usize; t.insert(at, b'$'); } }
        if rng.below(4) == 0 && t.len() > 4 { let r: Vec<u8> = t[..t.len() / 2].to_vec(); t.extend(r); }   // long repeats (LCP >= 127 needs the 300-symbol texts)
        t.push(b'$');
        let k = *rng.pick(&[1u32, 2, 3, 8, 65, 70, 128]); let s = 1 + rng.below(12) as usize;
        tried += 1;
        if let Err(e) = check_bytes(&t, k, s) { return (tried, Some((format!("k={} s={} text={}", k, s, hex(&t)), e))); }
    }
    (tried, None)
}

//! C04: BWT / less / Occ exact, BWT invertible; C05: backward search == occurrences  (oracle: naive counting / scanning)
use crate::util::*;
use bio::alphabets::Alphabet;
use bio::data_structures::bwt::{bwt, invert_bwt, less, Occ};
use bio::data_structures::fmindex::{BackwardSearchResult, FMIndex, FMIndexable};
use bio::data_structures::suffix_array::{suffix_array, SuffixArray};

fn check_tables(text: &[u8], k: u32) -> Result<(), String> {
    let text = text.to_vec();
    guarded(move || {
        let n = text.len();
        // the alphabet may be a strict superset of the text symbols ("forall alphabets containing the text symbols")
        let mut asym = text.clone();
        if k % 2 == 1 { asym.extend_from_slice(b"$ACGTNacgtnxyz~"); }
        let alphabet = Alphabet::new(&asym);
        let sa = suffix_array(&text);
        // naive suffix order (final sentinel smallest; texts here have a single sentinel)
        let b = bwt(&text, &sa);
        for r in 0..n {
            let want = if sa[r] > 0 { text[sa[r] - 1] } else { text[n - 1] };
            if b[r] != want { return Err(format!("bwt[{}] = {} but the symbol preceding suffix {} is {}", r, b[r], sa[r], want)); }
        }
        let l = less(&b, &alphabet);
        for c in 0..l.len() {
            let want = text.iter().filter(|&&x| (x as usize) < c).count();
            if l[c] != want { return Err(format!("less[{}] = {}, {} symbols are smaller", c, l[c], want)); }
        }
        let occ = Occ::new(&b, k, &alphabet);
        let mut syms: Vec<u8> = text.clone(); syms.sort(); syms.dedup();
        for &a in &syms {
            let mut cnt = 0;
            for r in 0..n {
                if b[r] == a { cnt += 1; }
                let got = occ.get(&b, r, a);
                if got != cnt { return Err(format!("Occ(k={}).get({}, {}) = {}, count is {}", k, r, a, got, cnt)); }
            }
        }
        if text.iter().filter(|&&x| x == b'$').count() == 1 {
            let inv = invert_bwt(&b);
            if inv != text { return Err("invert_bwt(bwt(text)) != text".into()); }
        }
        Ok(())
    }).and_then(|r| r)
}

fn check_search(text: &[u8], k: u32, pat: &[u8]) -> Result<(), String> {
    let (text, pat) = (text.to_vec(), pat.to_vec());
    guarded(move || {
        let alphabet = Alphabet::new(&text);
        let sa = suffix_array(&text);
        let b = bwt(&text, &sa);
        let l = less(&b, &alphabet);
        let occ = Occ::new(&b, k, &alphabet);
        let fm = FMIndex::new(&b, &l, &occ);
        let positions = |p: &[u8]| -> Vec<usize> { if p.len() > text.len() { vec![] } else { (0..=text.len() - p.len()).filter(|&i| &text[i..i + p.len()] == p).collect() } };
        let res = fm.backward_search(pat.iter());
        // longest suffix of pat that occurs
        let mut best = 0;
        for s in 1..=pat.len() { if !positions(&pat[pat.len() - s..]).is_empty() { best = s; } else { break; } }
        match res {
            BackwardSearchResult::Complete(iv) => {
                if best != pat.len() { return Err(format!("Complete but the pattern does not occur (longest occurring suffix {})", best)); }
                let mut got = iv.occ(&sa); got.sort();
                if got != positions(&pat) { return Err(format!("Complete interval maps to {:?}, occurrences are {:?}", got, positions(&pat))); }
            }
            BackwardSearchResult::Partial(iv, m) => {
                if best == pat.len() || best == 0 || m != best { return Err(format!("Partial(_, {}) but longest occurring suffix has length {}", m, best)); }
                let mut got = iv.occ(&sa); got.sort();
                let want = positions(&pat[pat.len() - m..]);
                if got != want { return Err(format!("Partial interval maps to {:?}, suffix occurrences are {:?}", got, want)); }
            }
            BackwardSearchResult::Absent => { if best != 0 { return Err(format!("Absent but a suffix of length {} occurs", best)); } }
        }
        // sampled suffix array agrees
        for s in 1..13usize {
            let ssa = sa.sample(&text, &b, &l, &occ, s);
            for i in 0..sa.len() { if ssa.get(i) != Some(sa[i]) { return Err(format!("sampled SA (rate {}) get({}) = {:?}, full = {}", s, i, ssa.get(i), sa[i])); } }
        }
        Ok(())
    }).and_then(|r| r)
}

pub fn run(input: &str) -> Result<(), String> {
    let t = unhex(field(input, "text").unwrap_or(""));
    let k = num(input, "k") as u32;
    match field(input, "what").unwrap_or("tables") {
        "search" => check_search(&t, k, &unhex(field(input, "pat").unwrap_or(""))),
        _ => check_tables(&t, k),
    }
}

fn gen_text(rng: &mut Rng, maxlen: u64) -> Vec<u8> {
    // (the last alphabet reaches the top of the byte range: symbol + 1 must not be computed in u8)
    let alpha: &[u8] = match rng.below(4) { 0 => b"ab", 1 => b"ACGT", 2 => b"abcde", _ => &[0x41, 0xFD, 0xFE, 0xFF] };
    let n = rng.below(maxlen) as usize;
    let mut t = rng.bytes(n, alpha);
    t.push(b'$');
    t
}
/// texts with one or several sentinels, the sentinel byte not always '$' (it only has to be the smallest symbol)
fn gen_text_multi(rng: &mut Rng, maxlen: u64) -> Vec<u8> {
    let alpha: &[u8] = match rng.below(4) { 0 => b"ab", 1 => b"ACGT", 2 => b"abcde", _ => &[0x41, 0xFD, 0xFE, 0xFF] };
    let sent = *rng.pick(&[b'$', b'#', 0u8, b'!', b'$']);
    let n = rng.below(maxlen) as usize;
    let mut t = rng.bytes(n, alpha);
    if rng.below(2) == 0 { for x in t.iter_mut() { if rng.below(9) == 0 { *x = sent; } } }
    t.push(sent);
    t
}

pub fn search(seed: u64, budget: &Budget, thorough: bool, which: &str) -> (u64, Option<(String, String)>) {
    let mut tried = 0u64;
    let mut rng = Rng::new(seed);
    // small exhaustive: all texts over {a,b} up to length 6
    for len in 0..=6usize {
        for bits in 0..(1u32 << len) {
            let mut t: Vec<u8> = (0..len).map(|i| b'a' + ((bits >> i) & 1) as u8).collect();
            t.push(b'$');
            for &k in &[1u32, 2, 3, 5, 65, 70, 128] {
                tried += 1;
                if which == "C04" {
                    if let Err(e) = check_tables(&t, k) { return (tried, Some((format!("what=tables k={} text={}", k, hex(&t)), e))); }
                }
            }
            if which == "C05" && len <= 5 {
                // the sentinel need not be '$': the same text ended (and once interrupted) by '#'
                let mut t2: Vec<u8> = t[..len].to_vec();
                if len >= 3 { t2[len / 2] = b'#'; }
                t2.push(b'#');
                let p = vec![b'a'];
                if t2.contains(&b'a') {
                    tried += 1;
                    if let Err(e) = check_search(&t2, 3, &p) { return (tried, Some((format!("what=search k=3 text={} pat={}", hex(&t2), hex(&p)), e))); }
                }
            }
            if which == "C05" {
                for pl in 1..=3usize { for pb in 0..(1u32 << pl) {
                    let p: Vec<u8> = (0..pl).map(|i| b'a' + ((pb >> i) & 1) as u8).collect();
                    if p.iter().any(|c| !t.contains(c)) { continue; }   // patterns over the index alphabet only
                    tried += 1;
                    if let Err(e) = check_search(&t, 3, &p) { return (tried, Some((format!("what=search k=3 text={} pat={}", hex(&t), hex(&p)), e))); }
                } }
            }
        }
    }
    // long runs of one symbol with sampling rates above 64: whole checkpoint blocks consist of the queried symbol
    for &n in &[130usize, 400] {
        for &(a, b) in &[(b'a', b'b'), (b'b', b'a')] {
            let mut t = vec![a; n];
            t[n / 3] = b;
            t.push(b'$');
            for &k in &[65u32, 128, 200] {
                tried += 1;
                if which == "C04" {
                    if let Err(e) = check_tables(&t, k) { return (tried, Some((format!("what=tables k={} text={}", k, hex(&t)), e))); }
                } else {
                    let p = vec![a, a];
                    if let Err(e) = check_search(&t, k, &p) { return (tried, Some((format!("what=search k={} text={} pat={}", k, hex(&t), hex(&p)), e))); }
                }
            }
        }
    }
    let rounds = if thorough { 100000 } else { 1500 };
    for _ in 0..rounds {
        if !budget.left() { break; }
        let t = if which == "C05" { gen_text_multi(&mut rng, if thorough { 300 } else { 150 }) } else { gen_text(&mut rng, if thorough { 300 } else { 150 }) };
        let k = *rng.pick(&[1u32, 2, 3, 4, 7, 8, 16, 32, 64, 65, 66, 100, 129, 200, 301]);
        tried += 1;
        if which == "C04" {
            if let Err(e) = check_tables(&t, k) { return (tried, Some((format!("what=tables k={} text={}", k, hex(&t)), e))); }
        } else {
            let pl = 1 + rng.below(6) as usize;
            let p = if rng.below(2) == 0 && t.len() > pl + 1 { let s = rng.below((t.len() - 1 - pl) as u64) as usize; t[s..s + pl].to_vec() } else { rng.bytes(pl, b"abACGT") };
            let sent = t[t.len() - 1];
            let p: Vec<u8> = p.into_iter().filter(|c| t.contains(c) && *c != sent).collect();
            if p.is_empty() { continue; }
            if let Err(e) = check_search(&t, k, &p) { return (tried, Some((format!("what=search k={} text={} pat={}", k, hex(&t), hex(&p)), e))); }
        }
    }
    (tried, None)
}

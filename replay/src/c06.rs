//! C06: FMD index extension steps and SMEMs (oracle: naive substring scans on the two-strand text)
use crate::util::*;
use bio::alphabets::dna;
use bio::data_structures::bwt::{bwt, less, Occ};
use bio::data_structures::fmindex::{FMDIndex, FMIndex};
use bio::data_structures::suffix_array::suffix_array;

fn occs(text: &[u8], p: &[u8]) -> Vec<usize> {
    if p.is_empty() || p.len() > text.len() { return vec![]; }
    (0..=text.len() - p.len()).filter(|&i| &text[i..i + p.len()] == p).collect()
}

fn check(seqs: &[Vec<u8>], pat: &[u8], k: u32, l: usize) -> Result<(), String> {
    let (seqs, pat) = (seqs.to_vec(), pat.to_vec());
    guarded(move || {
        let mut text = vec![];
        for s in &seqs { text.extend_from_slice(s); text.push(b'$'); text.extend(dna::revcomp(s)); text.push(b'$'); }
        let alphabet = dna::n_alphabet();
        let sa = suffix_array(&text);
        let b = bwt(&text, &sa);
        let le = less(&b, &alphabet);
        let occ = Occ::new(&b, k, &alphabet);
        let fmd = FMDIndex::from(FMIndex::new(&b, &le, &occ));
        let sorted = |mut v: Vec<usize>| { v.sort(); v };
        // extension steps: grow pat[j..j+1] backwards to pat[0..j+1], then forwards to the whole pattern
        for j in 0..pat.len() {
            let mut iv = fmd.init_interval_with(pat[j]);
            let (mut lo, mut hi) = (j, j + 1);
            loop {
                let sub = &pat[lo..hi];
                let want = occs(&text, sub);
                let wantrc = occs(&text, &dna::revcomp(sub));
                let got = sorted(iv.forward().occ(&sa));
                let gotrc = sorted(iv.revcomp().occ(&sa));
                if got != want { return Err(format!("bi-interval of {:?}: forward maps to {:?}, occurrences are {:?}", String::from_utf8_lossy(sub), got, want)); }
                if gotrc != wantrc { return Err(format!("bi-interval of {:?}: revcomp maps to {:?}, occurrences of the reverse complement are {:?}", String::from_utf8_lossy(sub), gotrc, wantrc)); }
                if want.is_empty() { break; }
                if lo > 0 { lo -= 1; iv = fmd.backward_ext(&iv, pat[lo]); }
                else if hi < pat.len() { iv = fmd.forward_ext(&iv, pat[hi]); hi += 1; }
                else { break; }
            }
        }
        // SMEMs covering position i: every reported match is an occurring substring covering i that cannot be extended, and all of them are reported
        for i in 0..pat.len() {
            let res = fmd.smems(&pat, i, l);
            let occurs = |a: usize, e: usize| !occs(&text, &pat[a..e]).is_empty();
            let mut want = vec![];
            for a in 0..=i { for e in i + 1..=pat.len() {
                if !occurs(a, e) { continue; }
                if a > 0 && occurs(a - 1, e) { continue; }
                if e < pat.len() && occurs(a, e + 1) { continue; }
                if e - a >= l { want.push((a, e - a)); }
            } }
            let mut got: Vec<(usize, usize)> = res.iter().map(|r| (r.1, r.2)).collect();
            got.sort(); want.sort();
            if got != want { return Err(format!("smems(i={}, l={}) = {:?}, supermaximal matches covering i are {:?}", i, l, got, want)); }
            for r in &res {
                let sub = &pat[r.1..r.1 + r.2];
                if sorted(r.0.forward().occ(&sa)) != occs(&text, sub) { return Err(format!("smem {:?}: forward interval does not map to its occurrences", (r.1, r.2))); }
                if sorted(r.0.revcomp().occ(&sa)) != occs(&text, &dna::revcomp(sub)) { return Err(format!("smem {:?}: revcomp interval does not map to the reverse-complement occurrences", (r.1, r.2))); }
            }
        }
        // all_smems: exactly the supermaximal matches of the whole pattern (length >= l), each at least once
        {
            let occurs = |a: usize, e: usize| !occs(&text, &pat[a..e]).is_empty();
            let mut want = vec![];
            for a in 0..pat.len() { for e in a + 1..=pat.len() {
                if !occurs(a, e) { continue; }
                if a > 0 && occurs(a - 1, e) { continue; }
                if e < pat.len() && occurs(a, e + 1) { continue; }
                if e - a >= l { want.push((a, e - a)); }
            } }
            let mut got: Vec<(usize, usize)> = fmd.all_smems(&pat, l).iter().map(|r| (r.1, r.2)).collect();
            got.sort(); got.dedup(); want.sort();
            if got != want { return Err(format!("all_smems(l={}) = {:?}, supermaximal matches are {:?}", l, got, want)); }
        }
        Ok(())
    }).and_then(|r| r)
}
pub fn run(input: &str) -> Result<(), String> {
    let seqs: Vec<Vec<u8>> = field(input, "seqs").unwrap_or("").split(',').map(unhex).collect();
    check(&seqs, &unhex(field(input, "pat").unwrap_or("")), num(input, "k") as u32, num(input, "l"))
}
pub fn search(seed: u64, budget: &Budget, thorough: bool) -> (u64, Option<(String, String)>) {
    let rng = Rng::new(seed);
    let mut tried = 0;
    let rounds = if thorough { 100000 } else { 1500 };
    for _ in 0..rounds {
        if !budget.left() { break; }
        let alpha: &[u8] = *rng.pick(&[&b"ACGT"[..], b"AC", b"ACGTN", b"ACGTacgt", b"ACGTNacgtn", b"atn", b"ANan"]);
        let ns = 1 + rng.below(2) as usize;
        let seqs: Vec<Vec<u8>> = (0..ns).map(|_| { let n = rng.below(15) as usize; rng.bytes(n, alpha) }).collect();
        let pl = 1 + rng.below(7) as usize;
        let pat = if rng.below(2) == 0 && seqs[0].len() >= pl { let s = rng.below((seqs[0].len() - pl + 1) as u64) as usize; let mut p = seqs[0][s..s + pl].to_vec(); if rng.below(2) == 0 { let i = rng.below(pl as u64) as usize; p[i] = *rng.pick(alpha); } p } else { rng.bytes(pl, alpha) };
        let k = *rng.pick(&[1u32, 2, 3, 8, 65, 70]);
        let l = 1 + rng.below(3) as usize;   // property: l >= 1
        tried += 1;
        if let Err(e) = check(&seqs, &pat, k, l) {
            return (tried, Some((format!("k={} l={} pat={} seqs={}", k, l, hex(&pat), seqs.iter().map(|s| hex(s)).collect::<Vec<_>>().join(",")), e)));
        }
    }
    (tried, None)
}

//! C07: interval trees report exactly the overlapping entries (oracle: brute-force scan)
use crate::util::*;
use bio::data_structures::annot_map::AnnotMap;
use bio::data_structures::interval_tree::{ArrayBackedIntervalTree, IntervalTree};
use bio_types::annot::contig::Contig;
use bio_types::strand::ReqStrand;

// ops: [0,s,e] insert (data = running id) ; [1,s,e] query
fn run_ops(ops: &[Vec<i64>]) -> Result<(), String> {
    let ops = ops.to_vec();
    guarded(move || {
        let mut avl: IntervalTree<i64, u32> = IntervalTree::new();
        let mut arr: ArrayBackedIntervalTree<i64, u32> = ArrayBackedIntervalTree::new();
        let mut model: Vec<(i64, i64, u32)> = vec![];
        // annotation map restricted to the queried reference id (two references; entries stored through insert_at and insert_loc)
        let mut amap: AnnotMap<String, u32> = AnnotMap::new();
        let mut lmap: AnnotMap<String, Contig<String, ReqStrand>> = AnnotMap::new();
        let mut id = 0u32;
        for op in &ops {
            let (s, e) = (op[1], op[2]);
            if op[0] == 0 {
                avl.insert(s..e, id); arr.insert(s..e, id); model.push((s, e, id));
                let rid = if id % 2 == 0 { "chrA" } else { "chrB" }.to_string();
                let loc = Contig::new(rid, s as isize, (e - s) as usize, ReqStrand::Forward);
                amap.insert_at(id, &loc); lmap.insert_loc(loc);
                id += 1;
            } else {
                let mut want: Vec<(i64, i64, u32)> = model.iter().cloned().filter(|m| m.0 < e && s < m.1).collect();
                want.sort();
                let mut got: Vec<(i64, i64, u32)> = avl.find(s..e).map(|x| (x.interval().start, x.interval().end, *x.data())).collect();
                got.sort();
                if got != want { return Err(format!("AVL find({}..{}) = {:?}, overlapping entries are {:?}", s, e, got, want)); }
                let mut gotm: Vec<(i64, i64)> = avl.find_mut(s..e).map(|x| { let iv = x.interval(); (iv.start, iv.end) }).collect();
                gotm.sort();
                let wantm: Vec<(i64, i64)> = want.iter().map(|w| (w.0, w.1)).collect();
                if gotm != wantm { return Err(format!("AVL find_mut({}..{}) = {:?}, overlapping entries are {:?}", s, e, gotm, want)); }
                for (parity, rid) in [(0u32, "chrA"), (1u32, "chrB")].iter() {
                    let q = Contig::new(rid.to_string(), s as isize, (e - s) as usize, ReqStrand::Forward);
                    let mut wantm: Vec<(isize, isize)> = want.iter().filter(|w| w.2 % 2 == *parity).map(|w| (w.0 as isize, w.1 as isize)).collect(); wantm.sort();
                    let mut g1: Vec<(isize, isize)> = amap.find(&q).map(|en| (en.interval().start, en.interval().end)).collect(); g1.sort();
                    if g1 != wantm { return Err(format!("AnnotMap(insert_at).find({} {}..{}) = {:?}, overlapping entries are {:?}", rid, s, e, g1, wantm)); }
                    let mut g2: Vec<(isize, isize)> = lmap.find(&q).map(|en| (en.interval().start, en.interval().end)).collect(); g2.sort();
                    if g2 != wantm { return Err(format!("AnnotMap(insert_loc).find({} {}..{}) = {:?}, overlapping entries are {:?}", rid, s, e, g2, wantm)); }
                }
                arr.index();
                let mut gota: Vec<(i64, i64, u32)> = arr.find(s..e).iter().map(|x| (x.interval().start, x.interval().end, *x.data())).collect();
                gota.sort();
                if gota != want { return Err(format!("array-backed find({}..{}) = {:?}, overlapping entries are {:?}", s, e, gota, want)); }
            }
        }
        Ok(())
    }).and_then(|r| r)
}
fn ops_str(ops: &[Vec<i64>]) -> String {
    ops.iter().map(|o| o.iter().map(|x| x.to_string()).collect::<Vec<_>>().join(":")).collect::<Vec<_>>().join(",")
}
pub fn run(input: &str) -> Result<(), String> {
    let s = field(input, "ops").unwrap_or("");
    let ops: Vec<Vec<i64>> = if s.is_empty() { vec![] } else { s.split(',').map(|o| o.split(':').map(|x| x.parse().unwrap()).collect()).collect() };
    run_ops(&ops)
}
pub fn search(seed: u64, budget: &Budget, thorough: bool) -> (u64, Option<(String, String)>) {
    let mut rng = Rng::new(seed);
    let mut tried = 0;
    let rounds = if thorough { 200000 } else { 3000 };
    for round in 0..rounds {
        if !budget.left() { break; }
        let span = if round % 3 == 0 { 6 } else { 40 };
        let nops = 1 + rng.below(if round % 5 == 0 { 60 } else { 14 });
        let mut ops = vec![];
        for _ in 0..nops {
            let s = rng.below(span) as i64 - 3;
            let e = s + 1 + rng.below(if rng.below(3) == 0 { span } else { 4 }) as i64;
            ops.push(vec![if rng.below(3) == 0 { 1 } else { 0 }, s, e]);
        }
        // always finish with queries
        for _ in 0..3 { let s = rng.below(span) as i64 - 3; ops.push(vec![1, s, s + 1 + rng.below(span) as i64]); }
        tried += 1;
        if let Err(e) = run_ops(&ops) { return (tried, Some((format!("ops={}", ops_str(&ops)), e))); }
    }
    (tried, None)
}

//! C08: exact matchers return exactly all occurrences (oracle: naive scan)
use crate::util::*;
use bio::pattern_matching::{bndm::BNDM, bom::BOM, horspool::Horspool, kmp::KMP, shift_and::ShiftAnd};

fn naive(p: &[u8], t: &[u8]) -> Vec<usize> {
    if p.is_empty() || t.len() < p.len() { return vec![]; }
    (0..=t.len() - p.len()).filter(|&i| &t[i..i + p.len()] == p).collect()
}

const ALGOS: [&str; 5] = ["shift_and", "bndm", "bom", "horspool", "kmp"];

fn one(algo: &str, p: &[u8], texts: &[Vec<u8>]) -> Result<(), String> {
    let (p2, texts2, algo2) = (p.to_vec(), texts.to_vec(), algo.to_string());
    guarded(move || {
        let p = &p2[..];
        macro_rules! go { ($m:expr) => {{
            let m = $m;
            for t in &texts2 {
                let got: Vec<usize> = m.find_all(&t[..]).collect();
                let want = naive(p, t);
                if got != want { return Err(format!("{} found {:?}, occurrences are {:?}", algo2, got, want)); }
            }
        }}; }
        match algo2.as_str() {
            "shift_and" => { if p.len() <= 64 { go!(ShiftAnd::new(p)) } }
            "bndm" => { if p.len() <= 64 { go!(BNDM::new(p)) } }
            "bom" => go!(BOM::new(p)),
            "horspool" => go!(Horspool::new(p)),
            _ => go!(KMP::new(p)),
        }
        Ok(())
    }).and_then(|r| r)
}

/// big patterns (the three matchers without a length limit): state numbers / tables beyond 16 bits.  "rand:n:seed" = n pseudo-random ACGT
/// symbols, occurring twice in the text; "per:n" = (ACG)^n, overlapping occurrences in (ACG)^(n+10)
fn big_case(gen: &str) -> (Vec<u8>, Vec<Vec<u8>>) {
    let f: Vec<&str> = gen.split(':').collect();
    if f[0] == "per" {
        let n: usize = f[1].parse().unwrap();
        let p: Vec<u8> = (0..3 * n).map(|i| b"ACG"[i % 3]).collect();
        let t: Vec<u8> = (0..3 * (n + 10)).map(|i| b"ACG"[i % 3]).collect();
        (p, vec![t])
    } else {
        let n: usize = f[1].parse().unwrap();
        let rng = Rng::new(f[2].parse().unwrap());
        let p = rng.bytes(n, b"ACGT");
        let mut t = rng.bytes(37, b"ACGT"); t.extend(&p); t.extend(rng.bytes(11, b"ACGT")); t.extend(&p[..n / 2]); t.extend(&p); t.push(b'A');
        (p, vec![t, b"ACGT".to_vec(), vec![]])
    }
}
pub fn run(input: &str) -> Result<(), String> {
    if let Some(g) = field(input, "gen") { let (p, texts) = big_case(g); return one(field(input, "algo").unwrap_or("bom"), &p, &texts); }
    let p = unhex(field(input, "p").unwrap_or(""));
    let texts: Vec<Vec<u8>> = field(input, "t").unwrap_or("").split(',').map(unhex).collect();
    one(field(input, "algo").unwrap_or("kmp"), &p, &texts)
}

fn fmt(algo: &str, p: &[u8], texts: &[Vec<u8>]) -> String {
    format!("algo={} p={} t={}", algo, hex(p), texts.iter().map(|t| hex(t)).collect::<Vec<_>>().join(","))
}

pub fn search(seed: u64, budget: &Budget, thorough: bool) -> (u64, Option<(String, String)>) {
    let mut tried = 0u64;
    for gen in [format!("rand:70000:{}", seed), "per:23000".to_string()].iter() {
        let (p, texts) = big_case(gen);
        for algo in ["bom", "kmp", "horspool"].iter() {
            tried += 1;
            if let Err(e) = one(algo, &p, &texts) { return (tried, Some((format!("algo={} gen={}", algo, gen), e))); }
        }
    }
    // exhaustive small scope over a binary alphabet: |p| <= 4, |t| <= 7
    for pl in 1..=4usize {
        for pb in 0..(1u32 << pl) {
            let p: Vec<u8> = (0..pl).map(|i| b'a' + ((pb >> i) & 1) as u8).collect();
            let mut texts = vec![];
            for tl in 0..=7usize {
                for tb in 0..(1u32 << tl) {
                    texts.push((0..tl).map(|i| b'a' + ((tb >> i) & 1) as u8).collect::<Vec<u8>>());
                }
            }
            for algo in ALGOS.iter() {
                tried += 1;
                if let Err(e) = one(algo, &p, &texts) {
                    // shrink to the first failing text
                    for t in &texts { if one(algo, &p, &[t.clone()]).is_err() { return (tried, Some((fmt(algo, &p, &[t.clone()]), e))); } }
                    return (tried, Some((fmt(algo, &p, &texts), e)));
                }
            }
        }
    }
    // border-rich patterns (KMP fallback chains, BNDM/BOM factor structure): all binary patterns up to length 9, ternary up to 6,
    // against texts built from overlapping copies of the pattern
    for (alpha, maxlen) in [(&b"ab"[..], 9usize), (&b"abc"[..], 6usize)].iter() {
        let a = alpha.len();
        for pl in 2..=*maxlen {
            let total = (a as u64).pow(pl as u32);
            for code in 0..total {
                let mut c = code;
                let p: Vec<u8> = (0..pl).map(|_| { let x = alpha[(c % a as u64) as usize]; c /= a as u64; x }).collect();
                let mut texts = vec![];
                for ov in 0..pl { let mut t = p.clone(); t.extend_from_slice(&p[ov..]); t.extend_from_slice(&p[..pl - ov]); t.extend_from_slice(&p); texts.push(t); }
                for algo in ALGOS.iter() {
                    tried += 1;
                    if let Err(e) = one(algo, &p, &texts) {
                        for t in &texts { if one(algo, &p, &[t.clone()]).is_err() { return (tried, Some((fmt(algo, &p, &[t.clone()]), e))); } }
                        return (tried, Some((fmt(algo, &p, &texts), e)));
                    }
                }
            }
        }
    }
    // boundary pattern lengths for the bit-parallel matchers, high bytes
    let mut rng = Rng::new(seed);
    for &pl in &[31usize, 32, 33, 63, 64] {
        for alpha in [&b"ab"[..], &b"a"[..], &[0u8, 255, 128][..]].iter() {
            let p = rng.bytes(pl, alpha);
            let mut t = rng.bytes(20, alpha);
            t.extend_from_slice(&p);
            t.extend(rng.bytes(7, alpha));
            t.extend_from_slice(&p);
            let texts = vec![t, p.clone(), p[1..].to_vec(), vec![]];
            for algo in ALGOS.iter() {
                tried += 1;
                if let Err(e) = one(algo, &p, &texts) { return (tried, Some((fmt(algo, &p, &texts), e))); }
            }
        }
    }
    let rounds = if thorough { 300000 } else { 3000 };
    for _ in 0..rounds {
        if !budget.left() { break; }
        let alpha: &[u8] = match rng.below(4) { 0 => b"ab", 1 => b"abc", 2 => b"ACGT", _ => &[0, 1, 127, 128, 255] };
        let lim = if rng.below(4) == 0 { 64 } else { 6 };
        let pl = 1 + rng.below(lim) as usize;
        let p = rng.bytes(pl, alpha);
        let mut texts = vec![];
        for _ in 0..3 {
            let tl = rng.below(40) as usize;
            let mut t = rng.bytes(tl, alpha);
            if rng.below(2) == 0 { let at = rng.below(t.len() as u64 + 1) as usize; let tail = t.split_off(at); t.extend_from_slice(&p); t.extend(tail); }
            texts.push(t);
        }
        for algo in ALGOS.iter() {
            tried += 1;
            if let Err(e) = one(algo, &p, &texts) { return (tried, Some((fmt(algo, &p, &texts), e))); }
        }
    }
    (tried, None)
}

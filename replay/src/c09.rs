//! C09: approximate matchers and distance functions equal the edit-distance definition (oracle: textbook DP)
use crate::util::*;
use bio::alignment::distance::{hamming, levenshtein, simd};
use bio::pattern_matching::myers::{long, Myers, MyersBuilder};
use bio::pattern_matching::ukkonen::{unit_cost, Ukkonen};

/// d[i] = min edit distance between p and a substring of t ending at i (inclusive)
fn ends(p: &[u8], t: &[u8]) -> Vec<usize> {
    let m = p.len();
    let mut col: Vec<usize> = (0..=m).collect();
    let mut out = vec![];
    for &c in t {
        let mut prev_diag = col[0];
        col[0] = 0;
        for j in 1..=m {
            let tmp = col[j];
            col[j] = (prev_diag + (p[j - 1] != c) as usize).min(col[j] + 1).min(col[j - 1] + 1);
            prev_diag = tmp;
        }
        out.push(col[m]);
    }
    out
}
fn lev(a: &[u8], b: &[u8]) -> usize {
    let mut col: Vec<usize> = (0..=a.len()).collect();
    for &c in b {
        let mut pd = col[0];
        col[0] += 1;
        for j in 1..=a.len() { let tmp = col[j]; col[j] = (pd + (a[j - 1] != c) as usize).min(col[j] + 1).min(col[j - 1] + 1); pd = tmp; }
    }
    col[a.len()]
}

fn check(p: &[u8], t: &[u8], k: usize) -> Result<(), String> {
    let (p, t) = (p.to_vec(), t.to_vec());
    guarded(move || {
        let e = ends(&p, &t);
        let want: Vec<(usize, usize)> = e.iter().cloned().enumerate().filter(|x| x.1 <= k).collect();
        let best = e.iter().cloned().enumerate().min_by_key(|x| x.1);
        macro_rules! word { ($T:ty, $bits:expr) => {
            if p.len() <= $bits && k <= 255 {
                let my: Myers<$T> = Myers::new(&p[..]);
                let got: Vec<(usize, usize)> = my.find_all_end(&t[..], k as u8).map(|(i, d)| (i, d as usize)).collect();
                if got != want { return Err(format!("Myers<{}> find_all_end(k={}) = {:?}, definition gives {:?}", stringify!($T), k, got, want)); }
                if let Some((bi, bd)) = best {
                    let (gi, gd) = my.find_best_end(&t[..]);
                    if (gi, gd as usize) != (bi, bd) { return Err(format!("Myers<{}> find_best_end = {:?}, want {:?}", stringify!($T), (gi, gd), (bi, bd))); }
                    if my.distance(&t[..]) as usize != bd { return Err(format!("Myers<{}> distance = {}, want {}", stringify!($T), my.distance(&t[..]), bd)); }
                }
            }
        }; }
        word!(u8, 8); word!(u16, 16); word!(u32, 32); word!(u64, 64);
        {
            let my: long::Myers<u8> = long::Myers::new(&p[..]);
            let got: Vec<(usize, usize)> = my.find_all_end(&t[..], k).collect();
            if got != want { return Err(format!("block Myers<u8> find_all_end(k={}) = {:?}, definition gives {:?}", k, got, want)); }
            let my: long::Myers<u64> = long::Myers::new(&p[..]);
            let got: Vec<(usize, usize)> = my.find_all_end(&t[..], k).collect();
            if got != want { return Err(format!("block Myers<u64> find_all_end(k={}) = {:?}, definition gives {:?}", k, got, want)); }
            // distance() / find_best_end() of the block-based version (patterns of any length)
            if let Some((bi, bd)) = best {
                let my8: long::Myers<u8> = long::Myers::new(&p[..]);
                if my8.distance(&t[..]) != bd { return Err(format!("block Myers<u8> distance = {}, want {}", my8.distance(&t[..]), bd)); }
                if my8.find_best_end(&t[..]) != (bi, bd) { return Err(format!("block Myers<u8> find_best_end = {:?}, want {:?}", my8.find_best_end(&t[..]), (bi, bd))); }
                if my.distance(&t[..]) != bd { return Err(format!("block Myers<u64> distance = {}, want {}", my.distance(&t[..]), bd)); }
            }
        }
        {
            let mut uk = Ukkonen::with_capacity(p.len(), unit_cost);
            let got: Vec<(usize, usize)> = uk.find_all_end(&p[..], &t[..], k).collect();
            if got != want { return Err(format!("Ukkonen find_all_end(k={}) = {:?}, definition gives {:?}", k, got, want)); }
            // the same object reused for other searches (shorter / longer pattern, other k) and then again for this one
            for (p2, k2) in [(&t[..t.len().min(3)], k + 2), (&p[..1], 0), (&t[..], k + 3)].iter() {
                if p2.is_empty() { continue; }
                let e2 = ends(p2, &p);
                let w2: Vec<(usize, usize)> = e2.iter().cloned().enumerate().filter(|x| x.1 <= *k2).collect();
                let g2: Vec<(usize, usize)> = uk.find_all_end(p2, &p[..], *k2).collect();
                if g2 != w2 { return Err(format!("reused Ukkonen: find_all_end(p2={:?}, k={}) = {:?}, definition gives {:?}", p2, k2, g2, w2)); }
            }
            let got: Vec<(usize, usize)> = uk.find_all_end(&p[..], &t[..], k).collect();
            if got != want { return Err(format!("reused Ukkonen find_all_end(k={}) = {:?}, definition gives {:?}", k, got, want)); }
        }
        let l = lev(&p, &t);
        if levenshtein(&p, &t) as usize != l { return Err(format!("levenshtein = {}, want {}", levenshtein(&p, &t), l)); }
        if simd::levenshtein(&p, &t) as usize != l { return Err(format!("simd::levenshtein = {}, want {}", simd::levenshtein(&p, &t), l)); }
        for kk in [l.saturating_sub(1), l, l + 1].iter() {
            let b = simd::bounded_levenshtein(&p, &t, *kk as u32);
            if b != (if l <= *kk { Some(l as u32) } else { None }) { return Err(format!("bounded_levenshtein(k={}) = {:?}, distance is {}", kk, b, l)); }
        }
        let b = simd::bounded_levenshtein(&p, &t, k as u32);
        if b != (if l <= k { Some(l as u32) } else { None }) { return Err(format!("bounded_levenshtein(k={}) = {:?}, distance is {}", k, b, l)); }
        if p.len() == t.len() {
            let h = p.iter().zip(t.iter()).filter(|(a, b)| a != b).count() as u64;
            if hamming(&p, &t) != h || simd::hamming(&p, &t) != h { return Err("hamming differs".into()); }
        }
        Ok(())
    }).and_then(|r| r)
}

/// MyersBuilder: ambiguity codes (pattern symbol -> equivalents) and text wildcards; oracle = the DP over the configured match relation
fn check_builder(p: &[u8], t: &[u8], k: usize, amb: &[(u8, Vec<u8>)], wild: &[u8]) -> Result<(), String> {
    let (p, t, amb, wild) = (p.to_vec(), t.to_vec(), amb.to_vec(), wild.to_vec());
    guarded(move || {
        // the LAST ambig() call for a symbol wins (HashMap::insert)
        let rel = |c: u8, a: u8| c == a || amb.iter().rev().find(|x| x.0 == c).map_or(false, |x| x.1.contains(&a)) || wild.contains(&a);
        let m = p.len();
        let mut col: Vec<usize> = (0..=m).collect();
        let mut e = vec![];
        for &c in t.iter() {
            let mut pd = col[0];
            col[0] = 0;
            for j in 1..=m { let tmp = col[j]; col[j] = (pd + (!rel(p[j - 1], c)) as usize).min(col[j] + 1).min(col[j - 1] + 1); pd = tmp; }
            e.push(col[m]);
        }
        let want: Vec<(usize, usize)> = e.iter().cloned().enumerate().filter(|x| x.1 <= k).collect();
        let mut b = MyersBuilder::new();
        for (c, eqs) in amb.iter() { b.ambig(*c, eqs.iter()); }
        for w in wild.iter() { b.text_wildcard(*w); }
        if m <= 64 && k <= 255 {
            let my = b.build_64(&p[..]);
            let got: Vec<(usize, usize)> = my.find_all_end(&t[..], k as u8).map(|(i, d)| (i, d as usize)).collect();
            if got != want { return Err(format!("builder build_64 find_all_end(k={}) = {:?}, relation DP gives {:?}", k, got, want)); }
        }
        if m <= 16 && k <= 255 {
            let my: Myers<u16> = b.build(&p[..]);
            let got: Vec<(usize, usize)> = my.find_all_end(&t[..], k as u8).map(|(i, d)| (i, d as usize)).collect();
            if got != want { return Err(format!("builder build::<u16> find_all_end(k={}) = {:?}, relation DP gives {:?}", k, got, want)); }
        }
        let my = b.build_long_64(&p[..]);
        let got: Vec<(usize, usize)> = my.find_all_end(&t[..], k).collect();
        if got != want { return Err(format!("builder build_long_64 find_all_end(k={}) = {:?}, relation DP gives {:?}", k, got, want)); }
        let my: long::Myers<u8> = b.build_long(&p[..]);
        let got: Vec<(usize, usize)> = my.find_all_end(&t[..], k).collect();
        if got != want { return Err(format!("builder build_long::<u8> find_all_end(k={}) = {:?}, relation DP gives {:?}", k, got, want)); }
        Ok(())
    }).and_then(|r| r)
}
/// "amb" field: groups separated by '.', each = symbol byte followed by its equivalents (hex)
fn parse_amb(s: &str) -> Vec<(u8, Vec<u8>)> {
    s.split('.').filter(|g| g.len() >= 2).map(|g| { let b = unhex(g); (b[0], b[1..].to_vec()) }).collect()
}
fn fmt_amb(a: &[(u8, Vec<u8>)]) -> String {
    a.iter().map(|(c, e)| { let mut v = vec![*c]; v.extend(e.iter()); hex(&v) }).collect::<Vec<_>>().join(".")
}
pub fn run(input: &str) -> Result<(), String> {
    if let Some(a) = field(input, "amb") {
        return check_builder(&unhex(field(input, "p").unwrap_or("")), &unhex(field(input, "t").unwrap_or("")), num(input, "k"), &parse_amb(a), &unhex(field(input, "w").unwrap_or("")));
    }
    check(&unhex(field(input, "p").unwrap_or("")), &unhex(field(input, "t").unwrap_or("")), num(input, "k"))
}
pub fn search(seed: u64, budget: &Budget, thorough: bool) -> (u64, Option<(String, String)>) {
    let rng = Rng::new(seed);
    let mut tried = 0;
    for pl in 1..=3usize { for pb in 0..(1u32 << pl) { for tl in 0..=5usize { for tb in 0..(1u32 << tl) { for k in 0..=2 {
        let p: Vec<u8> = (0..pl).map(|i| b'a' + ((pb >> i) & 1) as u8).collect();
        let t: Vec<u8> = (0..tl).map(|i| b'a' + ((tb >> i) & 1) as u8).collect();
        tried += 1;
        if let Err(e) = check(&p, &t, k) { return (tried, Some((format!("k={} p={} t={}", k, hex(&p), hex(&t)), e))); }
    } } } } }
    let rounds = if thorough { 200000 } else { 3000 };
    for _ in 0..rounds {
        if !budget.left() { break; }
        let alpha: &[u8] = if rng.below(2) == 0 { b"ab" } else { b"ACGT" };
        let pl = 1 + rng.below(*rng.pick(&[4u64, 8, 9, 16, 17, 33, 64, 70])) as usize;
        let p = rng.bytes(pl, alpha);
        let mut t = rng.bytes(rng.below(60) as usize, alpha);
        if rng.below(2) == 0 { let mut q = p.clone(); if !q.is_empty() && rng.below(2) == 0 { let i = rng.below(q.len() as u64) as usize; q[i] = *rng.pick(alpha); } let at = rng.below(t.len() as u64 + 1) as usize; let tail = t.split_off(at); t.extend(q); t.extend(tail); }
        // (three searches in eight with a threshold up to / around the pattern length: thresholds of one machine word and more start the
        // block-based matcher with several blocks)
        let k = match rng.below(8) { 0 => rng.below(pl as u64 + 3) as usize, 1 | 2 => (pl + rng.below(3) as usize).saturating_sub(1), _ => rng.below(6) as usize };
        if pl > 8 && rng.below(2) == 0 {
            // multi-word pattern, text = noise + copy of the pattern with exactly <= k edits + noise
            let mut q = p.clone();
            for _ in 0..k { let i = rng.below(q.len() as u64) as usize; match rng.below(3) { 0 => { q[i] = *rng.pick(alpha); } 1 => { q.remove(i); } _ => { q.insert(i, *rng.pick(alpha)); } } if q.is_empty() { q.push(alpha[0]); } }
            t = rng.bytes(rng.below(6) as usize, alpha); t.extend(q); t.extend(rng.bytes(rng.below(4) as usize, alpha));
        }
        tried += 1;
        if let Err(e) = check(&p, &t, k) { return (tried, Some((format!("k={} p={} t={}", k, hex(&p), hex(&t)), e))); }
        // the same search through MyersBuilder with a random ambiguity map (a symbol may be configured twice) and wildcards
        let mut amb: Vec<(u8, Vec<u8>)> = vec![];
        for _ in 0..rng.below(3) { let c = *rng.pick(alpha); let n = rng.below(3) as usize; amb.push((c, rng.bytes(n, alpha))); }
        let wild = rng.bytes(rng.below(4) as usize, alpha);
        if let Err(e) = check_builder(&p, &t, k, &amb, &wild) { return (tried, Some((format!("k={} p={} t={} amb={}. w={}", k, hex(&p), hex(&t), fmt_amb(&amb), hex(&wild)), e))); }
    }
    (tried, None)
}

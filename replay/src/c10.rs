//! C10: Myers traceback yields valid alignments, consistent across the eager API, the lazy API and find_all_end, identical between the
//! single-word and the block-based implementation; lazy queries for positions not searched yet are refused (oracle: textbook DP)
use crate::util::*;
use bio::alignment::{Alignment, AlignmentMode, AlignmentOperation};
use bio::pattern_matching::myers::{long, Myers};

/// d[i] = min edit distance between p and a substring of t ending at i (inclusive)
fn ends(p: &[u8], t: &[u8]) -> Vec<usize> {
    let m = p.len();
    let mut col: Vec<usize> = (0..=m).collect();
    let mut out = vec![];
    for &c in t {
        let mut prev_diag = col[0];
        col[0] = 0;
        for j in 1..=m {
            let tmp = col[j];
            col[j] = (prev_diag + (p[j - 1] != c) as usize).min(col[j] + 1).min(col[j - 1] + 1);
            prev_diag = tmp;
        }
        out.push(col[m]);
    }
    out
}
fn lev(a: &[u8], b: &[u8]) -> usize {
    let mut col: Vec<usize> = (0..=a.len()).collect();
    for &c in b {
        let mut pd = col[0];
        col[0] += 1;
        for j in 1..=a.len() { let tmp = col[j]; col[j] = (pd + (a[j - 1] != c) as usize).min(col[j] + 1).min(col[j - 1] + 1); pd = tmp; }
    }
    col[a.len()]
}

/// one traceback result: text range [start, end) (end exclusive), distance, path from start to end (None: only positions were asked)
type Hit = (usize, usize, usize, Option<Vec<AlignmentOperation>>);

/// the clauses of the property on one result
fn valid(what: &str, p: &[u8], t: &[u8], e: &[usize], h: &Hit) -> Result<(), String> {
    let (start, end, dist, path) = h;
    if *end == 0 || *end > t.len() || *start > *end { return Err(format!("{}: range {}..{} outside the text", what, start, end)); }
    if e[*end - 1] != *dist { return Err(format!("{}: distance {} at end {}, the definition (find_all_end) gives {}", what, dist, end - 1, e[*end - 1])); }
    let l = lev(p, &t[*start..*end]);
    if l != *dist { return Err(format!("{}: substring {}..{} has edit distance {} to the pattern, reported {}", what, start, end, l, dist)); }
    if let Some(ops) = path {
        let (mut i, mut j, mut cost) = (0usize, *start, 0usize);
        for op in ops.iter() {
            match op {
                AlignmentOperation::Match => { if i >= p.len() || j >= *end || p[i] != t[j] { return Err(format!("{}: Match on unequal symbols or outside (x {}, y {})", what, i, j)); } i += 1; j += 1; }
                AlignmentOperation::Subst => { if i >= p.len() || j >= *end || p[i] == t[j] { return Err(format!("{}: Subst on equal symbols or outside (x {}, y {})", what, i, j)); } i += 1; j += 1; cost += 1; }
                AlignmentOperation::Ins => { if i >= p.len() { return Err(format!("{}: Ins beyond the pattern", what)); } i += 1; cost += 1; }
                AlignmentOperation::Del => { if j >= *end { return Err(format!("{}: Del beyond the substring", what)); } j += 1; cost += 1; }
                _ => return Err(format!("{}: clip operation in a Myers path", what)),
            }
        }
        if i != p.len() || j != *end { return Err(format!("{}: path consumes {} pattern and {} text symbols of {} / {}..{}", what, i, j, p.len(), start, end)); }
        if cost != *dist { return Err(format!("{}: path has {} non-match operations, distance {}", what, cost, dist)); }
    }
    Ok(())
}
fn aln_hit(what: &str, a: &Alignment, m: usize, tl: usize) -> Result<Hit, String> {
    if a.xstart != 0 || a.xend != m || a.xlen != m || a.ylen != tl || a.mode != AlignmentMode::Semiglobal || a.score < 0 {
        return Err(format!("{}: alignment record x {}..{} xlen {} ylen {} mode {:?} score {}", what, a.xstart, a.xend, a.xlen, a.ylen, a.mode, a.score));
    }
    Ok((a.ystart, a.yend, a.score as usize, Some(a.operations.clone())))
}

/// a recycled alignment record: every field holds something from an earlier, unrelated (semiglobal) alignment
fn dirty_aln() -> Alignment {
    Alignment { score: -7, ystart: 11, xstart: 3, yend: 12, xend: 99, ylen: 1234, xlen: 77, operations: vec![AlignmentOperation::Del, AlignmentOperation::Xclip(3)], mode: AlignmentMode::Semiglobal }
}
macro_rules! api_check { ($name:ident, $M:ty, $D:ty, $hits_only:expr) => {
    /// all APIs of one implementation; returns the (start, end, dist, path) list of the hits (for comparison between implementations)
    fn $name(tag: &str, my: &mut $M, p: &[u8], t: &[u8], k: usize, order: u64) -> Result<Vec<Hit>, String> {
        let e = ends(p, t);
        let m = p.len();
        let want: Vec<(usize, usize)> = e.iter().cloned().enumerate().filter(|x| x.1 <= k).collect();
        let got: Vec<(usize, usize)> = my.find_all_end(t, k as $D).map(|(i, d)| (i, d as usize)).collect();
        if got != want { return Err(format!("{} find_all_end(k={}) = {:?}, definition gives {:?}", tag, k, got, want)); }
        // eager API: iterator of (start, end, dist)
        let it: Vec<(usize, usize, usize)> = my.find_all(t, k as $D).map(|(s, e2, d)| (s, e2, d as usize)).collect();
        if it.len() != want.len() { return Err(format!("{} find_all reports {} hits, find_all_end {}", tag, it.len(), want.len())); }
        let mut hits: Vec<Hit> = vec![];
        for (n, h) in it.iter().enumerate() {
            if (h.1 - 1, h.2) != want[n] { return Err(format!("{} find_all hit {:?} but find_all_end {:?}", tag, h, want[n])); }
            valid(&format!("{} find_all", tag), p, t, &e, &(h.0, h.1, h.2, None))?;
        }
        // eager API: next_path / next_path_reverse / next_alignment / next_end + start, path, path_reverse, alignment
        {
            let mut ops = vec![AlignmentOperation::Del; 3];
            let mut fm = my.find_all(t, k as $D);
            let mut n = 0;
            while let Some((s, e2, d)) = fm.next_path(&mut ops) {
                let h: Hit = (s, e2, d as usize, Some(ops.clone()));
                valid(&format!("{} next_path", tag), p, t, &e, &h)?;
                if n >= it.len() || (s, e2, d as usize) != it[n] { return Err(format!("{} next_path gives {:?}, the iterator {:?}", tag, (s, e2, d), it.get(n))); }
                hits.push(h);
                n += 1;
            }
            if n != it.len() { return Err(format!("{} next_path stops after {} of {} hits", tag, n, it.len())); }
            let mut fm = my.find_all(t, k as $D);
            let mut n = 0;
            while let Some((s, e2, d)) = fm.next_path_reverse(&mut ops) {
                let mut fw = ops.clone(); fw.reverse();
                if n >= hits.len() || (s, e2, d as usize, Some(fw)) != hits[n] { return Err(format!("{} next_path_reverse differs from next_path at hit {}", tag, n)); }
                n += 1;
            }
            if n != it.len() { return Err(format!("{} next_path_reverse stops after {} of {} hits", tag, n, it.len())); }
            let mut aln = dirty_aln();
            let mut fm = my.find_all(t, k as $D);
            let mut n = 0;
            while fm.next_alignment(&mut aln) {
                let h = aln_hit(&format!("{} next_alignment", tag), &aln, m, t.len())?;
                if n >= hits.len() || h != hits[n] { return Err(format!("{} next_alignment gives {:?}, next_path {:?}", tag, h, hits.get(n))); }
                n += 1;
            }
            if n != it.len() { return Err(format!("{} next_alignment stops after {} of {} hits", tag, n, it.len())); }
            let mut fm = my.find_all(t, k as $D);
            let mut n = 0;
            while let Some((end, d)) = fm.next_end() {
                if n >= hits.len() { return Err(format!("{} next_end reports more hits than next_path", tag)); }
                let want_h = &hits[n];
                if (end + 1, d as usize) != (want_h.1, want_h.2) { return Err(format!("{} next_end {:?} differs from next_path", tag, (end, d))); }
                // the accessors in an order chosen by the input, some twice
                for q in 0..4 {
                    match (order.rotate_right(((2 * q + n) % 64) as u32)) & 3 {
                        0 => { if fm.start() != Some(want_h.0) { return Err(format!("{} start() = {:?}, next_path start {}", tag, fm.start(), want_h.0)); } }
                        1 => { let s = fm.path(&mut ops); if (s, Some(&ops)) != (Some(want_h.0), want_h.3.as_ref()) { return Err(format!("{} path() differs from next_path at hit {}", tag, n)); } }
                        2 => { let s = fm.path_reverse(&mut ops); let mut fw = ops.clone(); fw.reverse(); if (s, Some(&fw)) != (Some(want_h.0), want_h.3.as_ref()) { return Err(format!("{} path_reverse() differs from next_path at hit {}", tag, n)); } }
                        _ => { if !fm.alignment(&mut aln) { return Err(format!("{} alignment() refused at a hit", tag)); } let h = aln_hit(&format!("{} alignment", tag), &aln, m, t.len())?; if &h != want_h { return Err(format!("{} alignment() gives {:?}, next_path {:?}", tag, h, want_h)); } }
                    }
                }
                n += 1;
            }
            if n != it.len() { return Err(format!("{} next_end stops after {} of {} hits", tag, n, it.len())); }
        }
        // lazy API: queries at any searched end position, in an order chosen by the input, repeatedly, interleaved with the iteration
        {
            let mut ops = vec![];
            let mut aln = dirty_aln();
            let mut lm = my.find_all_lazy(t, k as $D);
            let mut n = 0;
            let mut visited = 0usize; // number of text positions searched
            let mut r = order | 1;
            loop {
                // queries before the step: positions searched so far answer, later ones are refused
                for _ in 0..3 {
                    r = r.wrapping_mul(6364136223846793005).wrapping_add(1442695040888963407);
                    let q = ((r >> 33) as usize) % (t.len() + 2);
                    // the block-based implementation documents that it answers only where the distance is within max_dist
                    if $hits_only && q < visited && e[q] > k { continue; }
                    let hit = lm.hit_at(q);
                    if q >= visited {
                        if hit.is_some() { return Err(format!("{} hit_at({}) answered {:?} with only {} positions searched", tag, q, hit, visited)); }
                        ops.clear();
                        if lm.path_at(q, &mut ops).is_some() || lm.alignment_at(q, &mut aln) { return Err(format!("{} path_at/alignment_at({}) answered with only {} positions searched", tag, q, visited)); }
                    } else {
                        let (s, d) = hit.ok_or(format!("{} hit_at({}) refused though {} positions are searched", tag, q, visited))?;
                        ops.clear();
                        let pr = lm.path_at(q, &mut ops);
                        if pr != Some((s, d)) { return Err(format!("{} path_at({}) = {:?}, hit_at {:?}", tag, q, pr, (s, d))); }
                        let h: Hit = (s, q + 1, d as usize, Some(ops.clone()));
                        valid(&format!("{} path_at({})", tag, q), p, t, &e, &h)?;
                        let mut rv = vec![];
                        if lm.path_at_reverse(q, &mut rv) != Some((s, d)) { return Err(format!("{} path_at_reverse({}) differs from hit_at", tag, q)); }
                        rv.reverse();
                        if Some(rv) != h.3 { return Err(format!("{} path_at_reverse({}) is not the reverse of path_at", tag, q)); }
                        if !lm.alignment_at(q, &mut aln) { return Err(format!("{} alignment_at({}) refused", tag, q)); }
                        let ha = aln_hit(&format!("{} alignment_at({})", tag, q), &aln, m, t.len())?;
                        if ha != h { return Err(format!("{} alignment_at({}) gives {:?}, path_at {:?}", tag, q, ha, h)); }
                        // a hit: the eager API found the same alignment
                        if let Some(eh) = hits.iter().find(|x| x.1 == q + 1) { if eh != &h { return Err(format!("{} lazy {:?} differs from eager {:?}", tag, h, eh)); } }
                    }
                }
                match lm.next() {
                    Some((end, d)) => {
                        if n >= want.len() || (end, d as usize) != want[n] { return Err(format!("{} lazy next {:?}, find_all_end {:?}", tag, (end, d), want.get(n))); }
                        visited = end + 1;
                        n += 1;
                    }
                    None => {
                        if n != want.len() { return Err(format!("{} lazy iteration stops after {} of {} hits", tag, n, want.len())); }
                        if visited == t.len() { break; }
                        visited = t.len();
                    }
                }
            }
        }
        Ok(hits)
    }
}; }
api_check!(api_u8, Myers<u8>, u8, false);
api_check!(api_u16, Myers<u16>, u8, false);
api_check!(api_u32, Myers<u32>, u8, false);
api_check!(api_u64, Myers<u64>, u8, false);
api_check!(api_l8, long::Myers<u8>, usize, true);
api_check!(api_l64, long::Myers<u64>, usize, true);

fn check(p: &[u8], t: &[u8], k: usize, t2: &[u8], k2: usize, order: u64) -> Result<(), String> {
    let (p, t, t2) = (p.to_vec(), t.to_vec(), t2.to_vec());
    guarded(move || {
        let mut all: Vec<(String, Vec<Hit>)> = vec![];
        macro_rules! one { ($f:ident, $M:ty, $tag:expr, $ok:expr, $kmax:expr) => {
            if $ok && k <= $kmax && k2 <= $kmax {
                let mut my: $M = <$M>::new(&p[..]);
                // the same object first used for another search (other text, other k), then for this one, then again
                $f(&format!("{} (first search)", $tag), &mut my, &p, &t2, k2, order.rotate_left(7))?;
                let h = $f($tag, &mut my, &p, &t, k, order)?;
                let h2 = $f(&format!("{} (reused)", $tag), &mut my, &p, &t, k, order.rotate_left(13))?;
                if h != h2 { return Err(format!("{}: a reused matcher reports different alignments", $tag)); }
                all.push(($tag.to_string(), h));
            }
        }; }
        one!(api_u8, Myers<u8>, "Myers<u8>", p.len() <= 8, 255);
        one!(api_u16, Myers<u16>, "Myers<u16>", p.len() <= 16, 255);
        one!(api_u32, Myers<u32>, "Myers<u32>", p.len() <= 32, 255);
        one!(api_u64, Myers<u64>, "Myers<u64>", p.len() <= 64, 255);
        one!(api_l8, long::Myers<u8>, "long::Myers<u8>", true, usize::MAX);
        one!(api_l64, long::Myers<u64>, "long::Myers<u64>", true, usize::MAX);
        for w in all.windows(2) {
            if w[0].1 != w[1].1 { return Err(format!("{} and {} produce different alignments: {:?} vs {:?}", w[0].0, w[1].0, w[0].1, w[1].1)); }
        }
        Ok(())
    }).and_then(|r| r)
}
pub fn run(input: &str) -> Result<(), String> {
    check(&unhex(field(input, "p").unwrap_or("")), &unhex(field(input, "t").unwrap_or("")), num(input, "k"),
          &unhex(field(input, "t2").unwrap_or("")), num(input, "k2"), num(input, "o") as u64)
}
fn fmt(p: &[u8], t: &[u8], k: usize, t2: &[u8], k2: usize, o: u64) -> String {
    format!("k={} k2={} o={} p={} t={} t2={}", k, k2, o, hex(p), hex(t), hex(t2))
}
pub fn search(seed: u64, budget: &Budget, thorough: bool) -> (u64, Option<(String, String)>) {
    let rng = Rng::new(seed);
    let mut tried = 0;
    for pl in 1..=3usize { for pb in 0..(1u32 << pl) { for tl in 0..=5usize { for tb in 0..(1u32 << tl) { for k in 0..=3 {
        let p: Vec<u8> = (0..pl).map(|i| b'a' + ((pb >> i) & 1) as u8).collect();
        let t: Vec<u8> = (0..tl).map(|i| b'a' + ((tb >> i) & 1) as u8).collect();
        tried += 1;
        let o = (tried as u64).wrapping_mul(0x9E3779B97F4A7C15) >> 20;
        let t2 = &t[..tl / 2];
        if let Err(e) = check(&p, &t, k, t2, 1, o) { return (tried, Some((fmt(&p, &t, k, t2, 1, o), e))); }
    } } } } }
    let rounds = if thorough { 100000 } else { 1500 };
    for _ in 0..rounds {
        if !budget.left() { break; }
        let alpha: &[u8] = if rng.below(2) == 0 { b"ab" } else { b"ACGT" };
        let pl = 1 + rng.below(*rng.pick(&[4u64, 8, 9, 16, 17, 33, 64, 70])) as usize;
        let p = rng.bytes(pl, alpha);
        let mut t = rng.bytes(rng.below(60) as usize, alpha);
        // copies of the pattern with a few edits, so that hits (and the ring buffer wrap-around of the eager API) occur
        for _ in 0..rng.below(3) {
            let mut q = p.clone();
            for _ in 0..rng.below(4) { let i = rng.below(q.len() as u64) as usize; match rng.below(3) { 0 => { q[i] = *rng.pick(alpha); } 1 => { q.remove(i); } _ => { q.insert(i, *rng.pick(alpha)); } } if q.is_empty() { q.push(alpha[0]); } }
            let at = rng.below(t.len() as u64 + 1) as usize; let tail = t.split_off(at); t.extend(q); t.extend(tail);
        }
        let mut k = *rng.pick(&[0usize, 1, 2, 3, 5, pl, pl + 3, 80]);
        let mut t2 = rng.bytes(rng.below(40) as usize, alpha);
        let mut k2 = rng.below(7) as usize;
        // reuse scenario: the first search runs over a long text unlike the pattern with a large threshold (the eager ring wraps and keeps
        // columns with many blocks), the second text starts with a suffix of the pattern and the threshold admits the leading insertions
        if rng.below(4) == 0 && pl >= 4 {
            let other: u8 = *rng.pick(b"GXN");
            t2 = vec![other; pl + pl / 2 + 6 + rng.below(30) as usize];
            k2 = pl / 2 + rng.below(pl as u64 / 2 + 1) as usize;
            let cut = 1 + rng.below(pl as u64 - 1) as usize;
            let mut t3 = p[cut..].to_vec(); t3.extend(rng.bytes(rng.below(20) as usize, alpha));
            t = t3;
            k = cut + rng.below(3) as usize;
        }
        let o = rng.next() >> 12;
        tried += 1;
        if let Err(e) = check(&p, &t, k, &t2, k2, o) { return (tried, Some((fmt(&p, &t, k, &t2, k2, o), e))); }
    }
    (tried, None)
}

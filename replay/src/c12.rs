//! C12: indexed FASTA random access returns exactly the requested slice (oracle: the sequences themselves)
use crate::util::*;
use bio::io::fasta::IndexedReader;
use std::io::{self, Read, Seek, SeekFrom};

/// reader that hands out at most `chunk` bytes per read() call
struct Frag { data: Vec<u8>, pos: u64, chunk: usize }
impl Read for Frag {
    fn read(&mut self, buf: &mut [u8]) -> io::Result<usize> {
        let p = self.pos as usize;
        if p >= self.data.len() { return Ok(0); }
        let n = buf.len().min(self.chunk).min(self.data.len() - p);
        buf[..n].copy_from_slice(&self.data[p..p + n]);
        self.pos += n as u64;
        Ok(n)
    }
}
impl Seek for Frag {
    fn seek(&mut self, pos: SeekFrom) -> io::Result<u64> {
        match pos { SeekFrom::Start(o) => self.pos = o, SeekFrom::Current(d) => self.pos = (self.pos as i64 + d) as u64, SeekFrom::End(d) => self.pos = (self.data.len() as i64 + d) as u64 }
        Ok(self.pos)
    }
}

fn build(seqs: &[Vec<u8>], width: usize, crlf: bool) -> (Vec<u8>, Vec<u8>) {
    let nl: &[u8] = if crlf { b"\r\n" } else { b"\n" };
    let mut fa = vec![]; let mut fai = vec![];
    for (i, s) in seqs.iter().enumerate() {
        fa.extend_from_slice(format!(">s{}", i).as_bytes()); fa.extend_from_slice(nl);
        let off = fa.len();
        for ch in s.chunks(width) { fa.extend_from_slice(ch); fa.extend_from_slice(nl); }
        fai.extend_from_slice(format!("s{}\t{}\t{}\t{}\t{}\n", i, s.len(), off, width, width + nl.len()).as_bytes());
    }
    (fa, fai)
}

// fetches: [rid, start, stop, mode(0 read,1 iter)]
fn check(seqs: &[Vec<u8>], width: usize, crlf: bool, chunk: usize, trunc: usize, fetches: &[Vec<i64>]) -> Result<(), String> {
    let (seqs, fetches) = (seqs.to_vec(), fetches.to_vec());
    guarded(move || {
        let (mut fa, fai) = build(&seqs, width, crlf);
        let full_len = fa.len();
        if trunc > 0 && trunc < fa.len() { fa.truncate(fa.len() - trunc); }
        let truncated = fa.len() < full_len;
        let mut r = IndexedReader::new(Frag { data: fa, pos: 0, chunk }, &fai[..]).map_err(|e| format!("index: {}", e))?;
        let mut buf = vec![];
        if r.read(&mut buf).is_ok() { return Err("read without fetch succeeded".into()); }
        for f in &fetches {
            let (rid, start, stop, mode) = (f[0] as usize, f[1] as u64, f[2] as u64, f[3]);
            let byname = mode >= 2;
            let fr = if byname { r.fetch(&format!("s{}", rid), start, stop) } else { r.fetch_by_rid(rid, start, stop) };
            if rid >= seqs.len() { if fr.is_ok() { return Err(format!("fetch of unknown record {} succeeded", rid)); } continue; }
            fr.map_err(|e| format!("fetch failed: {}", e))?;
            let valid = start <= stop && stop as usize <= seqs[rid].len();
            let got: Result<Vec<u8>, String> = if mode % 2 == 0 {
                let mut b = vec![9, 9, 9];
                r.read(&mut b).map(|_| b).map_err(|e| e.to_string())
            } else {
                match r.read_iter() { Ok(it) => it.collect::<Result<Vec<u8>, _>>().map_err(|e| e.to_string()), Err(e) => Err(e.to_string()) }
            };
            match got {
                Ok(b) => {
                    if !valid { return Err(format!("invalid interval {}..{} of record {} (len {}) was not refused", start, stop, rid, seqs[rid].len())); }
                    let want = &seqs[rid][start as usize..stop as usize];
                    if b != want { return Err(format!("record {} [{}..{}) (width {}, chunk {}, crlf {}, trunc {}): got {:?}, want {:?}", rid, start, stop, width, chunk, crlf, trunc, String::from_utf8_lossy(&b), String::from_utf8_lossy(want))); }
                }
                Err(e) => { if valid && !truncated { return Err(format!("valid fetch {}..{} of record {} failed: {}", start, stop, rid, e)); } }
            }
        }
        Ok(())
    }).and_then(|r| r)
}

fn enc(seqs: &[Vec<u8>], width: usize, crlf: bool, chunk: usize, trunc: usize, fetches: &[Vec<i64>]) -> String {
    format!("seqs={} width={} crlf={} chunk={} trunc={} fetches={}", seqs.iter().map(|s| hex(s)).collect::<Vec<_>>().join(","), width, crlf as u8, chunk, trunc,
        fetches.iter().map(|o| o.iter().map(|x| x.to_string()).collect::<Vec<_>>().join(":")).collect::<Vec<_>>().join(","))
}
pub fn run(input: &str) -> Result<(), String> {
    let seqs: Vec<Vec<u8>> = field(input, "seqs").unwrap_or("").split(',').map(unhex).collect();
    let f = field(input, "fetches").unwrap_or("");
    let fetches: Vec<Vec<i64>> = if f.is_empty() { vec![] } else { f.split(',').map(|o| o.split(':').map(|x| x.parse().unwrap()).collect()).collect() };
    check(&seqs, num(input, "width"), num(input, "crlf") == 1, num(input, "chunk"), num(input, "trunc"), &fetches)
}
pub fn search(seed: u64, budget: &Budget, thorough: bool) -> (u64, Option<(String, String)>) {
    let mut rng = Rng::new(seed);
    let mut tried = 0;
    let rounds = if thorough { 100000 } else { 3000 };
    for _ in 0..rounds {
        if !budget.left() { break; }
        let nseq = 1 + rng.below(3) as usize;
        let seqs: Vec<Vec<u8>> = (0..nseq).map(|_| { let n = rng.below(41) as usize; rng.bytes(n, b"ACGTN") }).collect();
        let width = 1 + rng.below(12) as usize;
        let crlf = rng.below(2) == 1;
        let chunk = *rng.pick(&[1usize, 2, 3, 5, 7, 64, 8192]);
        let trunc = if rng.below(4) == 0 { 1 + rng.below(20) as usize } else { 0 };
        let mut fetches = vec![];
        for _ in 0..1 + rng.below(4) {
            let rid = rng.below(nseq as u64 + if rng.below(8) == 0 { 1 } else { 0 }) as usize;
            let len = if rid < nseq { seqs[rid].len() as u64 } else { 5 };
            let mut a = rng.below(len + 1); let mut b = rng.below(len + 1 + if rng.below(8) == 0 { 2 } else { 0 });
            if a > b && rng.below(8) != 0 { std::mem::swap(&mut a, &mut b); }
            fetches.push(vec![rid as i64, a as i64, b as i64, rng.below(4) as i64]);
        }
        tried += 1;
        if let Err(e) = check(&seqs, width, crlf, chunk, trunc, &fetches) { return (tried, Some((enc(&seqs, width, crlf, chunk, trunc, &fetches), e))); }
    }
    (tried, None)
}

//! C17: rank/select and wavelet matrix equal naive counting
use crate::util::*;
use bio::data_structures::rank_select::RankSelect;
use bio::data_structures::wavelet_matrix::WaveletMatrix;
use bv::{BitVec, BitsMut};

fn check_rs(bits: &[u8], k: usize) -> Result<(), String> {
    let bits = bits.to_vec();
    guarded(move || {
        let n = bits.len();
        let mut bv: BitVec<u8> = BitVec::new_fill(false, n as u64);
        for (i, &b) in bits.iter().enumerate() { if b == 1 { bv.set_bit(i as u64, true); } }
        let rs = RankSelect::new(bv, k);
        let (mut ones, mut zeros) = (0u64, 0u64);
        for i in 0..n {
            if bits[i] == 1 { ones += 1; } else { zeros += 1; }
            if rs.rank_1(i as u64) != Some(ones) { return Err(format!("rank_1({}) = {:?}, count is {}", i, rs.rank_1(i as u64), ones)); }
            if rs.rank_0(i as u64) != Some(zeros) { return Err(format!("rank_0({}) = {:?}, count is {}", i, rs.rank_0(i as u64), zeros)); }
            if rs.get(i as u64) != (bits[i] == 1) { return Err(format!("get({}) wrong", i)); }
        }
        if rs.rank_1(n as u64).is_some() || rs.rank_0(n as u64).is_some() { return Err("rank beyond the end is Some".into()); }
        let pos1: Vec<u64> = (0..n).filter(|&i| bits[i] == 1).map(|i| i as u64).collect();
        let pos0: Vec<u64> = (0..n).filter(|&i| bits[i] == 0).map(|i| i as u64).collect();
        for j in 0..=(n as u64 + 1) {
            let w1 = if j >= 1 && (j as usize) <= pos1.len() { Some(pos1[j as usize - 1]) } else { None };
            let w0 = if j >= 1 && (j as usize) <= pos0.len() { Some(pos0[j as usize - 1]) } else { None };
            if rs.select_1(j) != w1 { return Err(format!("select_1({}) = {:?}, want {:?}", j, rs.select_1(j), w1)); }
            if rs.select_0(j) != w0 { return Err(format!("select_0({}) = {:?}, want {:?}", j, rs.select_0(j), w0)); }
        }
        Ok(())
    }).and_then(|r| r)
}
fn check_wm(text: &[u8]) -> Result<(), String> {
    let text = text.to_vec();
    guarded(move || {
        let wm = WaveletMatrix::new(&text);
        for &c in b"ACGTN$" {
            let mut cnt = 0u64;
            for p in 0..text.len() {
                if text[p] == c { cnt += 1; }
                let got = wm.rank(c, p as u64);
                if got != cnt { return Err(format!("WaveletMatrix::rank({}, {}) = {}, count is {}", c as char, p, got, cnt)); }
            }
        }
        Ok(())
    }).and_then(|r| r)
}
pub fn run(input: &str) -> Result<(), String> {
    if let Some(t) = field(input, "text") { return check_wm(&unhex(t)); }
    let bits: Vec<u8> = field(input, "bits").unwrap_or("").bytes().map(|c| c - b'0').collect();
    check_rs(&bits, num(input, "k"))
}
pub fn search(seed: u64, budget: &Budget, thorough: bool) -> (u64, Option<(String, String)>) {
    let mut rng = Rng::new(seed);
    let mut tried = 0;
    let show = |b: &[u8]| b.iter().map(|x| (b'0' + x) as char).collect::<String>();
    // exhaustive tiny
    for n in 1..=10usize { for v in 0..(1u32 << n) {
        let bits: Vec<u8> = (0..n).map(|i| ((v >> i) & 1) as u8).collect();
        tried += 1;
        if let Err(e) = check_rs(&bits, 1) { return (tried, Some((format!("k=1 bits={}", show(&bits)), e))); }
    } }
    let rounds = if thorough { 100000 } else { 1500 };
    for _ in 0..rounds {
        if !budget.left() { break; }
        let n = 1 + rng.below(if rng.below(4) == 0 { 700 } else { 100 }) as usize;
        let dens = 1 + rng.below(9);
        let bits: Vec<u8> = (0..n).map(|_| (rng.below(10) < dens) as u8).collect();
        let k = 1 + rng.below(3) as usize;
        tried += 1;
        if let Err(e) = check_rs(&bits, k) { return (tried, Some((format!("k={} bits={}", k, show(&bits)), e))); }
        let tl = 1 + rng.below(60) as usize;
        let t = rng.bytes(tl, if rng.below(2) == 0 { &b"ACGTN$"[..] } else { &b"ACGT"[..] });
        if let Err(e) = check_wm(&t) { return (tried, Some((format!("text={}", hex(&t)), e))); }
    }
    (tried, None)
}

//! C18: bit-packed containers behave like plain vectors (oracle: Vec models)
use crate::util::*;
use bio::data_structures::bit_tree::{FenwickTree, MaxOp, SumOp};
use bio::data_structures::bitenc::BitEnc;
use bio::data_structures::smallints::SmallInts;

// ops: P:v push, V:n:v push_values, S:i:v set, C clear
fn bitenc_run(w: usize, ops: &[Vec<i64>]) -> Result<(), String> {
    let ops = ops.to_vec();
    guarded(move || {
        let mask: u8 = if w == 8 { 0xff } else { (1u8 << w) - 1 };
        let mut model: Vec<u8> = vec![];
        let mut b = BitEnc::new(w);
        for op in &ops {
            match op[0] {
                0 => { b.push(op[1] as u8); model.push(op[1] as u8 & mask); }
                1 => { b.push_values(op[1] as usize, op[2] as u8); for _ in 0..op[1] { model.push(op[2] as u8 & mask); } }
                2 => { if (op[1] as usize) < model.len() { b.set(op[1] as usize, op[2] as u8); model[op[1] as usize] = op[2] as u8 & mask; } }
                _ => { b.clear(); model.clear(); }
            }
            if b.nr_symbols() != model.len() { return Err(format!("len {} != model {}", b.nr_symbols(), model.len())); }
            let per_block = 32 / w;
            if b.nr_blocks() != (model.len() + per_block - 1) / per_block {
                return Err(format!("nr_blocks {} for {} symbols of width {}", b.nr_blocks(), model.len(), w));
            }
            for i in 0..model.len() {
                if b.get(i) != Some(model[i]) { return Err(format!("get({}) = {:?}, plain vector has {}", i, b.get(i), model[i])); }
            }
            if b.get(model.len()).is_some() { return Err("get(len) is Some".into()); }
            let it: Vec<u8> = b.iter().collect();
            if it != model { return Err("iter() differs from plain vector".into()); }
        }
        Ok(())
    }).and_then(|r| r)
}

fn ops_str(ops: &[Vec<i64>]) -> String {
    ops.iter().map(|o| o.iter().map(|x| x.to_string()).collect::<Vec<_>>().join(":")).collect::<Vec<_>>().join(",")
}
fn ops_parse(s: &str) -> Vec<Vec<i64>> {
    if s.is_empty() { return vec![]; }
    s.split(',').map(|o| o.split(':').map(|x| x.parse().unwrap()).collect()).collect()
}

fn fenwick_run(kind: usize, n: usize, ops: &[Vec<i64>]) -> Result<(), String> {
    let ops = ops.to_vec();
    guarded(move || {
        // ops: [i, v] = set(i, v); after each op all prefixes are compared
        if kind == 0 {
            let mut t: FenwickTree<u32, MaxOp> = FenwickTree::new(n);
            let mut model = vec![0u32; n];
            for op in &ops {
                let (i, v) = (op[0] as usize, op[1] as u32);
                t.set(i, v);
                if i < n { model[i] = model[i].max(v); }
                for q in 0..n {
                    let want = *model[..=q].iter().max().unwrap();
                    if t.get(q) != want { return Err(format!("max prefix get({}) = {}, fold = {}", q, t.get(q), want)); }
                }
            }
        } else {
            let mut t: FenwickTree<u64, SumOp> = FenwickTree::new(n);
            let mut model = vec![0u64; n];
            for op in &ops {
                let (i, v) = (op[0] as usize, op[1] as u64);
                t.set(i, v);
                if i < n { model[i] += v; }
                for q in 0..n {
                    let want: u64 = model[..=q].iter().sum();
                    if t.get(q) != want { return Err(format!("sum prefix get({}) = {}, fold = {}", q, t.get(q), want)); }
                }
            }
        }
        Ok(())
    }).and_then(|r| r)
}

fn smallints_run(ops: &[Vec<i64>]) -> Result<(), String> {
    let ops = ops.to_vec();
    guarded(move || {
        // ops: [0, v] push v ; [1, i, v] set
        let mut s: SmallInts<i8, isize> = SmallInts::new();
        let mut model: Vec<isize> = vec![];
        for op in &ops {
            if op[0] == 0 { s.push(op[1] as isize); model.push(op[1] as isize); }
            else if (op[1] as usize) < model.len() { s.set(op[1] as usize, op[2] as isize); model[op[1] as usize] = op[2] as isize; }
            if s.len() != model.len() { return Err("len differs".into()); }
            for i in 0..model.len() {
                if s.get(i) != Some(model[i]) { return Err(format!("get({}) = {:?}, plain vector has {}", i, s.get(i), model[i])); }
            }
            if s.get(model.len()).is_some() { return Err("get(len) is Some".into()); }
            let it: Vec<isize> = s.iter().collect();
            if it != model { return Err("iter() differs".into()); }
            if s.decompress() != model { return Err("decompress() differs".into()); }
        }
        Ok(())
    }).and_then(|r| r)
}

pub fn run(input: &str) -> Result<(), String> {
    let ops = ops_parse(field(input, "ops").unwrap_or(""));
    match field(input, "ds").unwrap_or("") {
        "bitenc" => bitenc_run(num(input, "w"), &ops),
        "fenwick" => fenwick_run(num(input, "kind"), num(input, "n"), &ops),
        "smallints" => smallints_run(&ops),
        x => Err(format!("unknown ds {}", x)),
    }
}

pub fn search(seed: u64, budget: &Budget, thorough: bool) -> (u64, Option<(String, String)>) {
    let mut tried = 0u64;
    // small-scope enumeration: k pushes followed by one push_values(n, v)
    for w in 1..=8usize {
        for k in 0..=(32 / w + 1) {
            for n in 0..=(2 * (32 / w) + 1) {
                for &v in &[0x01i64, 0x80, 0xff, 0x55] {
                    let mut ops: Vec<Vec<i64>> = (0..k).map(|j| vec![0, (j as i64 * 37 + 11) & 0xff]).collect();
                    ops.push(vec![1, n as i64, v]);
                    ops.push(vec![0, 0xaa]);
                    tried += 1;
                    if let Err(e) = bitenc_run(w, &ops) {
                        return (tried, Some((format!("ds=bitenc w={} ops={}", w, ops_str(&ops)), e)));
                    }
                }
            }
        }
    }
    let mut rng = Rng::new(seed);
    let rounds = if thorough { 200000 } else { 4000 };
    for _ in 0..rounds {
        if !budget.left() { break; }
        tried += 1;
        match rng.below(3) {
            0 => {
                let w = 1 + rng.below(8) as usize;
                let nops = 1 + rng.below(14);
                let mut len = 0i64;
                let mut ops = vec![];
                for _ in 0..nops {
                    match rng.below(10) {
                        0..=3 => { ops.push(vec![0, rng.below(256) as i64]); len += 1; }
                        4..=6 => { let n = rng.below(40) as i64; ops.push(vec![1, n, rng.below(256) as i64]); len += n; }
                        7..=8 => { if len > 0 { ops.push(vec![2, rng.below(len as u64) as i64, rng.below(256) as i64]); } }
                        _ => { ops.push(vec![3]); len = 0; }
                    }
                }
                if let Err(e) = bitenc_run(w, &ops) { return (tried, Some((format!("ds=bitenc w={} ops={}", w, ops_str(&ops)), e))); }
            }
            1 => {
                let n = 1 + rng.below(20) as usize;
                let kind = rng.below(2) as usize;
                let ops: Vec<Vec<i64>> = (0..1 + rng.below(12)).map(|_| vec![rng.below(n as u64 + 2) as i64, rng.below(1000) as i64]).collect();
                if let Err(e) = fenwick_run(kind, n, &ops) { return (tried, Some((format!("ds=fenwick kind={} n={} ops={}", kind, n, ops_str(&ops)), e))); }
            }
            _ => {
                let mut len = 0u64;
                let mut ops = vec![];
                for _ in 0..1 + rng.below(12) {
                    let v = *rng.pick(&[0i64, 1, -1, 126, 127, 128, -127, -128, -129, 1000, -1000, 5]);
                    if len == 0 || rng.below(3) > 0 { ops.push(vec![0, v]); len += 1; } else { ops.push(vec![1, rng.below(len) as i64, v]); }
                }
                if let Err(e) = smallints_run(&ops) { return (tried, Some((format!("ds=smallints ops={}", ops_str(&ops)), e))); }
            }
        }
    }
    (tried, None)
}

//! C19: k-mer indexing and chaining are exact (oracle: brute force over small inputs)
use crate::util::*;
use bio::alignment::sparse::{expand_kmer_matches, find_kmer_matches, lcskpp, sdpkpp, sdpkpp_union_lcskpp_path};
use bio::alphabets::{Alphabet, RankTransform};
use bio::data_structures::qgram_index::QGramIndex;

fn check_index(sym: &[u8], text: &[u8], pat: &[u8], q: u32, max_count: usize) -> Result<(), String> {
    let (sym, text, pat) = (sym.to_vec(), text.to_vec(), pat.to_vec());
    guarded(move || {
        let a = Alphabet::new(&sym);
        let rt = RankTransform::new(&a);
        let qu = q as usize;
        let idx = QGramIndex::with_max_count(q, &text[..], &a, max_count);
        // codes are injective and reverse iteration mirrors forward iteration
        let fw: Vec<usize> = rt.qgrams(q, &text[..]).collect();
        let mut bw: Vec<usize> = rt.rev_qgrams(q, &text[..]).collect();
        bw.reverse();
        if text.len() >= qu {
            if fw.len() != text.len() + 1 - qu { return Err(format!("{} q-gram codes for a text of {} symbols (q={})", fw.len(), text.len(), q)); }
            if fw != bw { return Err("reverse q-gram iteration does not mirror forward iteration".into()); }
            for i in 0..fw.len() { for j in 0..fw.len() {
                if (fw[i] == fw[j]) != (text[i..i + qu] == text[j..j + qu]) { return Err(format!("q-gram codes not injective: positions {} and {}", i, j)); }
            } }
            for i in 0..fw.len() {
                let occ: Vec<usize> = (0..fw.len()).filter(|&j| text[j..j + qu] == text[i..i + qu]).collect();
                let want: Vec<usize> = if occ.len() > max_count { vec![] } else { occ };
                let got = idx.qgram_matches(fw[i]).to_vec();
                if got != want { return Err(format!("qgram_matches(code of text[{}..]) = {:?}, positions are {:?} (max_count {})", i, got, want, max_count)); }
            }
        }
        // matches / exact_matches must not fail for any pattern over the alphabet; exact matches are real and maximal
        if pat.len() >= qu {
            let ms = idx.matches(&pat, 1);
            for m in &ms {
                if m.pattern.stop > pat.len() || m.text.stop > text.len() || m.count == 0 { return Err(format!("matches(): bad match {:?}", m)); }
            }
            // matches(pattern, min_count) is exactly: per diagonal, the hull of the q-gram hits on it, reported iff at least min_count hits
            // (a hit = an indexed text position of the pattern q-gram; q-grams above max_count are not indexed)
            let nq = pat.len() + 1 - qu;
            let mut diag: std::collections::BTreeMap<isize, (usize, usize, usize, usize, usize)> = std::collections::BTreeMap::new();
            for i in 0..nq {
                let occ: Vec<usize> = if text.len() >= qu { (0..text.len() + 1 - qu).filter(|&j| text[j..j + qu] == pat[i..i + qu]).collect() } else { vec![] };
                if occ.len() > max_count { continue; }
                for p in occ {
                    let e = diag.entry(p as isize - i as isize).or_insert((i, i + qu, p, p + qu, 0));
                    e.1 = i + qu; e.3 = p + qu; e.4 += 1;
                }
            }
            for mc in [1usize, 2, nq.saturating_sub(1).max(1), nq, nq + 1] {
                let mut want: Vec<(usize, usize, usize, usize, usize)> = diag.values().cloned().filter(|d| d.4 >= mc).collect();
                want.sort();
                let mut got: Vec<(usize, usize, usize, usize, usize)> = idx.matches(&pat, mc).iter().map(|m| (m.pattern.start, m.pattern.stop, m.text.start, m.text.stop, m.count)).collect();
                got.sort();
                if got != want { return Err(format!("matches(pattern, min_count={}) = {:?} (pattern start, stop, text start, stop, count), by definition {:?}", mc, got, want)); }
            }
            if max_count == usize::MAX {
                let ems = idx.exact_matches(&pat);
                for m in &ems {
                    let (ps, pe, ts, te) = (m.pattern.start, m.pattern.stop, m.text.start, m.text.stop);
                    if pe > pat.len() || te > text.len() || pe - ps != te - ts || pe - ps < qu || pat[ps..pe] != text[ts..te] { return Err(format!("exact_matches(): {:?} is not an exact match of length >= q", m)); }
                    if ps > 0 && ts > 0 && pat[ps - 1] == text[ts - 1] { return Err(format!("exact match {:?} is extendable to the left", m)); }
                    if pe < pat.len() && te < text.len() && pat[pe] == text[te] { return Err(format!("exact match {:?} is extendable to the right", m)); }
                }
                // every maximal exact match of length >= q is reported
                for ps in 0..pat.len() { for ts in 0..text.len() {
                    if ps > 0 && ts > 0 && pat[ps - 1] == text[ts - 1] { continue; }
                    let mut l = 0; while ps + l < pat.len() && ts + l < text.len() && pat[ps + l] == text[ts + l] { l += 1; }
                    if l >= qu && !ems.iter().any(|m| m.pattern.start == ps && m.text.start == ts && m.pattern.stop == ps + l) {
                        return Err(format!("maximal exact match pattern[{}..{}] == text[{}..{}] not reported", ps, ps + l, ts, ts + l));
                    }
                } }
            }
        }
        Ok(())
    }).and_then(|r| r)
}

fn check_chain(s1: &[u8], s2: &[u8], k: usize) -> Result<(), String> {
    let (s1, s2) = (s1.to_vec(), s2.to_vec());
    guarded(move || {
        let ms = find_kmer_matches(&s1, &s2, k);
        let mut want = vec![];
        if s1.len() >= k && s2.len() >= k { for i in 0..=s1.len() - k { for j in 0..=s2.len() - k { if s1[i..i + k] == s2[j..j + k] { want.push((i as u32, j as u32)); } } } }
        want.sort();
        if ms != want { return Err(format!("find_kmer_matches = {:?}, equal k-mer pairs are {:?}", ms, want)); }
        // mismatch expansion: strictly ascending, every k-mer inside both sequences, every match kept; every added position lies on the
        // diagonal of a match and the stretch between it and that match has at most `am` mismatching symbol pairs
        for am in 0..3usize {
            let e = expand_kmer_matches(&s1, &s2, k, &ms, am);
            for w in e.windows(2) { if w[0] >= w[1] { return Err(format!("expand_kmer_matches({}) not strictly ascending: {:?}", am, e)); } }
            for p in e.iter() { if p.0 as usize + k > s1.len() || p.1 as usize + k > s2.len() { return Err(format!("expand_kmer_matches({}) position {:?} leaves the sequences", am, p)); } }
            for m in ms.iter() { if !e.contains(m) { return Err(format!("expand_kmer_matches({}) lost the match {:?}", am, m)); } }
            for p in e.iter() {
                if ms.contains(p) { continue; }
                let d = p.0 as i64 - p.1 as i64;
                let ok = ms.iter().any(|m| m.0 as i64 - m.1 as i64 == d && {
                    // symbols between the k-mer at p and the k-mer at m (the part of the longer stretch not covered by the match itself)
                    let (lo, hi) = if p.0 < m.0 { (p.0 as usize, m.0 as usize) } else { (m.0 as usize + k, p.0 as usize + k) };
                    let off = p.1 as i64 - p.0 as i64;
                    (lo..hi).filter(|&i| s1[i] != s2[(i as i64 + off) as usize]).count() <= am
                });
                if !ok { return Err(format!("expand_kmer_matches({}) added {:?}, which no match reaches within {} mismatches", am, p, am)); }
            }
        }
        let res = lcskpp(&ms, k);
        let ku = k as u32;
        // validity of the chain + score recomputation
        let mut score = 0u32;
        for w in 0..res.path.len() {
            let (x, y) = ms[res.path[w]];
            if w == 0 { score += ku; continue; }
            let (px, py) = ms[res.path[w - 1]];
            if x == px + 1 && y == py + 1 { score += 1; }
            else if x >= px + ku && y >= py + ku { score += ku; }
            else { return Err(format!("lcskpp chain step {:?} -> {:?} is neither a diagonal continuation nor k apart", (px, py), (x, y))); }
        }
        if score != res.score { return Err(format!("lcskpp reports score {}, its path scores {}", res.score, score)); }
        // optimum by DP over matches (n^2)
        let n = ms.len();
        let mut best = vec![0u32; n];
        let mut opt = 0;
        for i in 0..n {
            best[i] = ku;
            for j in 0..n { if j == i { continue; }
                let (x, y) = ms[i]; let (px, py) = ms[j];
                if (px, py) < (x, y) {
                    if x == px + 1 && y == py + 1 { best[i] = best[i].max(best[j] + 1); }
                    else if x >= px + ku && y >= py + ku { best[i] = best[i].max(best[j] + ku); }
                }
            }
            opt = opt.max(best[i]);
        }
        if res.score != opt { return Err(format!("lcskpp score {} but the best chain scores {}", res.score, opt)); }
        Ok(())
    }).and_then(|r| r)
}

fn valid_step(a: (u32, u32), b: (u32, u32), k: u32) -> bool {
    (b.0 == a.0 + 1 && b.1 == a.1 + 1) || (b.0 >= a.0 + k && b.1 >= a.1 + k)
}
/// lcskpp / sdpkpp / union on an arbitrary sorted match list (not necessarily all k-mer matches of two sequences)
fn check_matches(ms: &[(u32, u32)], k: usize) -> Result<(), String> {
    let ms = ms.to_vec();
    guarded(move || {
        let ku = k as u32;
        let res = lcskpp(&ms, k);
        let mut score = 0u32;
        for w in 0..res.path.len() {
            if w == 0 { score += ku; continue; }
            let (p, c) = (ms[res.path[w - 1]], ms[res.path[w]]);
            if c.0 == p.0 + 1 && c.1 == p.1 + 1 { score += 1; } else if c.0 >= p.0 + ku && c.1 >= p.1 + ku { score += ku; }
            else { return Err(format!("lcskpp chain step {:?} -> {:?} invalid", p, c)); }
        }
        if score != res.score { return Err(format!("lcskpp reports score {}, its path scores {}", res.score, score)); }
        let n = ms.len();
        let mut best = vec![0u32; n]; let mut opt = 0;
        for i in 0..n { best[i] = ku; for j in 0..i { let (p, c) = (ms[j], ms[i]);
            if c.0 == p.0 + 1 && c.1 == p.1 + 1 { best[i] = best[i].max(best[j] + 1); } else if c.0 >= p.0 + ku && c.1 >= p.1 + ku { best[i] = best[i].max(best[j] + ku); } }
            opt = opt.max(best[i]); }
        if res.score != opt { return Err(format!("lcskpp score {} but the best chain over the given matches scores {}", res.score, opt)); }
        for &(ms_, go, ge) in &[(1u32, 0i32, -1i32), (2, -1, -1), (5, -4, -2)] {
            let sd = sdpkpp(&ms, k, ms_, go, ge);
            for w in 1..sd.path.len() { if !valid_step(ms[sd.path[w - 1]], ms[sd.path[w]], ku) { return Err(format!("sdpkpp chain step {:?} -> {:?} invalid", ms[sd.path[w - 1]], ms[sd.path[w]])); } }
            let un = sdpkpp_union_lcskpp_path(&ms, k, ms_, go, ge);
            for w in 1..un.len() { if !valid_step(ms[un[w - 1]], ms[un[w]], ku) { return Err(format!("sdpkpp_union_lcskpp_path step {:?} -> {:?} invalid (path {:?})", ms[un[w - 1]], ms[un[w]], un)); } }
        }
        Ok(())
    }).and_then(|r| r)
}

pub fn run(input: &str) -> Result<(), String> {
    if field(input, "limit").is_some() { return check_qgram_limit(&unhex(field(input, "sym").unwrap_or("")), num(input, "q") as u32, &unhex(field(input, "text").unwrap_or(""))); }
    if let Some(m) = field(input, "matches") {
        let v = nums(m); let ms: Vec<(u32, u32)> = v.chunks(2).map(|c| (c[0] as u32, c[1] as u32)).collect();
        return check_matches(&ms, num(input, "k"));
    }
    if field(input, "s1").is_some() { return check_chain(&unhex(field(input, "s1").unwrap()), &unhex(field(input, "s2").unwrap_or("")), num(input, "k")); }
    let mc = field(input, "max").map(|v| if v == "max" { usize::MAX } else { v.parse().unwrap() }).unwrap_or(usize::MAX);
    check_index(&unhex(field(input, "sym").unwrap_or("")), &unhex(field(input, "text").unwrap_or("")), &unhex(field(input, "pat").unwrap_or("")), num(input, "q") as u32, mc)
}
/// q-gram coding at and next to the word-size limit (q * bits == 64 and one symbol below): forward and reverse iteration mirror each other and
/// the codes are injective (no index is built: its table would have 2^(q*bits) entries)
fn check_qgram_limit(sym: &[u8], q: u32, text: &[u8]) -> Result<(), String> {
    let (sym, text) = (sym.to_vec(), text.to_vec());
    guarded(move || {
        let a = Alphabet::new(&sym);
        let rt = RankTransform::new(&a);
        let qu = q as usize;
        if text.len() < qu { return Ok(()); }
        let fw: Vec<usize> = rt.qgrams(q, &text[..]).collect();
        let mut bw: Vec<usize> = rt.rev_qgrams(q, &text[..]).collect();
        bw.reverse();
        if fw.len() != text.len() + 1 - qu { return Err(format!("{} q-gram codes for a text of {} symbols (q={})", fw.len(), text.len(), q)); }
        if fw != bw { return Err(format!("reverse q-gram iteration does not mirror forward iteration (q={}, {} symbols)", q, sym.len())); }
        for i in 0..fw.len() { for j in 0..i {
            if (fw[i] == fw[j]) != (text[i..i + qu] == text[j..j + qu]) { return Err(format!("q-gram codes not injective at q={}: positions {} and {}", q, j, i)); }
        } }
        Ok(())
    }).and_then(|r| r)
}
pub fn search(seed: u64, budget: &Budget, thorough: bool) -> (u64, Option<(String, String)>) {
    let rng = Rng::new(seed);
    let mut tried = 0;
    for (sym, qs) in [(&b"AB"[..], &[62u32, 63, 64][..]), (&b"ACGT"[..], &[30, 31, 32][..]), (&b"ACGTN"[..], &[20, 21][..]), (&b"ABCDEFGHI"[..], &[15, 16][..])].iter() {
        for &q in qs.iter() {
            let mut text = rng.bytes(q as usize + 6, sym);
            let rep = text[..q as usize].to_vec(); text.extend(rep);          // one q-gram occurs twice
            tried += 1;
            if let Err(e) = check_qgram_limit(sym, q, &text) { return (tried, Some((format!("limit=1 sym={} q={} text={}", hex(sym), q, hex(&text)), e))); }
        }
    }
    let rounds = if thorough { 200000 } else { 4000 };
    for round in 0..rounds {
        if !budget.left() { break; }
        tried += 1;
        if round % 4 == 3 {
            // arbitrary sorted, duplicate-free match lists (filtered / custom lists, not only complete k-mer match sets)
            let k = 1 + rng.below(4) as usize;
            let mut ms: Vec<(u32, u32)> = (0..rng.below(9)).map(|_| (rng.below(14) as u32, rng.below(24) as u32)).collect();
            if rng.below(2) == 0 && !ms.is_empty() { let b = ms[0]; for t in 1..3u32 { ms.push((b.0 + t * k as u32, b.1 + t * k as u32)); ms.push((b.0 + t, b.1 + t)); } }
            ms.sort(); ms.dedup();
            if let Err(e) = check_matches(&ms, k) { return (tried, Some((format!("k={} matches={}", k, ms.iter().map(|m| format!("{},{}", m.0, m.1)).collect::<Vec<_>>().join(",")), e))); }
            continue;
        }
        if round % 3 != 2 {
            let sym: &[u8] = *rng.pick(&[&b"A"[..], b"AB", b"ABC", b"ACGT", b"ACGTN", b"ABCDEFG"]);
            let q = 1 + rng.below(3) as u32;
            let text = rng.bytes(rng.below(24) as usize, sym);
            let pat = rng.bytes(rng.below(12) as usize, sym);
            let mc = if rng.below(3) == 0 { 1 + rng.below(3) as usize } else { usize::MAX };
            if let Err(e) = check_index(sym, &text, &pat, q, mc) {
                return (tried, Some((format!("sym={} q={} max={} text={} pat={}", hex(sym), q, if mc == usize::MAX { "max".to_string() } else { mc.to_string() }, hex(&text), hex(&pat)), e)));
            }
        } else {
            let alpha: &[u8] = if rng.below(2) == 0 { b"ab" } else { b"ACGT" };
            let s1 = rng.bytes(rng.below(16) as usize, alpha);
            let s2 = rng.bytes(rng.below(16) as usize, alpha);
            let k = 1 + rng.below(4) as usize;
            if let Err(e) = check_chain(&s1, &s2, k) { return (tried, Some((format!("k={} s1={} s2={}", k, hex(&s1), hex(&s2)), e))); }
        }
    }
    (tried, None)
}

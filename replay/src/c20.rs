//! C20: ORF finder, complements, alphabets follow their definitions (oracle: brute force)
use crate::util::*;
use bio::alphabets::{dna, rna, Alphabet, RankTransform};
use bio::seq_analysis::gc::gc_content;
use bio::seq_analysis::orf::Finder;

fn check_orf(seq: &[u8], min_len: usize) -> Result<(), String> {
    let seq = seq.to_vec();
    guarded(move || {
        let starts: Vec<&[u8; 3]> = vec![b"ATG"];
        let stops: Vec<&[u8; 3]> = vec![b"TGA", b"TAG", b"TAA"];
        let f = Finder::new(starts.clone(), stops.clone(), min_len);
        let mut got: Vec<(usize, usize, i8)> = f.find_all(&seq[..]).map(|o| (o.start, o.end, o.offset)).collect();
        let is = |i: usize, set: &Vec<&[u8; 3]>| i + 3 <= seq.len() && set.iter().any(|c| &seq[i..i + 3] == &c[..]);
        // brute force: every start codon paired with the first in-frame stop after it
        let mut want = vec![];
        for s in 0..seq.len() {
            if !is(s, &starts) { continue; }
            let mut e = s + 3;
            while e + 3 <= seq.len() { if is(e, &stops) { break; } e += 3; }
            if e + 3 <= seq.len() && is(e, &stops) {
                let end = e + 3;
                // reported iff longer than min_len + 2 (documented: "more than two bases longer than the minimum")
                if end - s > min_len + 2 { want.push((s, end, (end % 3) as i8)); }
            }
        }
        for g in &got {
            if !is(g.0, &starts) { return Err(format!("ORF {:?} does not start with a start codon", g)); }
            if g.1 < 3 || !is(g.1 - 3, &stops) { return Err(format!("ORF {:?} does not end with a stop codon", g)); }
            if (g.1 - g.0) % 3 != 0 { return Err(format!("ORF {:?} length not a multiple of 3", g)); }
            let mut e = g.0 + 3; while e + 3 < g.1 { if is(e, &stops) { return Err(format!("ORF {:?} contains an earlier in-frame stop", g)); } e += 3; }
            if g.1 - g.0 < min_len { return Err(format!("ORF {:?} shorter than min_len {}", g, min_len)); }
        }
        got.sort(); want.sort();
        let mut gd = got.clone(); gd.dedup();
        if gd.len() != got.len() { return Err(format!("duplicate ORF reported: {:?}", got)); }
        for w in &want { if !got.contains(w) { return Err(format!("ORF {:?} (min_len {}) not reported; got {:?}", w, min_len, got)); } }
        Ok(())
    }).and_then(|r| r)
}
fn check_alpha(sym: &[u8], text: &[u8]) -> Result<(), String> {
    let (sym, text) = (sym.to_vec(), text.to_vec());
    guarded(move || {
        let a = Alphabet::new(&sym);
        let member = |c: &u8| sym.contains(c);
        if a.is_word(&text) != text.iter().all(member) { return Err("is_word differs from membership of all symbols".into()); }
        let mut s = sym.clone(); s.sort(); s.dedup();
        if a.len() != s.len() { return Err("len differs".into()); }
        // set operations against the second alphabet (the symbols of the text) and the maximum symbol
        {
            let b = Alphabet::new(&text);
            let mut tset = text.clone(); tset.sort(); tset.dedup();
            let want = |f: &dyn Fn(u8) -> bool| -> Vec<u8> { (0..=255u8).filter(|c| f(*c)).collect() };
            let got = |x: &Alphabet| -> Vec<u8> { (0..=255u8).filter(|c| x.is_word(&[*c])).collect() };
            if got(&a.intersection(&b)) != want(&|c| s.contains(&c) && tset.contains(&c)) { return Err("intersection differs from the set intersection".into()); }
            if got(&a.difference(&b)) != want(&|c| s.contains(&c) && !tset.contains(&c)) { return Err("difference differs from the set difference".into()); }
            if got(&a.union(&b)) != want(&|c| s.contains(&c) || tset.contains(&c)) { return Err("union differs from the set union".into()); }
            if a.max_symbol() != s.last().cloned() { return Err(format!("max_symbol {:?}, want {:?}", a.max_symbol(), s.last())); }
            if a.is_empty() != s.is_empty() { return Err("is_empty differs".into()); }
        }
        let rt = RankTransform::new(&a);
        for (r, &c) in s.iter().enumerate() { if rt.get(c) as usize != r { return Err(format!("rank of {} is {}, want {}", c, rt.get(c), r)); } }
        // q-gram coding over the rank transform: equal q-grams get equal codes, different q-grams different codes (injective), for every
        // alphabet size (2, 3, 5, 9, .. are the sizes where the bit width changes)
        if !s.is_empty() && s.len() <= 16 {
            let t2: Vec<u8> = text.iter().map(|c| s[*c as usize % s.len()]).collect();
            for q in 1..=3u32 {
                if t2.len() < q as usize { continue; }
                let codes: Vec<usize> = rt.qgrams(q, &t2[..]).collect();
                if codes.len() != t2.len() + 1 - q as usize { return Err(format!("qgrams(q={}) yields {} codes for {} symbols", q, codes.len(), t2.len())); }
                for a in 0..codes.len() { for b in 0..a {
                    let same = t2[a..a + q as usize] == t2[b..b + q as usize];
                    if same != (codes[a] == codes[b]) { return Err(format!("qgrams(q={}): q-grams at {} and {} are {} but their codes are {} and {}", q, b, a, if same { "equal" } else { "different" }, codes[b], codes[a])); }
                } }
            }
        }
        let rc = dna::revcomp(dna::revcomp(&text));
        if rc != text { return Err("dna revcomp twice differs".into()); }
        if rna::revcomp(rna::revcomp(&text)) != text { return Err("rna revcomp twice differs".into()); }
        if !text.is_empty() {
            let gc = text.iter().filter(|&&c| c == b'G' || c == b'C' || c == b'g' || c == b'c').count() as f32 / text.len() as f32;
            if (gc_content(&text) - gc).abs() > 1e-6 { return Err(format!("gc_content {} vs {}", gc_content(&text), gc)); }
        }
        Ok(())
    }).and_then(|r| r)
}
pub fn run(input: &str) -> Result<(), String> {
    if let Some(s) = field(input, "seq") { return check_orf(&unhex(s), num(input, "min")); }
    if field(input, "comp").is_some() {
        for b in 0..=255u8 { if dna::complement(dna::complement(b)) != b || rna::complement(rna::complement(b)) != b { return Err(format!("complement not an involution at byte {}", b)); } }
        return Ok(());
    }
    check_alpha(&unhex(field(input, "sym").unwrap_or("")), &unhex(field(input, "text").unwrap_or("")))
}
pub fn search(seed: u64, budget: &Budget, thorough: bool) -> (u64, Option<(String, String)>) {
    let rng = Rng::new(seed);
    let mut tried = 1;
    for b in 0..=255u8 {
        let (c, r) = (dna::complement(b), rna::complement(b));
        let letter = |x: u8| (x >= b'A' && x <= b'Z') || (x >= b'a' && x <= b'z');
        if dna::complement(c) != b || rna::complement(r) != b || (!letter(b) && (c != b || r != b)) || (letter(b) && ((c & 32) != (b & 32) || (r & 32) != (b & 32))) {
            return (tried, Some(("comp=1".to_string(), format!("complement breaks involution / case / identity at byte {}", b))));
        }
    }
    let rounds = if thorough { 300000 } else { 4000 };
    for _ in 0..rounds {
        if !budget.left() { break; }
        tried += 1;
        if rng.below(3) > 0 {
            let mut seq = vec![];
            for _ in 0..rng.below(14) {
                match rng.below(6) { 0 => seq.extend_from_slice(b"ATG"), 1 => seq.extend_from_slice(*rng.pick(&[&b"TGA"[..], b"TAG", b"TAA"])), 2 => seq.push(*rng.pick(b"ACGT")), _ => seq.extend(rng.bytes(3, b"ACGT")) }
            }
            let min_len = *rng.pick(&[0usize, 1, 3, 4, 5, 6, 7, 9, 12, 30]);
            if let Err(e) = check_orf(&seq, min_len) { return (tried, Some((format!("min={} seq={}", min_len, hex(&seq)), e))); }
        } else {
            // symbol sets: mostly nucleotide-like, some over the whole byte range with the extreme bytes 0x00 / 0xFE / 0xFF, sometimes all 256
            let sym: Vec<u8> = match rng.below(8) {
                0 => (0..=255u8).collect(),
                1 | 2 => { let mut v = rng.bytes(1 + rng.below(6) as usize, b"ACGTN$"); v.push(*rng.pick(&[0u8, 1, 127, 128, 254, 255])); if rng.below(2) == 0 { v.push(255); } v }
                3 => (0..1 + rng.below(8)).map(|_| rng.below(256) as u8).collect(),
                _ => rng.bytes(1 + rng.below(8) as usize, b"ACGTNacgtn$XYZ"),
            };
            let text = if rng.below(3) == 0 { (0..rng.below(30)).map(|_| rng.below(256) as u8).collect::<Vec<u8>>() } else { rng.bytes(rng.below(30) as usize, b"ACGTNacgtn$XYZRYKM") };
            if let Err(e) = check_alpha(&sym, &text) { return (tried, Some((format!("sym={} text={}", hex(&sym), hex(&text)), e))); }
        }
    }
    (tried, None)
}

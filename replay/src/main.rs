//! replay / failing-input search against the REAL crate (never the deciding step; see DESIGN.md §5)
//! usage: replay <prop> search <seed> <budget_ms> [thorough]   -> prints "FOUND <input> :: <what>" or "NONE tried=<n>"
//!        replay <prop> run <input...>                          -> exit 0 if the input passes, 1 + "FAIL <what>" otherwise
mod util;
mod c18;
mod c08;
mod c04;
mod c07;
mod c12;
mod c17;
mod c09;
mod c10;
mod c20;
mod c19;
mod c06;
mod c01;
mod c02;
mod c03;

fn main() {
    let args: Vec<String> = std::env::args().collect();
    util::silence_panics();
    let prop = args[1].as_str();
    let mode = args[2].as_str();
    if mode == "search" {
        let seed: u64 = args[3].parse().unwrap();
        let budget = util::Budget::new(args[4].parse().unwrap());
        let thorough = args.len() > 5 && args[5] == "thorough";
        let (tried, res) = match prop {
            "C18" => c18::search(seed, &budget, thorough),
            "C08" => c08::search(seed, &budget, thorough),
            "C04" => c04::search(seed, &budget, thorough, "C04"),
            "C05" => c04::search(seed, &budget, thorough, "C05"),
            "C07" => c07::search(seed, &budget, thorough),
            "C12" => c12::search(seed, &budget, thorough),
            "C17" => c17::search(seed, &budget, thorough),
            "C09" => c09::search(seed, &budget, thorough),
            "C10" => c10::search(seed, &budget, thorough),
            "C20" => c20::search(seed, &budget, thorough),
            "C19" => c19::search(seed, &budget, thorough),
            "C06" => c06::search(seed, &budget, thorough),
            "C01" => c01::search(seed, &budget, thorough),
            "C02" => c02::search(seed, &budget, thorough),
            "C03" => c03::search(seed, &budget, thorough),
            _ => { println!("NOORACLE"); return; }
        };
        match res {
            Some((input, what)) => println!("FOUND tried={} {} :: {}", tried, input, what),
            None => println!("NONE tried={}", tried),
        }
    } else {
        let input = args[3..].join(" ");
        let r = match prop {
            "C18" => c18::run(&input),
            "C08" => c08::run(&input),
            "C04" | "C05" => c04::run(&input),
            "C07" => c07::run(&input),
            "C12" => c12::run(&input),
            "C17" => c17::run(&input),
            "C09" => c09::run(&input),
            "C10" => c10::run(&input),
            "C20" => c20::run(&input),
            "C19" => c19::run(&input),
            "C06" => c06::run(&input),
            "C01" => c01::run(&input),
            "C02" => c02::run(&input),
            "C03" => c03::run(&input),
            _ => Err("no oracle".to_string()),
        };
        match r {
            Ok(()) => println!("PASS"),
            Err(e) => { println!("FAIL {}", e); std::process::exit(1); }
        }
    }
}

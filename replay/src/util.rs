//! helpers shared by the replay oracles: PRNG, panic capture, tiny input (de)serialisation
use std::panic;
use std::time::{Duration, Instant};

pub struct Rng(pub std::cell::Cell<u64>);
impl Rng {
    pub fn new(seed: u64) -> Self {
        Rng(std::cell::Cell::new(seed.wrapping_mul(0x9E3779B97F4A7C15) ^ 0xD1B54A32D192ED03))
    }
    pub fn next(&self) -> u64 {
        let mut x = self.0.get();
        x ^= x << 13;
        x ^= x >> 7;
        x ^= x << 17;
        self.0.set(x);
        x
    }
    pub fn below(&self, n: u64) -> u64 {
        if n == 0 { 0 } else { self.next() % n }
    }
    pub fn pick<'a, T>(&self, xs: &'a [T]) -> &'a T {
        &xs[self.below(xs.len() as u64) as usize]
    }
    pub fn bytes(&self, n: usize, alphabet: &[u8]) -> Vec<u8> {
        (0..n).map(|_| *self.pick(alphabet)).collect()
    }
}

pub struct Budget {
    start: Instant,
    limit: Duration,
}
impl Budget {
    pub fn new(ms: u64) -> Self {
        Budget { start: Instant::now(), limit: Duration::from_millis(ms) }
    }
    pub fn left(&self) -> bool {
        self.start.elapsed() < self.limit
    }
}

/// run `f`, turning a panic into Err(message)
pub fn guarded<T, F: FnOnce() -> T + panic::UnwindSafe>(f: F) -> Result<T, String> {
    match panic::catch_unwind(f) {
        Ok(v) => Ok(v),
        Err(e) => {
            let msg = if let Some(s) = e.downcast_ref::<&str>() {
                s.to_string()
            } else if let Some(s) = e.downcast_ref::<String>() {
                s.clone()
            } else {
                "panic".to_string()
            };
            Err(format!("panic: {}", msg))
        }
    }
}

pub fn silence_panics() {
    if std::env::var("VERIF_BT").is_ok() { return; }
    panic::set_hook(Box::new(|_| {}));
}

pub fn hex(b: &[u8]) -> String {
    b.iter().map(|x| format!("{:02x}", x)).collect()
}
pub fn unhex(s: &str) -> Vec<u8> {
    (0..s.len() / 2).map(|i| u8::from_str_radix(&s[2 * i..2 * i + 2], 16).unwrap()).collect()
}
/// "k=v k2=v2" -> lookup
pub fn field<'a>(input: &'a str, key: &str) -> Option<&'a str> {
    for part in input.split_whitespace() {
        if let Some(rest) = part.strip_prefix(key) {
            if let Some(v) = rest.strip_prefix('=') {
                return Some(v);
            }
        }
    }
    None
}
pub fn num(input: &str, key: &str) -> usize {
    field(input, key).map(|v| v.parse().unwrap()).unwrap_or(0)
}
pub fn nums(s: &str) -> Vec<i64> {
    if s.is_empty() { return vec![]; }
    s.split(',').map(|x| x.parse().unwrap()).collect()
}

/// announce the input about to be tried (one unbuffered stderr line): if the process is then killed by the memory limit or the
/// time limit, the driver knows which input to replay and report
pub fn note_current(input: &str) {
    eprintln!("CUR {}", input);
}

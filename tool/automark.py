#!/usr/bin/env python3
"""Helper used while writing mirrors (NOT part of the checking path): take a hand-annotated Verus file (a design spike)
and mark everything that is not the repository's code as annotation.

usage: automark.py <spike.rs> <repo file> '<path>' [--spike-path '<path in spike>'] [--subst A=B,...]
prints the marked region (//@extract ... //@end) for that item.
"""
import sys
import difflib
import argparse
import locate
import mirror
from lex import lex, strip_attrs, texts, render

import os
REPO = os.environ.get('VERIF_REPO', '/repo')


def line_tokens(text):
    """list of (line_text, [token texts]) ; assumes no token spans lines"""
    out = []
    for ln in text.split('\n'):
        try:
            tk = lex(ln)[0]
        except Exception:
            tk = []
        out.append((ln, tk))
    return out


def mark(spike_text, repo_file, path, spike_path=None, subst=None):
    src = open(REPO + '/' + repo_file).read()
    C = locate.locate(src, path)
    C = mirror.apply_subst(C, subst or {})
    ctext = render(C).lstrip('\n')
    stoks, s0, s1 = locate.locate_span(spike_text, spike_path or path)
    # extend to line boundaries
    a = spike_text.rfind('\n', 0, s0) + 1
    b = spike_text.find('\n', s1)
    if b < 0:
        b = len(spike_text)
    S_lines = line_tokens(spike_text[a:b])
    C_lines = line_tokens(ctext)
    def key(ln, tk):
        k = ' '.join(t[1] for t in tk)
        if 0 < len(tk) <= 3:
            k = '%d|%s' % (len(ln) - len(ln.lstrip()), k)
        return k
    import re as _re
    forced = set()
    k = 0
    while k < len(S_lines):
        st_ = S_lines[k][0].strip()
        if _re.match(r'(requires|ensures|invariant|invariant_except_break|decreases|recommends)\b', st_) and not st_.endswith('{'):
            j = k
            while j < len(S_lines) and S_lines[j][0].strip() != '{':
                forced.add(j)
                j += 1
            k = j
        else:
            k += 1
    skey = [('\x00ANN%d' % i) if i in forced else key(ln, tk) for i, (ln, tk) in enumerate(S_lines)]
    ckey = [key(ln, tk) for (ln, tk) in C_lines]
    sm = difflib.SequenceMatcher(a=skey, b=ckey, autojunk=False)
    out = ['//@extract %s :: %s' % (repo_file, path)]
    if subst:
        out.append('//@subst ' + ', '.join('%s=%s' % kv for kv in subst.items()))
    block = []   # pending annotation lines

    def flush():
        nonlocal block
        if block:
            out.append('//@+')
            out.extend(block)
            out.append('//@-')
            block = []

    todo = 0
    for (tag, i1, i2, j1, j2) in sm.get_opcodes():
        if tag == 'equal':
            for k in range(i1, i2):
                ln, tk = S_lines[k]
                if not tk and ln.strip():
                    block.append(ln)      # comment-only line inside code: keep as annotation
                else:
                    if tk:
                        flush()
                    (block if (not tk and block) else out).append(ln)
            continue
        # token-level alignment inside the stretch
        st = [(k, t) for k in range(i1, i2) if k not in forced for t in S_lines[k][1]]
        ct = [t[1] for k in range(j1, j2) for t in C_lines[k][1]]
        sm2 = difflib.SequenceMatcher(a=[t[1][1] for t in st], b=ct, autojunk=False)
        matched = [False] * len(st)
        missing = []   # (position in st before which C tokens are missing, tokens)
        for (tg, a1, a2, b1, b2) in sm2.get_opcodes():
            if tg == 'equal':
                for q in range(a1, a2):
                    matched[q] = True
            elif tg in ('replace', 'delete') and False:
                pass
            if tg in ('replace', 'insert'):
                missing.append((a1, ct[b1:b2]))
        miss_at_line = {}
        for (q, toks_) in missing:
            k = st[q][0] if q < len(st) else i2 - 1
            miss_at_line.setdefault(k, []).extend(toks_)
        idx = 0
        for k in range(i1, i2):
            ln, tk = S_lines[k]
            if k in forced:
                block.append(ln)
                continue
            n = len(tk)
            flags = matched[idx:idx + n]
            idx += n
            if k in miss_at_line:
                flush()
                out.append('//@rw TODO')
                out.append('//@< ' + ' '.join(miss_at_line[k]))
                out.append('//@>')
                todo += 1
            if n == 0:
                (block if block else out).append(ln)
                continue
            if not any(flags):
                block.append(ln)
                continue
            flush()
            if all(flags):
                out.append(ln)
                continue
            # mixed: wrap unmatched runs inline
            res = ''
            pos = 0
            q = 0
            while q < n:
                if flags[q]:
                    q += 1
                    continue
                r = q
                while r < n and not flags[r]:
                    r += 1
                start = tk[q][3]
                end = tk[r - 1][3] + len(tk[r - 1][1])
                res += ln[pos:start] + '/*@+' + ln[start:end] + '@*/'
                pos = end
                q = r
            res += ln[pos:]
            out.append(res)
    flush()
    out.append('//@end')
    return '\n'.join(out), todo


if __name__ == '__main__':
    ap = argparse.ArgumentParser()
    ap.add_argument('spike')
    ap.add_argument('repo_file')
    ap.add_argument('path')
    ap.add_argument('--spike-path')
    ap.add_argument('--subst')
    a = ap.parse_args()
    subst = dict(kv.split('=') for kv in a.subst.split(',')) if a.subst else None
    txt, todo = mark(open(a.spike).read(), a.repo_file, a.path, a.spike_path, subst)
    print(txt)
    if todo:
        print('// %d TODO rewrites' % todo, file=sys.stderr)

#!/usr/bin/env python3
"""development helper: weave + verify one unit, print diagnostics.  usage: devrun.py C18/bitenc [--vac]"""
import sys, os, json
sys.path.insert(0, os.path.dirname(os.path.abspath(__file__)))
import unit
name = sys.argv[1]
vac = '--vac' in sys.argv
res, woven = unit.build(os.path.join(unit.ROOT, 'contracts', name + '.vrs'), os.path.join(unit.ROOT, 'build', 'dev'), vacuity=vac)
if woven is None:
    print('BUILD:', res.status, res.reason); sys.exit(2)
print('regions:', len(res.regions), 'rewoven:', res.changed_items)
unit.run_verus(res, woven, timeout=int(os.environ.get('T', '600')))
print('status:', res.status, res.reason)
print('verified', res.verified, 'errors', res.errors, 'wall %.1fs smt %dms' % (res.wall_s, res.smt_ms), 'canary', res.canary_ok)
for f in res.failed:
    print('FAILED', f['function'], '|', f['kind'], '|', f['clause'], '|', f['detail'], '| line', f['line'])
if '-v' in sys.argv:
    print(res.raw_output[-3000:])
slow = sorted(res.functions, key=lambda f: -(f['rlimit'] or 0))[:5]
for f in slow: print('  ', f['function'], f['ms'], 'ms rlimit', f['rlimit'], f['success'])

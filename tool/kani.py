"""Kani harness runner: loop-free / fixed-width complete proofs over the REAL source files of /repo.

A harness spec (props.py):  {'name': 'myers_step_u8', 'crate': 'myers', 'harness': 'myers_step_u8', 'timeout': 600,
                            'obligation': 'Myers::<u8>::_step == DP column recurrence'}
The crate is (re)generated under build/kani/<crate>/ from kani/<crate>/ + the current tree on every run.
"""
import os
import re
import shutil
import subprocess
import time

ROOT = os.path.dirname(os.path.dirname(os.path.abspath(__file__)))


def _prepare(crate, repo, build, tag):
    src_t = os.path.join(ROOT, 'kani', crate)
    dst = os.path.join(build, 'kani', crate + '-' + tag)
    os.makedirs(os.path.join(dst, 'src'), exist_ok=True)
    shutil.copy(os.path.join(src_t, 'Cargo.toml'), os.path.join(dst, 'Cargo.toml'))
    lock = os.path.join(repo, 'Cargo.lock')
    if os.path.exists(lock):
        shutil.copy(lock, os.path.join(dst, 'Cargo.lock'))
    lib = open(os.path.join(src_t, 'lib.rs')).read().replace('__REPO__', repo)
    open(os.path.join(dst, 'src', 'lib.rs'), 'w').write(lib)
    if crate == 'myers':
        d = os.path.join(dst, 'src', 'pattern_matching', 'myers')
        if os.path.exists(d):
            shutil.rmtree(d)
        shutil.copytree(os.path.join(repo, 'src', 'pattern_matching', 'myers'), d)
        # mod.rs of pattern_matching is not copied: lib.rs declares `pub mod myers;`
        simple = os.path.join(d, 'simple.rs')
        text = open(simple).read()
        text += '\n' + open(os.path.join(src_t, 'harness.rs')).read()
        open(simple, 'w').write(text)
        hl = os.path.join(src_t, 'harness_long.rs')
        if os.path.exists(hl):
            longf = os.path.join(d, 'long.rs')
            ltext = open(longf).read() + '\n' + open(hl).read()
            open(longf, 'w').write(ltext)
    return dst


_prep_lock = {}


def run_harness(h, repo, build):
    t0 = time.time()
    res = {'harness': h['name'], 'status': 'undecided', 'reason': '', 'checks': 0, 'checks_ok': 0, 'failed': [], 'backend': 'Kani 0.68 / CBMC 6.11',
           'obligation': h.get('obligation', ''), 'bounded': False}
    try:
        dst = _prepare(h['crate'], repo, build, h['harness'])
    except Exception as e:
        res['reason'] = 'TOOL: cannot prepare harness crate: %s' % e
        return res
    cmd = ['cargo', 'kani', '--harness', h['harness'], '--target-dir', os.path.join(build, 'kani-target-' + h['crate'] + '-' + h['harness'])] + h.get('args', [])
    res['cmd'] = 'cd %s && CARGO_NET_OFFLINE=true %s' % (dst, ' '.join(cmd))
    env = dict(os.environ)
    env['CARGO_NET_OFFLINE'] = 'true'
    try:
        p = subprocess.run(cmd, cwd=dst, capture_output=True, text=True, timeout=h.get('timeout', 900), env=env)
    except subprocess.TimeoutExpired:
        res['reason'] = 'BUDGET: kani timeout %ss' % h.get('timeout', 900)
        res['wall_s'] = round(time.time() - t0, 1)
        return res
    out = p.stdout + '\n' + p.stderr
    res['wall_s'] = round(time.time() - t0, 1)
    res['output'] = out[-8000:]
    m = re.search(r'\*\* (\d+) of (\d+) failed', out)
    if m:
        res['checks'] = int(m.group(2))
        res['checks_ok'] = int(m.group(2)) - int(m.group(1))
    if 'VERIFICATION:- SUCCESSFUL' in out and m and int(m.group(1)) == 0 and int(m.group(2)) > 0:
        res['status'] = 'discharged'
        return res
    if 'VERIFICATION:- FAILED' in out:
        # failed checks
        fails = re.findall(r'Check \d+: ([^\n]+)\n\s+- Status: FAILURE\n\s+- Description: "([^"]*)"\n\s+- Location: ([^\n]+)', out)
        unwinding = [f for f in fails if 'unwinding assertion' in f[1]]
        real = [f for f in fails if 'unwinding assertion' not in f[1]]
        if real:
            res['status'] = 'failed'
            for (cid, desc, loc) in real[:10]:
                res['failed'].append({'unit': 'kani/' + h['crate'], 'function': h['harness'], 'item': loc.strip(), 'kind': 'kani check failed',
                                      'clause': desc, 'detail': cid, 'line': 0})
            return res
        if unwinding:
            res['reason'] = 'BUDGET: unwinding assertion failed (a loop bound of the harness no longer covers the code)'
            return res
    res['reason'] = 'TOOL: kani did not report a verdict (exit %s): %s' % (p.returncode, out[-700:])
    return res

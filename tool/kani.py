"""Kani harness runner (loop-free / fixed-width complete proofs over the real files).  Filled in with the C09/C20 units."""
def run_harness(h, repo, build):
    return {'harness': h.get('name', '?'), 'status': 'undecided', 'reason': 'kani runner not implemented', 'checks': 0, 'checks_ok': 0}

"""known_findings.txt (read-only at run time)"""
import os
import re

def load(root):
    known = []
    fixed = []
    p = os.path.join(root, 'known_findings.txt')
    if not os.path.exists(p):
        return known, fixed
    for ln in open(p):
        ln = ln.strip()
        if ln.startswith('known:'):
            m = re.match(r'known:\s+property=(\S+)\s+obligation=(\S+)\s+(.*)$', ln)
            if m:
                known.append({'property': m.group(1), 'obligation': m.group(2), 'what': m.group(3)})
        elif ln.startswith('fixed:'):
            fixed.append(ln)
    return known, fixed

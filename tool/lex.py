"""Comment- and string-aware Rust lexer (enough for item location, brace matching and the erase check).

A token is (kind, text, ws, pos) where ws is the whitespace (comments removed, newlines kept) that preceded it.
kinds: id, life, num, str, chr, punct
"""
import re

PUNCT = [
    '<<=', '>>=', '...', '..=', '::', '->', '=>', '==', '!=', '<=', '>=', '&&', '||', '+=', '-=', '*=', '/=', '%=',
    '^=', '&=', '|=', '<<', '>>', '..',
]
ID_START = re.compile(r'[A-Za-z_]')
ID_RE = re.compile(r'[A-Za-z_][A-Za-z0-9_]*')
NUM_RE = re.compile(r'(0x[0-9a-fA-F_]+|0b[01_]+|0o[0-7_]+|[0-9][0-9_]*(\.[0-9][0-9_]*)?([eE][+-]?[0-9_]+)?)([iuf](8|16|32|64|128|size))?')


class LexError(Exception):
    pass


def lex(text):
    toks = []
    i = 0
    n = len(text)
    ws = ''
    while i < n:
        c = text[i]
        if c in ' \t\r\n':
            ws += c
            i += 1
            continue
        if text.startswith('//', i):
            j = text.find('\n', i)
            if j < 0:
                j = n
            i = j
            continue
        if text.startswith('/*', i):
            depth = 1
            j = i + 2
            while j < n and depth > 0:
                if text.startswith('/*', j):
                    depth += 1
                    j += 2
                elif text.startswith('*/', j):
                    depth -= 1
                    j += 2
                else:
                    if text[j] == '\n':
                        ws += '\n'
                    j += 1
            i = j
            continue
        # raw strings / byte strings / byte chars
        m = re.match(r'b?r(#*)"', text[i:i + 40])
        if m:
            hashes = m.group(1)
            end = text.find('"' + hashes, i + m.end())
            if end < 0:
                raise LexError('unterminated raw string')
            j = end + 1 + len(hashes)
            toks.append(('str', text[i:j], ws, i)); ws = ''
            i = j
            continue
        if c == '"' or (c == 'b' and i + 1 < n and text[i + 1] == '"'):
            j = i + (2 if c == 'b' else 1)
            while j < n and text[j] != '"':
                if text[j] == '\\':
                    j += 1
                j += 1
            j += 1
            toks.append(('str', text[i:j], ws, i)); ws = ''
            i = j
            continue
        if c == "'" or (c == 'b' and i + 1 < n and text[i + 1] == "'"):
            k = i + (1 if c == 'b' else 0)
            # char literal?  '\x', 'a'
            if k + 1 < n and text[k + 1] == '\\':
                j = k + 2
                while j < n and text[j] != "'":
                    j += 1
                j += 1
                toks.append(('chr', text[i:j], ws, i)); ws = ''
                i = j
                continue
            if k + 2 < n and text[k + 2] == "'":
                j = k + 3
                toks.append(('chr', text[i:j], ws, i)); ws = ''
                i = j
                continue
            if c == "'":
                m = ID_RE.match(text, i + 1)
                if m:
                    toks.append(('life', text[i:m.end()], ws, i)); ws = ''
                    i = m.end()
                    continue
            raise LexError('bad quote at %d: %r' % (i, text[i:i + 20]))
        if ID_START.match(c):
            m = ID_RE.match(text, i)
            toks.append(('id', m.group(0), ws, i)); ws = ''
            i = m.end()
            continue
        if c == '$' and i + 1 < n and ID_START.match(text[i + 1]):
            # macro metavariable `$name` (inside a macro_rules! body): one identifier-like token, so that //@subst can bind it
            m = ID_RE.match(text, i + 1)
            toks.append(('id', '$' + m.group(0), ws, i)); ws = ''
            i = m.end()
            continue
        if c.isdigit():
            m = NUM_RE.match(text, i)
            s = m.group(0)
            # "1..2" : do not swallow the range dots; "1.foo()" likewise
            if m.group(2) is None and text.startswith('.', m.end()):
                pass
            toks.append(('num', s, ws, i)); ws = ''
            i = m.end()
            continue
        for p in PUNCT:
            if text.startswith(p, i):
                toks.append(('punct', p, ws, i)); ws = ''
                i += len(p)
                break
        else:
            toks.append(('punct', c, ws, i)); ws = ''
            i += 1
    return toks, ws


def strip_attrs(toks):
    """remove #[...] and #![...] groups (keeps the whitespace of the first removed token on the next token)."""
    out = []
    i = 0
    n = len(toks)
    carry = ''
    while i < n:
        k, t, w, pos = toks[i]
        if t == '#' and i + 1 < n and (toks[i + 1][1] == '[' or (toks[i + 1][1] == '!' and i + 2 < n and toks[i + 2][1] == '[')):
            j = i + 1
            if toks[j][1] == '!':
                j += 1
            depth = 0
            while j < n:
                if toks[j][1] == '[':
                    depth += 1
                elif toks[j][1] == ']':
                    depth -= 1
                    if depth == 0:
                        break
                j += 1
            carry += w
            i = j + 1
            continue
        if carry:
            w = carry + w if '\n' not in w else w
            carry = ''
        out.append((k, t, w, pos))
        i += 1
    return out


def texts(toks):
    return [t[1] for t in toks]


def render(toks):
    return ''.join(t[2] + t[1] for t in toks)

#!/usr/bin/env python3
"""authoring helper (NOT on the checking path): mark one function of a hand-annotated Verus file line by line.
A spike line whose tokens equal the next unmatched code line of the repo item is code; lines listed in the rewrite table become
//@rw blocks; a signature line pair (repo sig -> spike sig) is handled by an INST rewrite given in the table; everything else is annotation.

usage (python): linemark.mark(spike_fn_text, repo_fn_text, rewrites) -> region body text
  rewrites: list of dict(rule=..., orig=[repo lines], repl_first=<first replacement line (stripped)>, repl_n=<number of replacement code lines>,
            ghost_inside=True/False)  - replacement code lines are matched in order; annotation lines between them go into //@g+ blocks
"""
import re
import sys, os
sys.path.insert(0, os.path.dirname(os.path.abspath(__file__)))
from lex import lex, texts


def toks(line):
    try:
        return texts(lex(line)[0])
    except Exception:
        return None


def code_lines(text):
    out = []
    for ln in text.split('\n'):
        t = toks(ln)
        if t:
            out.append((ln, t))
    return out


def mark(spike, repo, rewrites):
    R = code_lines(repo)
    S = spike.split('\n')
    out = []
    ri = 0
    annot = []

    def flush():
        nonlocal annot
        if annot:
            out.append('//@+')
            out.extend(annot)
            out.append('//@-')
            annot = []
    i = 0
    while i < len(S):
        ln = S[i]
        t = toks(ln)
        if not t:
            (annot if annot else out).append(ln)
            i += 1
            continue
        # rewrite?
        hit = None
        for rw in rewrites:
            if not rw.get('used') and ln.strip() == rw['repl_first'].strip() and ri < len(R) and toks(rw['orig'][0]) == R[ri][1]:
                hit = rw
                break
        if hit:
            flush()
            hit['used'] = True
            out.append('//@rw ' + hit['rule'])
            for o in hit['orig']:
                out.append('//@<' + o)
                assert toks(o) == R[ri][1], (o, R[ri][0])
                ri += 1
            # replacement: hit['repl'] is a list of (kind, line) with kind code|ghost taken from the spike in order
            n_code = hit['repl_n']
            g = []
            while n_code > 0:
                l2 = S[i]
                isg = l2.strip() in hit.get('ghost', ()) or (hit.get('ghost_pred') and hit['ghost_pred'](l2))
                if isg:
                    g.append(l2)
                else:
                    if g:
                        out.append('//@g+'); out.extend(g); out.append('//@g-'); g = []
                    out.append(l2)
                    n_code -= 1
                i += 1
            out.append('//@>')
            continue
        if ri < len(R) and t == R[ri][1]:
            flush()
            out.append(ln)
            ri += 1
        else:
            annot.append(ln)
        i += 1
    flush()
    if ri != len(R):
        raise SystemExit('unmatched repo lines from: %r' % (R[ri][0],))
    return '\n'.join(out)


def mark2(spike, repo):
    """spike text with hand-placed //@rw ... //@> blocks (and //@g+ //@g- inside them) and inline /*@+ @*/ annotations; every other
    line whose tokens are not the next tokens of the repo item becomes annotation (token-stream matching, so line breaks may differ)."""
    R = texts(lex(repo)[0])
    out = []
    ri = 0
    annot = []
    inrw = False
    adepth = 0
    rwbuf = []

    def flush():
        nonlocal annot
        if annot:
            while annot and not annot[-1].strip():
                annot.pop()
            if annot:
                out.append('//@+')
                out.extend(annot)
                out.append('//@-')
            annot = []
    for ln in spike.split('\n'):
        s = ln.strip()
        if s.startswith('//@rw'):
            flush(); inrw = True; out.append(ln); continue
        if inrw:
            if s.startswith('//@<'):
                rwbuf.append(s[4:])
            else:
                if rwbuf:
                    # the original lines of a rewrite are lexed together (a token such as a string literal may span lines)
                    t = toks('\n'.join(rwbuf)) or []
                    assert R[ri:ri + len(t)] == t, ('rw orig mismatch', rwbuf[0], R[ri:ri + 8])
                    ri += len(t)
                    rwbuf.clear()
            if s == '//@>':
                inrw = False
            out.append(ln)
            continue
        t = toks(ln)
        if not t:
            if annot:
                annot.append(ln)
            else:
                out.append(ln)
            continue
        if adepth > 0:
            annot.append(ln)
            adepth += t.count('{') + t.count('(') - t.count('}') - t.count(')')
            continue
        if R[ri:ri + len(t)] == t:
            flush(); out.append(ln); ri += len(t)
        else:
            annot.append(ln)
            adepth = max(0, t.count('{') + t.count('(') - t.count('}') - t.count(')'))
    flush()
    if ri != len(R):
        raise SystemExit('unmatched repo tokens from: %r' % (R[ri:ri + 12],))
    return '\n'.join(out)

"""Annotation purity lint: text inserted by a mirror (//@+ blocks, //@g+ blocks, inline /*@+ @*/) must be specification-only
(contract clauses, proof blocks, ghost lets, asserts, attributes, spec/proof items) — never executable statements.
Verus itself guarantees that proof blocks / ghost lets cannot influence executable state; this lint closes the remaining gap
(an exec statement smuggled into an annotation would be verified but is not in /repo)."""
import re

CLAUSE = re.compile(r'^(requires|ensures|invariant|invariant_except_break|decreases|recommends|returns|opens_invariants|no_unwind)\b')
OK_START = re.compile(r'^(let ghost\b|let tracked\b|assert\b|assert_by\b|assume\b|proof \{|proof\{|reveal\b|broadcast use\b|#\[|//|\}|by \(|by \{|\)|'
                      r'(pub )?(open |closed |uninterp )?(spec|proof) fn\b|(pub )?(broadcast )?(axiom|proof) fn\b|&&&|\|\|\||==>|<==>|forall\||exists\||else\b|match\b|Some\(|None\b|&&|\|\||\+|-|\*|,)')
INLINE_OK = re.compile(r'^\s*(\(\s*\w+\s*:\s*\(?|\)|\w+\s*:\s*\(?|:\s*[\w:<>&\' ]+|->\s*\(\w+: [\w<>: ]+\)\s*(requires .*)?ensures .*\{|\}|\.iter\(\))\s*$')


STMT = re.compile(r'^(let ghost\b|let tracked\b|assert\b|assert_by\b|assume\b|proof ?\{|reveal\b|broadcast use\b)')
ITEM = re.compile(r'^(#\[|(pub )?(open |closed |uninterp )?(spec|proof) fn\b|(pub )?(broadcast )?(axiom|proof) fn\b)')


def lint_block(text):
    """returns list of suspicious lines (anything that is not a contract clause, a ghost statement, a proof block or a spec item)"""
    bad = []
    depth = 0          # brace depth inside a proof block / assert-by block / spec item body
    paren = 0          # open parentheses of a multi-line ghost statement
    in_clause = False
    for raw in text.split('\n'):
        ln = raw.split('//')[0].strip()
        if not ln:
            continue
        if depth > 0:
            depth += ln.count('{') - ln.count('}')
            depth = max(depth, 0)
            continue
        if paren > 0:
            paren = max(0, paren + ln.count('(') - ln.count(')'))
            if paren == 0 and ln.endswith('{'):
                depth = 1
            continue
        if STMT.match(ln) or ITEM.match(ln):
            in_clause = False
            opens = ln.count('{') - ln.count('}')
            par = ln.count('(') - ln.count(')')
            if opens > 0:
                depth = opens
            elif par > 0:
                paren = par
            continue
        if CLAUSE.match(ln):
            in_clause = True
            continue
        if in_clause:
            continue    # continuation of a clause list
        if ln in ('}', '{}'):
            continue
        bad.append(raw.strip())
    return bad


def lint_region(reg):
    issues = []
    for seg in reg.segs:
        if seg['kind'] == 'annot':
            if seg.get('inline'):
                if not INLINE_OK.match(seg['text']):
                    issues.append(('inline', seg['text'].strip()))
            else:
                for b in lint_block(seg['text']):
                    issues.append(('block', b))
        elif seg['kind'] == 'rw':
            for g in re.findall(r'//@g\+\n(.*?)//@g-', seg['text'], re.S):
                for b in lint_block(g):
                    issues.append(('ghost', b))
    return issues

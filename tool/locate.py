"""Locate an item (fn / struct / enum / trait fn / const / static / type) in a Rust source file by path.

path syntax (as written after `//@extract <file> ::`):
    [ <container header> :: ] <kind> <name>
where <container header> is the token text of an `impl ...` or `trait ...` header up to (not including) `{`,
compared token-wise, and <kind> is one of fn struct enum const static type trait.
Items inside `mod tests` (or any `#[cfg(test)]` module) are ignored.
"""
from lex import lex, strip_attrs, texts, LexError


class LostItem(Exception):
    pass


KINDS = ('fn', 'struct', 'enum', 'const', 'static', 'type', 'trait', 'union')


def _match_close(toks, i):
    """toks[i] is an opening bracket; return index of matching closer."""
    op = toks[i][1]
    cl = {'{': '}', '(': ')', '[': ']'}[op]
    depth = 0
    j = i
    n = len(toks)
    while j < n:
        t = toks[j][1]
        if t == op:
            depth += 1
        elif t == cl:
            depth -= 1
            if depth == 0:
                return j
        j += 1
    raise LostItem('unbalanced brackets')


def parse_path(path):
    parts = [p.strip() for p in path.split(' :: ')]
    item = parts[-1]
    container = parts[0] if len(parts) > 1 else None
    kind, name = item.split()[0], item.split()[1]
    if kind not in KINDS:
        raise LostItem('bad kind in path %r' % path)
    ctoks = texts(lex(container)[0]) if container else None
    return ctoks, kind, name


def items(toks):
    """yield (container_header_tokens or None, start_idx, end_idx_exclusive, kind, name) for all items, one nesting level of impl/trait deep;
    descends into non-test `mod` blocks."""
    out = []
    modname = [None]

    def scan(lo, hi, container):
        i = lo
        start = lo
        while i < hi:
            t = toks[i][1]
            if t in (';',):
                # item without body ends here
                seg = toks[start:i + 1]
                kn = _kind_name(seg)
                if kn:
                    out.append((container, start, i + 1, kn[0], kn[1], modname[0]))
                start = i + 1
                i += 1
                continue
            if t in ('(', '['):
                i = _match_close(toks, i) + 1
                continue
            if t == '{':
                j = _match_close(toks, i)
                header = toks[start:i]
                htx = texts(header)
                kn = _kind_name(header)
                if 'impl' in htx[:3] or (kn and kn[0] == 'trait'):
                    # container
                    k = htx.index('impl') if 'impl' in htx[:3] else htx.index('trait')
                    if kn and kn[0] == 'trait':
                        out.append((container, start, j + 1, 'trait', kn[1], modname[0]))
                    scan(i + 1, j, htx[k:])
                elif htx and 'mod' in htx[:3] and 'fn' not in htx:
                    name = htx[htx.index('mod') + 1]
                    if name not in ('tests', 'test'):
                        saved = modname[0]
                        modname[0] = name
                        scan(i + 1, j, container)
                        modname[0] = saved
                elif kn:
                    # Verus syntax only (authoring helper): a brace block inside a contract clause (`ensures match r {..}`) is
                    # followed by the real body; never happens in plain Rust
                    ITEM_START = ('pub', 'fn', 'spec', 'proof', 'exec', 'open', 'closed', 'uninterp', 'broadcast', 'impl', 'struct', 'enum',
                                  'type', 'const', 'static', 'trait', 'mod', 'use', 'unsafe', 'axiom', 'global', '}', '#')
                    while kn[0] == 'fn' and j + 1 < hi and toks[j + 1][1] not in ITEM_START:
                        q = j + 1
                        while q < hi and toks[q][1] != '{':
                            if toks[q][1] in ('(', '['):
                                q = _match_close(toks, q)
                            q += 1
                        if q >= hi:
                            break
                        j = _match_close(toks, q)
                    end = j + 1
                    out.append((container, start, end, kn[0], kn[1], modname[0]))
                elif htx[:2] == ['verus', '!']:
                    scan(i + 1, j, container)
                elif htx[:2] == ['macro_rules', '!']:
                    # body of a macro_rules! definition: items written in the transcriber(s) `( matcher ) => { items }` are located like
                    # ordinary items (metavariables `$x` are single tokens; //@subst binds them to the arguments of the invocation)
                    q = i + 1
                    while q < j:
                        if toks[q][1] in ('(', '[', '{'):
                            c2 = _match_close(toks, q)
                            if toks[q][1] == '{' and q >= 1 and toks[q - 1][1] == '=>':
                                saved = modname[0]
                                scan(q + 1, c2, container)
                                modname[0] = saved
                            q = c2 + 1
                        else:
                            q += 1
                elif htx and htx[0].endswith('!') or (len(htx) >= 2 and htx[1] == '!'):
                    pass  # macro invocation
                start = j + 1
                # struct X {..}  has no trailing ';' ; `static ref X: T = {..};` etc. are not handled
                i = j + 1
                continue
            i += 1

    scan(0, len(toks), None)
    return out


def _kind_name(seg):
    tx = texts(seg)
    # skip visibility / qualifiers
    i = 0
    n = len(tx)
    while i < n:
        t = tx[i]
        if t == 'pub':
            i += 1
            if i < n and tx[i] == '(':
                while i < n and tx[i] != ')':
                    i += 1
                i += 1
            continue
        if t in ('unsafe', 'async', 'extern', 'default', 'open', 'closed', 'spec', 'proof', 'exec', 'broadcast', 'uninterp'):
            i += 1
            continue
        if t == 'const' and i + 1 < n and tx[i + 1] == 'fn':
            i += 1
            continue
        break
    if i + 1 < n and tx[i] in KINDS:
        return tx[i], tx[i + 1]
    return None


def locate(src_text, path):
    """returns token list of the item (attributes and comments stripped)."""
    toks, _ = lex(src_text)
    toks = strip_attrs(toks)
    ctoks, kind, name = parse_path(path)
    found = []
    inmod = []
    for (cont, s, e, k, nm, mod) in items(toks):
        if k == kind and nm == name:
            if ctoks is None:
                if cont is None:
                    (found if mod is None else inmod).append((s, e))
            elif len(ctoks) == 2 and ctoks[0] == 'mod':
                # `mod NAME :: fn f`: a free item of an inline module
                if cont is None and mod == ctoks[1]:
                    found.append((s, e))
            elif cont is not None and cont == ctoks:
                found.append((s, e))
    if ctoks is None and not found:
        found = inmod      # a path without container also names an item of an inline module when there is no top-level one
    if len(found) != 1:
        raise LostItem('item %r found %d times' % (path, len(found)))
    s, e = found[0]
    return toks[s:e]


def locate_span(src_text, path):
    """(tokens, start_char, end_char) of the item in src_text"""
    tk = locate(src_text, path)
    return tk, tk[0][3], tk[-1][3] + len(tk[-1][1])

"""Mirror files (.vrs): real code + marked annotations.  Parse, erase, weave (verbatim or re-woven against edited code).

Markers (all are Rust comments, so a .vrs file with the inline delimiters removed is a Verus file):
  //@extract <file> :: <path>     start of a region holding the text of one item of /repo
  //@subst A=B, C=D               (directly after //@extract) token substitution applied to the repo item before comparison
  //@end                          end of region
  //@+  ...  //@-                 whole-line annotation block (spec text, inserted)
  /*@+ ... @*/                    inline annotation (inserted)
  //@rw <RULE>                    rewrite: the following `//@< ` lines are the original code (as in /repo),
  //@< original code              the lines after them up to `//@>` are what the verifier sees instead
  replacement
  //@>
Everything outside regions is passed through (prelude: spec fns, lemmas, stubs, glue such as `impl X {`).
"""
import re
import difflib
from lex import lex, strip_attrs, texts, render
import rules

INLINE = re.compile(r'/\*@\+(.*?)@\*/', re.S)


class MirrorError(Exception):
    pass


class Undecided(Exception):
    pass


class Region:
    def __init__(self, file, path, lineno):
        self.file = file
        self.path = path
        self.lineno = lineno
        self.subst = {}
        self.segs = []      # dicts: kind code|annot|rw, text, (orig, rule)
        self.status = None  # verbatim | rewoven
        self.rules = []

    @property
    def name(self):
        return '%s :: %s' % (self.file, self.path)


def parse(text):
    """returns list of parts: ('raw', text, lineno) | ('region', Region)"""
    parts = []
    lines = text.split('\n')
    i = 0
    n = len(lines)
    raw = []
    raw_start = 1

    def flush_raw():
        nonlocal raw
        if raw:
            parts.append(('raw', '\n'.join(raw) + '\n', raw_start))
            raw = []

    while i < n:
        ln = lines[i]
        s = ln.strip()
        if s.startswith('//@extract '):
            flush_raw()
            m = re.match(r'//@extract\s+(\S+)\s+::\s+(.*)$', s)
            if not m:
                raise MirrorError('line %d: bad //@extract' % (i + 1))
            reg = Region(m.group(1), m.group(2).strip(), i + 1)
            i += 1
            mode = 'code'
            buf = []
            rw = None

            def flush_code():
                nonlocal buf
                if buf:
                    txt = '\n'.join(buf) + '\n'
                    pos = 0
                    for mm in INLINE.finditer(txt):
                        if mm.start() > pos:
                            reg.segs.append({'kind': 'code', 'text': txt[pos:mm.start()]})
                        reg.segs.append({'kind': 'annot', 'text': mm.group(1), 'inline': True})
                        pos = mm.end()
                    if pos < len(txt):
                        reg.segs.append({'kind': 'code', 'text': txt[pos:]})
                    buf = []

            while i < n:
                ln = lines[i]
                s = ln.strip()
                if s == '//@end':
                    break
                if mode == 'code':
                    if s.startswith('//@subst '):
                        for kv in _split_top(s[len('//@subst '):]):
                            a, b = kv.split('=', 1)
                            reg.subst[a.strip()] = b.strip()
                    elif s == '//@+':
                        flush_code()
                        mode = 'annot'
                        buf = []
                    elif s.startswith('//@rw'):
                        flush_code()
                        rw = {'kind': 'rw', 'rule': s[len('//@rw'):].strip() or 'MANUAL', 'orig': '', 'text': '', 'lineno': i + 1}
                        mode = 'rw'
                    elif s.startswith('//@'):
                        raise MirrorError('line %d: unexpected marker %r' % (i + 1, s))
                    else:
                        buf.append(ln)
                elif mode == 'annot':
                    if s == '//@-':
                        reg.segs.append({'kind': 'annot', 'text': '\n'.join(buf) + '\n', 'inline': False})
                        buf = []
                        mode = 'code'
                    elif s.startswith('//@'):
                        raise MirrorError('line %d: unexpected marker %r inside //@+' % (i + 1, s))
                    else:
                        buf.append(ln)
                elif mode == 'rw':
                    if s.startswith('//@<'):
                        rw['orig'] += s[len('//@<'):] + '\n'
                    elif s == '//@>':
                        # inline annotations are allowed inside a replacement: strip the delimiters
                        rw['raw'] = rw['text']
                        rw['code'] = INLINE.sub('', rw['text'])
                        rw['text'] = INLINE.sub(lambda m_: m_.group(1), rw['text'])
                        reg.segs.append(rw)
                        rw = None
                        mode = 'code'
                    elif s in ('//@g+', '//@g-'):
                        rw['text'] += ln + '\n'
                    elif s.startswith('//@'):
                        raise MirrorError('line %d: unexpected marker %r inside //@rw' % (i + 1, s))
                    else:
                        rw['text'] += ln + '\n'
                i += 1
            if i >= n:
                raise MirrorError('region at line %d not closed' % reg.lineno)
            if mode != 'code':
                raise MirrorError('region at line %d: unterminated block' % reg.lineno)
            flush_code()
            parts.append(('region', reg, reg.lineno))
            i += 1
            raw_start = i + 1
            continue
        if s.startswith('//@') and not s.startswith('//@unit') and not s.startswith('//@note') and not s.startswith('//@rlimit') and not s.startswith('//@expect'):
            raise MirrorError('line %d: marker %r outside region' % (i + 1, s))
        raw.append(ln)
        i += 1
    flush_raw()
    return parts


def erased_tokens(reg):
    """token texts of the code the region claims to mirror, with (segment index) per token"""
    out = []
    owner = []
    for si, seg in enumerate(reg.segs):
        if seg['kind'] == 'code':
            tk = lex(seg['text'])[0]
        elif seg['kind'] == 'rw':
            tk = lex(seg['orig'])[0]
        else:
            continue
        for t in tk:
            out.append(t[1])
            owner.append(si)
    return out, owner


def _split_top(text):
    """split at commas that are not inside <..> or (..)"""
    out, cur, depth = [], '', 0
    for ch in text:
        if ch in '<(':
            depth += 1
        elif ch in '>)':
            depth -= 1
        if ch == ',' and depth == 0:
            out.append(cur); cur = ''
        else:
            cur += ch
    if cur.strip():
        out.append(cur)
    return out


def apply_subst(toks, subst):
    """token substitution; a key is one identifier (`T`, `$DistType`) or a short token sequence (`T::DistType`); longer keys first"""
    if not subst:
        return toks
    keys = sorted(((texts(lex(k)[0]), v) for k, v in subst.items()), key=lambda kv: -len(kv[0]))
    out = []
    i = 0
    n = len(toks)
    while i < n:
        (k, t, w, p) = toks[i]
        hit = None
        if k == 'id':
            for (kt, v) in keys:
                if [x[1] for x in toks[i:i + len(kt)]] == kt:
                    hit = (kt, v)
                    break
        if hit:
            first = True
            for (k2, t2, w2, _p2) in lex(hit[1])[0]:
                out.append((k2, t2, w if first else w2, p))
                first = False
            i += len(hit[0])
        else:
            out.append((k, t, w, p))
            i += 1
    return out


def check_rules(reg):
    """for every rewrite with a generator, the replacement must be what the rule produces from the original."""
    res = []
    for seg in reg.segs:
        if seg['kind'] != 'rw':
            continue
        rule = seg['rule'].split()[0]
        gen = rules.apply if rules.has_generator(seg['rule']) else None
        entry = {'rule': seg['rule'], 'orig': ' '.join(texts(lex(seg['orig'])[0])), 'machine_checked': False}
        if gen is not None:
            try:
                want = gen(seg['rule'], seg['orig'])
            except rules.NoMatch as e:
                raise MirrorError('region %s: rule %s does not match original %r (%s)' % (reg.name, rule, seg['orig'], e))
            got = texts(lex(strip_ghost(seg.get('code', seg['text'])))[0])
            if texts(lex(want)[0]) != got:
                raise MirrorError('region %s: rule %s: replacement differs from generated\n want: %s\n got:  %s' % (
                    reg.name, rule, ' '.join(texts(lex(want)[0])), ' '.join(got)))
            entry['machine_checked'] = True
        res.append(entry)
    return res


GHOST_BLOCK = re.compile(r'//@g\+.*?//@g-[^\n]*\n', re.S)


RW_ANNOT = re.compile(r'//@g\+[^\n]*\n(.*?)//@g-[^\n]*\n|/\*@\+(.*?)@\*/', re.S)


def reweave_rw(raw, new_text):
    """re-attach the annotations (ghost blocks, inline annotations) of a rewrite replacement `raw` to the text `new_text` the rule
    generates from the EDITED original: each annotation stays in front of the image of the code token it preceded (token-level diff
    between the old and the new rule output)."""
    old_toks = []
    annots = []     # (position in old_toks, kind, text)
    pos = 0
    for m in RW_ANNOT.finditer(raw):
        old_toks += texts(lex(raw[pos:m.start()])[0])
        if m.group(1) is not None:
            annots.append((len(old_toks), 'ghost', m.group(1)))
        else:
            annots.append((len(old_toks), 'inline', m.group(2)))
        pos = m.end()
    old_toks += texts(lex(raw[pos:])[0])
    new_toks = texts(lex(new_text)[0])
    ops = difflib.SequenceMatcher(a=old_toks, b=new_toks, autojunk=False).get_opcodes()

    def image(k):
        if k >= len(old_toks):
            return len(new_toks)
        for (tag, i1, i2, j1, j2) in ops:
            if i1 <= k < i2:
                return j1 + (k - i1) if tag == 'equal' else j1
        return len(new_toks)
    ins = {}
    for (k, kind, text) in annots:
        ins.setdefault(image(k), []).append((kind, text))
    out = []
    for j in range(len(new_toks) + 1):
        for (kind, text) in ins.get(j, []):
            out.append('\n' + text + '\n' if kind == 'ghost' else ' ' + text + ' ')
        if j < len(new_toks):
            out.append(' ' + new_toks[j])
    return ''.join(out) + '\n'


def strip_ghost(text):
    """inside a rewrite replacement, lines between //@g+ and //@g- are annotations (ghost), not part of the rule output"""
    return GHOST_BLOCK.sub('', text)


def weave(reg, cur_toks):
    """cur_toks: tokens of the item in the current tree (attrs stripped, subst applied).
    returns woven text. sets reg.status."""
    E, owner = erased_tokens(reg)
    C = texts(cur_toks)
    reg.rules = check_rules(reg)
    if E == C:
        reg.status = 'verbatim'
        out = []
        for seg in reg.segs:
            out.append(seg['text'])
        return ''.join(out)
    # ---- re-weave against edited code
    reg.status = 'rewoven'
    sm = difflib.SequenceMatcher(a=E, b=C, autojunk=False)
    ops = sm.get_opcodes()

    def image(k):
        if k >= len(E):
            return len(C)
        for (tag, i1, i2, j1, j2) in ops:
            if i1 <= k < i2:
                return j1 + (k - i1) if tag == 'equal' else j1
        return len(C)

    def eq_image(k):
        """index in C of E[k] if that token survived the edit unchanged, else None"""
        for (tag, i1, i2, j1, j2) in ops:
            if i1 <= k < i2:
                return j1 + (k - i1) if tag == 'equal' else None
        return None

    def unchanged(a, b):
        """E[a:b] maps onto a contiguous identical run of C"""
        if a == b:
            return True
        ja = image(a)
        for k in range(a, b):
            ok = False
            for (tag, i1, i2, j1, j2) in ops:
                if i1 <= k < i2:
                    ok = tag == 'equal' and j1 + (k - i1) == ja + (k - a)
                    break
            if not ok:
                return False
        return True

    # positions in E where each segment starts
    seg_start = {}
    pos = 0
    counts = {}
    for t_owner in owner:
        counts[t_owner] = counts.get(t_owner, 0) + 1
    p = 0
    for si, seg in enumerate(reg.segs):
        seg_start[si] = p
        p += counts.get(si, 0)
    # build insertion map: C index -> list of texts to insert before that token; and replaced ranges
    inserts = {}
    replaced = []   # (j1, j2, text)
    for si, seg in enumerate(reg.segs):
        a = seg_start[si]
        if seg['kind'] == 'annot':
            # an annotation sits between two code tokens.  It is re-attached only where at least one of them survived the edit unchanged
            # (before the surviving successor, else after the surviving predecessor); where both neighbours were edited or deleted the anchor is
            # lost and the unit is UNDECIDED - guessing a place would turn a harmless restructuring into failed obligations (an alarm)
            nxt = len(C) if a >= len(E) else eq_image(a)
            prv = -1 if a == 0 else eq_image(a - 1)
            if nxt is None and prv is None:
                raise Undecided('REWEAVE-ANCHOR: the code on both sides of an annotation of %s was edited; annotation: %s' % (reg.name, ' '.join(seg['text'].split())[:160]))
            j = nxt if nxt is not None else prv + 1
            inserts.setdefault(j, []).append(seg)
        elif seg['kind'] == 'rw':
            b = a + counts.get(si, 0)
            if unchanged(a, b):
                replaced.append((image(a), image(a) + (b - a), seg['text']))
            else:
                rule = seg['rule'].split()[0]
                gen = rules.apply if rules.has_generator(seg['rule']) else None
                j1, j2 = image(a), image(b)
                if gen is None or j2 <= j1:
                    raise Undecided('REWEAVE-RW: code under rewrite %s changed in %s and the rule cannot be re-applied' % (seg['rule'], reg.name))
                new_orig = render(cur_toks[j1:j2])
                try:
                    new_text = gen(seg['rule'], new_orig)
                except rules.NoMatch as e:
                    raise Undecided('REWEAVE-RW: rule %s no longer matches edited code in %s: %s' % (rule, reg.name, e))
                # ghost lines / inline annotations of the replacement are re-attached by a token diff of old vs new rule output
                replaced.append((j1, j2, reweave_rw(seg.get('raw', seg['text']), new_text)))
    # a code line with inline annotations whose tokens changed: flagged (the annotation is still placed by anchor)
    out = []
    rep_at = {j1: (j2, txt) for (j1, j2, txt) in replaced}
    j = 0
    nC = len(C)
    while j <= nC:
        for seg in inserts.get(j, []):
            if seg.get('inline'):
                out.append(' ' + seg['text'] + ' ')
            else:
                out.append('\n' + seg['text'])
        if j == nC:
            break
        if j in rep_at:
            j2, txt = rep_at[j]
            out.append('\n' + txt)
            j = j2 if j2 > j else j + 1
            if j2 <= j - 1:
                pass
            continue
        k, t, w, _p = cur_toks[j]
        out.append((w if w else ' ') + t)
        j += 1
    return ''.join(out) + '\n'

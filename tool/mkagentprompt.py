#!/usr/bin/env python3
"""write /tmp/agent_prompt_<ID>_r<round>.txt for a mutant-producing sub-agent and create its scratch worktree /tmp/mut<round>_<ID>.
The prompt contains ONLY the property text (title, statement, quantifier, anchor files) and the worktree path - nothing from /verif."""
import json, os, subprocess, sys
ROOT = os.path.dirname(os.path.dirname(os.path.abspath(__file__)))
pid, rnd = sys.argv[1], sys.argv[2]
prop = [json.loads(l) for l in open(os.path.join(ROOT, 'properties.jsonl')) if json.loads(l)['id'] == pid][0]
wt = '/tmp/mut%s_%s' % (rnd, pid)
if not os.path.exists(wt):
    subprocess.check_call(['git', '-C', '/repo', 'worktree', 'add', '--detach', wt, 'HEAD'], stdout=subprocess.DEVNULL, stderr=subprocess.DEVNULL)
txt = open('/tmp/agent_prompt_C02.txt').read() if False else None
T = '''You are working in a scratch git worktree of the Rust library rust-bio at {wt} (a checkout of the library at its current HEAD). Work ONLY inside {wt}. Do NOT read, list or touch /repo or /verif or any other /tmp/mut* or /tmp/rb_* directory. The machine is offline: always use `cargo ... --offline` (env CARGO_NET_OFFLINE=true).

The following semantic property of the library is supposed to hold:

{pid}: {title}

{statement}

Quantification: {quant}

Anchored in files: {files}

YOUR TASK: produce THREE independent, realistic source changes (each a small patch to library code under src/, in different functions/files where possible) such that each change, applied alone:
  (a) still compiles, and the existing test suite still passes (`cargo test --offline --lib` must pass; also run the doc tests of the touched module if you can, e.g. `cargo test --offline --doc <module path fragment>`),
  (b) BREAKS the property above, and
  (c) needs something specific to manifest - an unusual input, a particular parameter/length combination, a multi-step sequence of operations, or two cooperating sites that each look fine alone - NOT something ordinary use would expose at once. Think of plausible developer mistakes: off-by-one at a boundary, a "performance optimisation" that is wrong in a corner case, wrong handling of one rarely used branch, stale state, a changed comparison (< vs <=), a refactoring that subtly changes evaluation order, etc.

For each change i in 1..3 write into {wt}/out/<i>/ :
  - patch.diff : output of `git diff` for the change (against HEAD), touching only files under src/
  - demo.rs : a self-contained Rust integration test file (to be dropped into tests/ of the crate, using `use bio::...`) with one or more #[test] fns that FAIL with the change applied and PASS without it. Verify both yourself (copy it to tests/demo_{pid}_<i>.rs, run `cargo test --offline --test demo_{pid}_<i>` with and without the patch) and then remove it from tests/ again.
  - meta.json : {{"property": "{pid}", "summary": "...what was changed...", "breaks": "...which clause of the property...", "needs_to_manifest": "...the specific input/sequence needed...", "commands_run": ["..."], "existing_tests_pass_with_change": true/false, "demo_fails_with_change": true/false, "demo_passes_without_change": true/false}}

When you are done, the worktree must have NO modifications outside out/ (run `git checkout -- .` and delete any test file you added; `git status --short` should show only out/). Do not commit anything. Building the crate the first time takes a few minutes. Report briefly what the three changes are.
'''
out = T.format(wt=wt, pid=pid, title=prop['title'], statement=prop['statement'], quant=prop['quantifier']['text'], files=', '.join(prop['anchors']['files']))
fn = '/tmp/agent_prompt_%s_r%s.txt' % (pid, rnd)
open(fn, 'w').write(out)
print(fn, wt)

#!/usr/bin/env python3
"""rewrite the 'Registered checks' table of DESIGN.md (between REGISTERED-TABLE markers) from tool/props.py and the mirrors."""
import os, re, sys
ROOT = os.path.dirname(os.path.dirname(os.path.abspath(__file__)))
sys.path.insert(0, os.path.join(ROOT, 'tool'))
from props import PROPS

def fns(unit):
    txt = open(os.path.join(ROOT, 'contracts', unit + '.vrs')).read()
    out = []
    for m in re.finditer(r'^//@extract\s+(\S+)\s+::\s+(.*)$', txt, re.M):
        path = m.group(2).strip()
        parts = [p.strip() for p in path.split(' :: ')]
        kind, name = parts[-1].split()[0], parts[-1].split()[1]
        if kind == 'trait' and len(parts) == 1:
            out.append('trait ' + name + ' (declaration and default methods)')
            continue
        if kind not in ('fn',):
            continue
        owner = ''
        if len(parts) > 1:
            hdr = parts[0]
            mm = re.search(r'for\s+([A-Za-z_][\w]*|\([^)]*\))', hdr) if ' for ' in hdr and not hdr.startswith('trait') else None
            m2 = re.match(r'(?:impl(?:<[^>]*(?:<[^>]*>[^>]*)*>)?|trait|mod)\s+([A-Za-z_][\w]*)', hdr)
            if hdr.startswith('impl') and ' for ' in hdr:
                owner = re.sub(r'<.*', '', hdr.split(' for ')[1].split(' where')[0]).strip()
            elif m2:
                owner = m2.group(1)
        out.append((owner + '::' if owner else '') + name)
    return out

rows = []
for pid in sorted(PROPS):
    p = PROPS[pid]
    cells = []
    for u in p.get('units', []):
        f = fns(u)
        cells.append('**%s**: %s' % (u, ', '.join('`%s`' % x for x in f)))
    for k in p.get('kani', []):
        cells.append('**Kani %s**%s' % (k['name'], ' (thorough only)' if k.get('thorough_only') else ''))
    rows.append('| %s | %s | %s |' % (pid, p['level'], '<br>'.join(cells)))
table = '| ID | level | units / harnesses and the functions of /repo under contract |\n|---|---|---|\n' + '\n'.join(rows) + '\n'
d = open(os.path.join(ROOT, 'DESIGN.md')).read()
a = d.index('<!-- REGISTERED-TABLE-BEGIN -->') + len('<!-- REGISTERED-TABLE-BEGIN -->')
b = d.index('<!-- REGISTERED-TABLE-END -->')
d = d[:a] + '\n' + table + d[b:]
open(os.path.join(ROOT, 'DESIGN.md'), 'w').write(d)
print('%d rows' % len(rows))

#!/usr/bin/env python3
"""regenerate MANIFEST.json from tool/props.py (+ the not-applicable table below)"""
import json, os, sys
sys.path.insert(0, os.path.dirname(os.path.abspath(__file__)))
from props import PROPS, NOT_APPLICABLE
ROOT = os.path.dirname(os.path.dirname(os.path.abspath(__file__)))
checks = []
for pid in sorted(PROPS):
    P = PROPS[pid]
    checks.append({
        'property_id': pid,
        'quick_cmd': './check %s --tier quick' % pid,
        'thorough_cmd': './check %s --tier thorough' % pid,
        'evidence_file': 'evidence/%s.json' % pid,
        'replay_cmd_template': './check %s --replay {path}' % pid,
        'engine': 'verus+kani',
        'level_claimed': {'category': P['level'], 'text': P['level_text'], 'design_ref': 'DESIGN.md §4 ' + pid},
        'level_note': P['level_note'],
        'technique': P.get('technique', 'contract-based deductive verification (Verus/Z3) of the real functions, woven from /repo on every run'),
    })
m = {
    'version': 1,
    'setup_cmd': 'python3 tool/setup.py',
    'hooks': {'guard': 'rust_bio_verif', 'enable': 'none needed: contracts are woven into text extracted from /repo at check time; no hook code exists in /repo',
              'baseline_off_cmd': 'cd /repo && cargo test --workspace --no-fail-fast --offline', 'source_commits': [], 'add_only': True},
    'engines': [
        {'name': 'verus-weave', 'path': 'tool/', 'serves_properties': sorted(PROPS), 'kind_free_text': 'mirror files (contracts/*.vrs) woven token-for-token against /repo, verified by Verus 0.2026.09.13 (Z3)'},
        {'name': 'kani-harness', 'path': 'kani/', 'serves_properties': sorted(p for p in PROPS if PROPS[p].get('kani')), 'kind_free_text': 'loop-free / fixed-width Kani (CBMC) harnesses over the real source files'},
        {'name': 'replay', 'path': 'replay/', 'serves_properties': sorted(p for p in PROPS if PROPS[p].get('oracle')), 'kind_free_text': 'failing-input search and replay on the real crate (attaches inputs to violations; never decides)'},
    ],
    'checks': checks,
    'not_applicable': [{'property_id': k, 'reason': v} for k, v in sorted(NOT_APPLICABLE.items()) if k not in PROPS],
    'notes': 'exit 2 = UNDECIDED (tool limit / lost anchor / solver budget), never an alarm.  See DESIGN.md.',
}
json.dump(m, open(os.path.join(ROOT, 'MANIFEST.json'), 'w'), indent=1)
print('MANIFEST.json: %d checks, %d not applicable' % (len(checks), len(m['not_applicable'])))

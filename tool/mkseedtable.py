#!/usr/bin/env python3
"""rewrite the seeded-changes table of DESIGN.md (§0.1) from seeded/*/meta.json"""
import json, glob, os, re
ROOT = os.path.dirname(os.path.dirname(os.path.abspath(__file__)))
rows = []
for d in sorted(glob.glob(os.path.join(ROOT, 'seeded', '*'))):
    try:
        m = json.load(open(os.path.join(d, 'meta.json')))
    except Exception:
        continue
    name = os.path.basename(d)
    summ = (m.get('summary') or '')[:170].replace('|', '/').replace('\n', ' ')
    verdict = m.get('check_verdict', '?')
    how = ''
    tail = ' '.join(m.get('check_output_tail', []))
    mm = re.search(r'FAILED-OBLIGATION (\S+?::\S+?)::', tail)
    if 'CAUGHT' in verdict:
        if 'FAILED-OBLIGATION' in tail:
            how = 'contract: failed obligation' + (' ' + mm.group(1) if mm else '')
        elif 'UNDECIDED' in tail:
            how = 'contract weave UNDECIDED on the edited code, then violation by replayed input'
        else:
            how = 'BOUNDED stand-in (oracle) - the clause is outside the contracts'
        if 'failing input on the real code' in tail and 'FAILED-OBLIGATION' in tail:
            how += ' + failing input'
    note = m.get('verdict_note', '')
    rows.append('| %s | %s | %s | %s%s |' % (name, summ, verdict.split(' ')[0], how, (' — ' + note) if note else ''))
table = '### 0.1 Seeded changes and which check catches them\n\n| id | change (by an independent sub-agent) | verdict of `./check` | how / why |\n|---|---|---|---|\n' + '\n'.join(rows) + '\n'
p = os.path.join(ROOT, 'DESIGN.md')
s = open(p).read()
B, E = '<!-- SEEDED-TABLE-BEGIN -->', '<!-- SEEDED-TABLE-END -->'
if B in s:
    s = s[:s.index(B) + len(B)] + '\n' + table + s[s.index(E):]
else:
    anchor = '\n--------------------------------------------------------------------------------\n## 1. Why this reaches'
    s = s.replace(anchor, '\n' + B + '\n' + table + E + '\n' + anchor, 1)
open(p, 'w').write(s)
print('%d seeded rows' % len(rows))

#!/bin/sh
# soak-test the replay oracles on the UNCHANGED tree (any FOUND here is an oracle bug or a genuine defect to triage)
set -e
cd "$(dirname "$0")/.."
python3 - <<'P'
import sys; sys.path.insert(0, 'tool')
import runcheck
b, err = runcheck.replay_bin()
print('replay binary:', b, err)
P
for s in 11 12 13; do
  for p in C01 C02 C04 C05 C06 C07 C08 C09 C12 C17 C18 C19 C20; do
    echo "== $p seed $s: $(timeout 900 build/replay-target/debug/replay $p search $s 300000 thorough | cut -c1-400)"
  done
done

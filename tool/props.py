"""Property table: which units / harnesses / oracle decide each property, and what is left undecided."""

PROPS = {
    'C18': {
        'level': 'proof',
        'units': ['C18/bitenc', 'C18/fenwick', 'C18/smallints'],
        'kani': [],
        'oracle': 'C18',
        'decided': ['BitEnc (every width 1..=8): new, with_capacity, push, push_values, set, get, clear, iter + BitEncIter::next, nr_blocks/nr_symbols/len/is_empty — observationally a Vec<u8> of masked values, block count consistent',
                    'SmallInts<i8, isize> (the LCP-array instantiation): new/default, with_capacity, from_elem, push, set, get, len, is_empty, iter + Iter::next, decompress (rule R49: iter().collect() -> next() loop) — observationally a Vec<isize> for small, equal-to-max, larger and negative values',
                    'FenwickTree<u64, Op> for any associative-commutative Op: new, get, set — get(q) is the fold of all updates at indices <= q (prefix postcondition over ALL prefixes per set); MaxOp shown to satisfy the laws (its operations are always defined: lemma_max_ok)',
                    'FenwickTree<u64, SumOp> (prefix SUM, the real `t1 + t2`): as long as every prefix sum stays below u64::MAX (the stated precondition of get/set through lemma_sum_get_ok / lemma_sum_set_ok - the API states no bound, wrapping/panicking beyond it is not claimed), no addition overflows (every node and every partial accumulation is bounded by a prefix sum), get(q) is the exact mathematical sum of all values set at indices <= q and set(i, v) adds v to exactly the prefixes q >= i; a fresh tree has all prefix sums 0'],
        'undecided': ['SmallInts at (S, B) instantiations other than (i8, isize)', 'FenwickTree at element types other than u64 (and (u32,u32)/PrevPtr in C19); prefix sums reaching u64::MAX (precondition)'],
        'trusted': ['BTreeMap stub (new/insert/get over a Map view)', 'num_traits::cast pinned at (isize->i8), (i8->isize), (i32->i8); i8::max_value', 'Enumerate<slice::Iter>::next model', 'cmp::max std spec'],
        'level_text': 'Verus proves, for every width, fill state and operation history, that BitEnc equals a plain vector of masked values (data-structure invariant + whole-view postconditions on every public operation).',
        'level_note': 'Trusted: Verus/Z3, rustc semantics as encoded by Verus, vstd Vec specs, usize = 64 bit, the weave tool; see evidence assumptions.',
    },
}

PROPS['C08'] = {
    'level': 'proof',
    'units': ['C08/shift_and', 'C08/kmp', 'C08/horspool', 'C08/bndm', 'C08/bom'],
    'kani': [],
    'oracle': 'C08',
    'decided': ['ShiftAnd, KMP, Horspool, BNDM, BOM: every call of Matches::next returns the next occurrence at or after the frontier, skips none, and None only when no occurrence remains (hence increasing, duplicate-free, complete), for every pattern 1..=64 (bit-parallel) / any length and every text',
                'mask/shift/lps tables built by masks (forward instance for ShiftAnd, reversed instance for BNDM), Horspool::new, lps equal their definitions',
                'BOM::new builds the factor oracle of the reversed pattern: the unit proves, as an invariant of the real on-line construction loop (suffix-chain walk, `table[k].insert`, `suff[i] = ...`), that every factor of the reversed pattern is read by the table and that the only word of length m that is read is the reversed pattern itself (factor-oracle theorem, machine-checked by a new, simpler invariant: edge closure along suffix links + every suffix ends on the suffix chain of the last state); BOM::delta; Matches::next: a failed read proves that no occurrence overlaps the symbols read, so the shift m + 2 - j skips nothing; a complete read ends in a state iff the window equals the pattern',
                'constructors and find_all of all five matchers: new(p) yields a well-formed matcher whose abstract pattern IS p (recoverable from the tables; for BOM: lemma_wf_unique - the table is the oracle of exactly one pattern), find_all starts from a pattern-only state at frontier 0 - so a matcher built once gives the same answers on every text'],
    'undecided': ['instantiations of the generic iterator parameters other than byte slices'],
    'trusted': ['Enumerate<slice::Iter<u8>>::next model (assume_specification)', 'iterator parameters instantiated at byte slices (rules R6*, INST; in BOM::new the adapter chains `pattern.into_iter()`, `.clone().max().expect(..)`, `pattern.rev().enumerate()` are hand-declared INST rewrites to slice indexing)',
                'vec_map::VecMap stub (external crate: with_capacity/insert/contains_key/get as a map), Option::copied (assume_specification), iter_max stub (value unused except as a capacity hint)'],
    'level_text': 'Verus proves the iterator contract (next occurrence, none skipped, termination or bounded progress) on the real next() of all five matchers and the table-construction functions, for all patterns and texts; for BOM the factor-oracle theorem is proved in the unit as an invariant of the real construction loop.',
    'level_note': 'Trusted: Verus/Z3, Enumerate::next model, instantiation of the generic iterator parameters at &[u8] (hand-declared INST rewrites in BOM::new), VecMap stub; see evidence assumptions.',
}

PROPS['C04'] = {
    'level': 'proof',
    'units': ['C04/occ', 'C04/less', 'C04/invert'],
    'kani': [],
    'oracle': 'C04',
    'decided': ['bwt(text, pos)[r] is the symbol cyclically preceding suffix pos[r]',
                'less(bwt, alphabet)[c] == number of symbols < c (via prescan == exclusive prefix sums)',
                'Occ::new builds checkpoint tables that are exact for every alphabet symbol and the sentinel; Occ::get(r, a) == #a in bwt[0..=r] for every sampling rate k >= 1 including the k > 64 look-ahead branch',
                'bwtfind(bwt)[slot(r)] == r with slot(r) = #smaller symbols + #earlier rows with the same symbol (the inverse-LF table), and invert_bwt(bwt) == text for EVERY single-sentinel text whose BWT (under its sorted suffix array, sentinel suffix first) this is (unit C04/invert: the LF-mapping theorem LF(r) = less(c) + occ(r, c) - 1 is proved from the suffix-order theory by a permutation-counting argument and an order-preservation argument, then used for the real bwtfind / invert_bwt loops)'],
    'undecided': [],
    'trusted': ['bytecount::count stub == counting spec', 'Alphabet/BitSet stub (members, max_symbol, is_word, ascending duplicate-free collect)', 'C04/invert: the contract of less() proved in C04/less is restated on a stub; Alphabet::new(text) stub (exactly the symbols of the text)'],
    'level_text': 'Verus proves bwt, less (with prescan) and Occ::new/Occ::get exact against counting specifications for all texts, alphabets and sampling rates, and invert_bwt(bwt(text)) == text for single-sentinel texts via a machine-checked LF-mapping theorem.',
    'level_note': 'Trusted: Verus/Z3, stubs for bytecount::count and alphabets::Alphabet (bit_set), vstd Vec/slice specs.',
}

PROPS['C05'] = {
    'level': 'other',
    'units': ['C05/fmindex', 'C05/fm_multi', 'C05/sampled', 'C04/less', 'C04/invert'],
    'kani': [],
    'oracle': 'C05',
    'decided': ['Occ::new / Occ::get exact for every sampling rate (same regions as C04/occ, verified again inside this unit), less / bwt exact (unit C04/less)', 'FMIndex::{new, occ, less, bwt}: the concrete index implements the trait contracts with spec_occ = number of a in bwt[0..=r] and spec_less = number of smaller symbols, and the counting laws (bounds, monotone, 1-Lipschitz) are PROVED of it', 'FMIndexable::backward_search (the real default method) returns Complete/Partial/Absent exactly as defined by the LF recurrence l\' = less(a)+occ(l-1,a), r\' = less(a)+occ(r,a)-1 over the pattern read right to left; no arithmetic underflow given less(a) >= 1 for pattern symbols'],
    'decided_extra': ['Interval::occ (rule R33: mapped range collect -> push loop) returns exactly the suffix-array entries of rows lower..upper in row order, no expect() failure when the interval lies inside the array; RawSuffixArray::get; theorem_occ_positions (C05/fm_multi): for the interval of a complete search these entries are exactly the text positions where the pattern occurs, each once', 'the FM-index theorem for texts with ONE OR SEVERAL sentinels (pure theory unit C05/fm_multi): the LF/FM theory is proved over integer-coded texts and transferred to byte texts through the order-isomorphic coding tr (sentinels become distinct codes below all other symbols, a later sentinel being smaller - the order suffix_array() sorts in); for every sentinel-free pattern the recurrence `bs` holds exactly the rows whose suffixes start with the consumed pattern suffix', 'SampledSuffixArray::get resolves row i to pos[i] for every text with ONE OR SEVERAL sentinels it represents (unit C05/sampled: LF steps through the order-isomorphic coding, the extra_rows cache at rows whose BWT symbol is a sentinel; the single-sentinel proof is kept in C04/invert)', 'the FM-index theorem for single-sentinel texts (unit C04/invert, theorem_backward_search, stated over the SAME recurrence `bs` the real loop is proved against): after consuming the last k symbols of a sentinel-free pattern the recurrence interval holds exactly the suffix-array rows of the suffixes starting with those k symbols, and is empty exactly when they do not occur - so Complete/Partial/Absent and the reported intervals mean occurrence sets'],
    'undecided': ['that suffix_array() delivers the array sorted in the order of the transformed text (SA-IS, C03) - the theorems take a sorted array as hypothesis',
                  'SuffixArray::sample (the construction of the sampled array: float capacity, HashMap inserts)', 'owned / Arc-shared component instantiations (the proof instantiates the components at shared references)'],
    'trusted': ['bytecount::count and Alphabet stubs (as in C04)', 'Borrow::borrow on a reference is the identity (rule RBW)'],
    'level_text': 'Verus proves the real backward_search loop against the textbook LF recurrence (result cases, matched length, no underflow) for every implementor satisfying the stated counting laws; the step from the recurrence to occurrence sets is the FM-index theorem, machine-checked here for texts with one or several sentinels (given a suffix array sorted in the order of the transformed text).',
    'level_note': 'Level other: proof of the search loop against the recurrence; occurrence semantics by the machine-checked LF/FM theorem and C04 for the tables; sortedness of the suffix array is a hypothesis (C03).',
}

PROPS['C07'] = {
    'level': 'proof',
    'units': ['C07/avl', 'C07/iitree', 'C07/iitree64'],
    'kani': [],
    'oracle': 'C07',
    'decided': ['AVL interval tree: Node::insert preserves the search-tree/max/height/balance invariant and adds exactly one entry to the multiset of entries (rotations, repair, update_max, update_height under contract)',
                'IntervalTreeIterator::next and IntervalTreeIteratorMut::next yield exactly the pending overlapping entries, each once, and terminate',
                'intersect == half-open overlap',
                'IntervalTree::{insert, find, find_mut}: insert adds exactly the entry and keeps the invariant; find/find_mut start the iterator with exactly the overlapping entries pending',
                'ArrayBackedIntervalTree::insert appends the entry and invalidates the index (un-indexed queries are refused)',
                'array-backed (implicit, cgranges-style) interval tree at key type u64 (unit C07/iitree64; default, new, insert, index, index_core, find, find_into, max3, StackCell::empty on the real code): index_core gives every real node of every level the maximum end of its subtree clipped to the array, including the imaginary-node bookkeeping (last_i/last_value) and max_level = floor(log2 n); index keeps the multiset of entries and makes the tree queryable; find_into/find return, in storage order and each exactly once, exactly the entries with start < q.end && q.start < end (explicit-stack traversal: consecutive pending ranges, pruning by subtree maximum and by sortedness, stack depth <= max_level + 1 <= 62, all shifts and index computations in range); insert after indexing invalidates the index'],
    'undecided': ['array-backed tree for key types other than u64 (the proof instantiates N = u64; the code is generic over N: Ord + Copy), FromIterator plumbing', 'AnnotMap (HashMap + bio_types::Loc delegation)', 'IntervalTree::new / FromIterator (Default/collect plumbing)'],
    'trusted': ['generic N: lawful total order and faithful Clone are explicit preconditions', 'cmp::max, i64::abs, Option::map_or std specs (assume_specification)', 'iitree64: sort_entries_by_start stub standing for entries.sort_by_key(|e| e.interval.start) (permutation, ascending by start), vstd Ord::max for u64, cmp::min spec, vstd shift/pow2 lemmas'],
    'level_text': 'Verus proves the AVL tree invariant, multiset-of-entries postconditions and both query iterators for generic key and data types, and the array-backed implicit tree (index construction and stack-based query) at key type u64; AnnotMap is not decided.',
    'level_note': 'Trusted: Verus/Z3; N: Ord lawful and Clone faithful (stated requires); std specs for max/abs; wrappers and the other two containers undecided.',
}

PROPS['C12'] = {
    'level': 'proof',
    'units': ['C12/fai'],
    'kani': [],
    'oracle': 'C12',
    'decided': ['fetch_by_rid / fetch_all_by_rid / idx_by_rid: unknown record numbers are errors, otherwise exactly (record, start, stop) is remembered, the file is untouched (consecutive fetches independent: the state is overwritten)',
                'read (buffer path) = seek_to + read_line loop: reading without a fetch is an error; Ok => the buffer holds exactly stop-start bytes, byte j being the file byte at the offset of base start+j, for every fragmentation of fill_buf and any line length / terminator width; stop > len or start > stop => Err; a truncated file gives Err (never short or shifted data); the loop terminates',
                'read_iter (iterator path) = read_into_iter + fill_buffer + next: the iterator yields base start, start+1, ..., stop-1 (each the file byte at that base offset) and then None; a read error is reported once and exhausts the iterator'],
    'undecided': ['fetch / fetch_all by NAME and Index::new (HashMap<String,_> lookup, csv/serde parsing)', 'IndexedReader::new/with_index/from_file constructors', 'size_hint'],
    'trusted': ['io::BufReader model: fill_buf returns ANY non-empty prefix of the remaining bytes (all fragmentations), consume, seek(Start)', 'io::Error::new opaque', 'cmp::min std spec', 'derived Clone of IndexRecord',
                'A-cap (one listed assume): the iterator buffer has capacity >= 1 whenever bases remain (Vec::with_capacity / clear keep capacity; vstd has no capacity specs)'],
    'level_text': 'Verus proves the real read path against a reader model that quantifies over every read fragmentation: returned bytes are exactly the requested bases, errors for bad intervals and truncated files, termination.',
    'level_note': 'Trusted: the BufReader model (stub with the same paths), Verus/Z3; index parsing and by-name lookup not covered.',
}

PROPS['C17'] = {
    'level': 'proof',
    'units': ['C17/rank_select', 'C17/wavelet'],
    'kani': [],
    'oracle': 'C17',
    'decided': ['RankSelect::new builds both superblock tables (entry q == number of t-bits before bit q*s, First exactly at the start of a run) for every k >= 1 and bit vector',
                'rank_1(i) == Some(#ones in 0..=i) iff i < n; rank_0(i) == Some(#zeros in 0..=i) iff i < n; rank == rank_1; get',
                'select_1(j) / select_0(j) / select: Some(p) => bit p has the selected value and exactly j such bits lie in 0..=p; None => j == 0 or j exceeds the number of such REAL bits (padding of the last byte is never selected) - proved through select_x generically in the two closures, for both bit values',
                'hence rank and select are mutually inverse (lemma over the two contracts)', 'SuperblockRank::cmp is the order by (value, variant)',
                'WaveletMatrix (unit C17/wavelet; build_partlevel, new, check_overflow, prank, rank on the real code): new() builds, level by level, the stable partition of the text by code bit 2, 1, 0 (bit vectors, zero counts); rank(c, p) equals, for EVERY text the matrix represents, the number of symbols among text[0..=p] whose DNA2INT code equals that of c (block-of-matching-elements invariant per level; all 128 table entries <= 7 by computation), with no index/overflow failure for texts of 1..2^47 symbols below 128'],
    'undecided': [],
    'trusted': ['bv::BitVec<u8> model (bits, get_block with zero padding, block_len, len, get_bit)', 'u8::count_ones/count_zeros specs', '[T]::binary_search spec over an uninterpreted sort key equated (one admitted axiom) with the key the real cmp is proved to implement', 'ceil_div8 stub for the float ceil (exact below 2^53)', 'wavelet unit: the RankSelect contracts proved in C17/rank_select are restated on an opaque stub (new / rank_0 / rank_1) and used modularly; bv::BitVec::new_fill and BitsMut::set_bit model; <[T]>::to_vec std spec'],
    'level_text': 'Verus proves RankSelect end to end (constructor, both rank functions, both select functions incl. the padding corner) against naive counting over a bit-vector model, and the wavelet matrix (construction and rank) against occurrence counting, using the RankSelect contracts modularly.',
    'level_note': 'Trusted: bv::BitVec model, popcount and binary_search std specs, float ceil stub.',
}

PROPS['C09'] = {
    'level': 'other',
    'units': ['C09/ukkonen', 'C09/distance', 'C09/myers'],
    'kani': [
        {'name': 'myers_step_u8', 'crate': 'myers', 'harness': 'myers_step_u8', 'timeout': 600, 'obligation': 'Myers::<u8>::_step == DP column recurrence for every m in 1..=8, every peq mask, every non-negative column'},
        {'name': 'myers_step_u16', 'crate': 'myers', 'harness': 'myers_step_u16', 'timeout': 900, 'obligation': 'same at u16 (m in 1..=16)'},
        {'name': 'myers_step_u32', 'crate': 'myers', 'harness': 'myers_step_u32', 'timeout': 1500, 'obligation': 'same at u32 (m in 1..=32)'},
        {'name': 'myers_step_u64', 'crate': 'myers', 'harness': 'myers_step_u64', 'timeout': 3600, 'thorough_only': True, 'obligation': 'same at u64 (m in 1..=64; about 12 min)'},
        {'name': 'myers_block_u8', 'crate': 'myers', 'harness': 'myers_block_u8', 'timeout': 600, 'obligation': 'block-based Myers (long.rs) advance_block::<u8> == the DP column recurrence of one 8-row block: for every vertical-delta encoding (Pv & Mv == 0), every match mask, every incoming horizontal delta hin in {-1,0,1} and every bound position, the new (Pv, Mv) decode to exactly the recurrence column, hout is the horizontal delta at the bound row, dist moves by hout'},
        {'name': 'myers_block_u16', 'crate': 'myers', 'harness': 'myers_block_u16', 'timeout': 900, 'obligation': 'same at u16 (16-row block)'},
        {'name': 'myers_block_u32', 'crate': 'myers', 'harness': 'myers_block_u32', 'timeout': 1800, 'thorough_only': True, 'obligation': 'same at u32 (32-row block; about 2.5 min)'},
        {'name': 'myers_block_u64', 'crate': 'myers', 'harness': 'myers_block_u64', 'timeout': 5400, 'thorough_only': True, 'obligation': 'same at u64 (64-row block)'},
    ],
    'oracle': 'C09',
    'decided': ['Ukkonen matcher (Verus, unbounded): with_capacity, find_all_end and Matches::next on the real code — every reported pair (i, d) has d <= k and d == ed(i+1, m), the Sellers recurrence with the cost function as substitution cost; every end position passed over without a report has ed > k; the cut-off invariant (cells beyond lastk are above k, stale cells >= k) is preserved across calls, for every deterministic cost closure, every k and m with m + k + 2^32 < usize::MAX, and every reuse of the Ukkonen object',
                'distance::hamming equals the textbook Hamming distance (equal lengths: the documented panic is the precondition); levenshtein, simd::hamming, simd::levenshtein and simd::bounded_levenshtein equal the textbook definitions GIVEN the assumed contracts of the external crates they delegate to - in particular the clamp of the bound to max(|a|,|b|) never changes the answer (lev <= max length proved), so None is returned exactly when the distance exceeds k; the `as u32` truncations are exact below 2^32 symbols',
                'one Myers column step (the real Myers::<T>::_step, T in u8/u16/u32 quick, u64 thorough) maps the bit-encoded DP column of the edit-distance recurrence to the next column, exactly, for every pattern length up to the word width, every match mask and every column (complete for the width: fixed-count loops with unwinding assertions)'],
    'decided_extra': ['Myers iteration layer (unit C09/myers; the real code inside the impl_myers! macro body, located in the macro definition and instantiated like the simple.rs invocation at T = u64, DistType = u8; State::{init, known_dist}, Myers::{new, new_ambig, initial_state, step}, Myers::{distance, find_all_end, find_best_end}, Matches::{new, next}): GIVEN the contract of one column step that the Kani harnesses myers_step_* prove of the real _step (restated on a stub), the state after c text symbols encodes column c of the Sellers recurrence `edm` over the match table (induction over text positions, from the all-ones initial state); Matches::next reports exactly the pairs (end position, D[m][end]) with D <= max_dist, in text order, passing over only positions above max_dist; distance() is the minimum over all end positions (u8::MAX on the empty text); find_best_end returns the FIRST end position of minimal distance (rule R54: min_by_key keeps the first minimum); theorem_edm_is_min: `edm` equals the minimum over start positions of the textbook edit distance to the substring ending there; lemma_levm_exact: with a table that encodes a pattern exactly this is the unit-cost Levenshtein distance (with ambiguity / wildcard bits it is the same distance under the table match relation); Myers::new_ambig builds exactly that table: bit i of peq[a] is set iff pattern[i] == a, or a is listed as an equivalent of pattern[i] in the ambiguity map, or a is a wildcard symbol (rules R55 `for &x in e`, R56 Option::and_then; HashMap::get stub) - so Myers::new(p) encodes p exactly and theorem_myers_exact gives: every reported distance is the minimum over all substrings ending there of the unit-cost Levenshtein distance to p', 'theorem_ed_is_min (unit C09/ukkonen): the Sellers recurrence `ed` the matcher is proved against equals the minimum, over all start positions, of the textbook edit distance `lev` between the pattern (prefix) and the text substring ending at the position - so the reported d is literally "the minimum edit distance between the pattern and any text substring ending at that position"', 'one block step of the block-based Myers algorithm (the real long.rs advance_block, T in u8/u16 quick, u32/u64 thorough; complete Kani proofs over the whole word width): the bit-encoded vertical deltas of one block and the incoming horizontal delta map to exactly the edit-distance recurrence column of the block, the outgoing horizontal delta at the bound row and the distance update'],
    'undecided': ['the Myers iteration layer at word widths other than u64 and for the block-based States (unit C09/myers instantiates the macro at T = u64, DistType = u8); MyersBuilder (building the ambiguity map and wildcard list handed to new_ambig); the traceback-keeping iterators FullMatches / LazyMatches', 'block-based Myers (long.rs) beyond the block step: States::step (carry propagation between blocks, the max_dist band), the iteration layer',
                  'edit distance as a minimum over explicit edit scripts (the textbook Wagner-Fischer recursion `lev` is taken as the definition of edit distance)', 'the external crates triple_accel and editdistancek themselves (assumed contracts; covered by the bounded stand-in only)'],
    'trusted': ['unit C09/myers: the contract of Myers::_step is restated on an external_body stub (discharged by the Kani harnesses, a second tool: composition by reading); generic text iterators instantiated at &[u8] (hand-declared INST rewrites; slice_into_iter / enumerate_iter stubs), num_traits stubs (zero, one, max_value, from_usize, to_usize at u64/u8), HashMap<u8, Vec<u8>>::get stub (finite map), iter_len stub (ExactSizeIterator::len)', 'std::cmp::min spec, Enumerate<slice::Iter> model and the enumerate_slice stub (Ukkonen unit; generic text iterator instantiated at &[u8])', 'cost closure assumed deterministic and total (requires of find_all_end)', 'ASSUMED: editdistancek::{edit_distance, edit_distance_bounded}, triple_accel::{hamming, levenshtein_exp} compute the textbook distances', 'Kani/CBMC; dist <= 200 and non-negative column entries assumed in the harness (true of every reachable column)'],
    'level_text': 'Verus proves the Ukkonen cut-off matcher (find_all_end + Matches::next) equal to the edit-distance recurrence for all inputs and all reuse histories. Complete (not bounded) Kani proofs that one column step of the real bit-parallel Myers implementation equals the DP recurrence, per word width; everything around the step (iteration over the text, the block version, the distance functions) is not decided by this check.',
    'level_note': 'Level other (partial): the step is proved, the property as a whole is not. Trusted: Kani 0.68/CBMC 6.11; harness assumptions listed in evidence.',
    'technique': 'Verus contracts on the real Ukkonen code (mechanical mirror) + loop-free/fixed-width Kani (CBMC) proof harness over the real function, complete for the word width',
}

PROPS['C20'] = {
    'level': 'other',
    'units': ['C20/orf', 'C20/finder', 'C20/alphabet', 'C20/revcomp', 'C19/qgrams'],
    'kani': [
        {'name': 'dna_complement', 'crate': 'alphabets', 'harness': 'dna_complement_all_bytes', 'timeout': 1200, 'obligation': 'dna::complement: involution, case preserving, identity outside the IUPAC table, lower-case twin, Watson-Crick pairs; all 256 bytes'},
        {'name': 'rna_complement', 'crate': 'alphabets', 'harness': 'rna_complement_all_bytes', 'timeout': 1200, 'obligation': 'rna::complement: the same over the RNA table'},
    ],
    'oracle': 'C20',
    'decided': ['ORF finder (Verus, unbounded; State::new, Finder::find_all, Matches::next on the real code): define a reportable frame declaratively (starts with a configured start codon, ends with an in-frame stop codon, no in-frame stop codon in between, length a multiple of three and more than min_len + 2, offset = start mod 3); find_all leaves exactly the reportable frames of the sequence to report; every next() returns the least (end, start) frame still to report and removes exactly that one; None is returned only when nothing is left - hence every reportable frame is reported exactly once, in order, and nothing else is (pending-start lists characterised per frame: sound, ascending, complete; queue sound/complete for the frames ending at the current position)',
                'RankTransform::new / get (unit shared with C19): the rank transform is an order-preserving bijection onto 0..|A| (rank r goes to the r-th smallest symbol)', 'dna::complement and rna::complement (through the real lazy_static tables): involution on all 256 bytes, case preserved, bytes outside the IUPAC table unchanged, lower-case entries mirror upper-case ones (complete over the byte domain)'],
    'decided_extra': ['dna::revcomp and rna::revcomp (unit C20/revcomp, rule R48): the result is the complement table applied to the reversed sequence; lemma_revcomp_twice: reverse-complementing twice restores any sequence given that the table is an involution - which the complete Kani harnesses of this check prove of both real tables', 'Alphabet::{new, insert, is_word, len, is_empty} (unit C20/alphabet, rules R46/R47, BitSet stubbed as a membership predicate): new collects exactly the symbols of its argument; is_word accepts a text exactly when all its symbols are members', 'Finder::new (unit C20/finder, rules R44/R45 for the nested iter().map(..).collect() chains): the finder stores exactly the given start and stop codons, three symbols each, and the minimum length - the well-formedness find_all / next require'],
    'undecided': ['the identification of the Finder of unit C20/finder (whose constructor is proved to establish wf()) with the Finder of unit C20/orf (same struct, same wf definition; two units because the proof of next is sensitive to its context)', 'Alphabet::{max_symbol, intersection, difference, union} (iterator adapters of bit_set)', 'gc_content (f32)', 'the composition of the Verus lemma (revcomp twice == identity GIVEN an involutive table) with the Kani proofs (the real tables are involutions) is by reading: two tools'],
    'trusted': ['Kani/CBMC', 'std specs used by the ORF unit: VecDeque::{is_empty} + vstd VecDeque model, [T]::contains over an uninterpreted element equality with ONE ADMITTED AXIOM equating it with sequence equality for VecDeque<u8>, Enumerate<slice::Iter> model and the enumerate_slice stub (generic sequence iterator instantiated at &[u8])'],
    'level_text': 'Verus proves the ORF finder reports exactly the frames of the declarative definition, each once and in order, for all inputs; complete Kani proofs over the whole byte domain for the two complement tables; rank transform proved (shared unit); alphabet membership and GC content are not decided by contracts.',
    'level_note': 'Level other (partial). Trusted: Kani 0.68/CBMC 6.11.',
    'technique': 'Verus contracts on the real ORF finder code (mechanical mirror) + loop-free Kani (CBMC) proof harness over the real lazy_static tables, exhaustive over u8',
}

PROPS['C19'] = {
    'level': 'other',
    'units': ['C19/qindex', 'C19/qgrams', 'C19/lcskpp', 'C19/sdpkpp', 'C19/kmers'],
    'kani': [],
    'oracle': 'C19',
    'decided': ['QGramIndex::with_max_count builds, for ANY alphabet size (table sized by the bit-packed code space), address/pos tables such that the slice of code g holds exactly the ascending text positions of g (slot r = r-th occurrence), or nothing when g occurs more than max_count times (counting-sort proof over the code sequence)',
                'qgram_matches returns that slice', 'matches(): no index/overflow/underflow failure for any pattern, including patterns overhanging the text start (signed diagonal)',
                'q-gram coding (unit C19/qgrams, the real RankTransform::{new, get, get_width, qgrams} and QGrams::{qgram_push, next}): the rank transform is the order-preserving bijection onto 0..|A|; next() returns the bit-packed code enc(ranks of the consumed text) <= mask, None exactly at the end; qgrams() positions the iterator after the q-1 warm-up symbols with bits = ceil(log2|A|) and the all-ones mask corner at q*bits == 64; the coding is INJECTIVE on q-grams (field lemma by bit_vector + induction)'],
    'decided_extra': ['hash_kmers, find_kmer_matches, find_kmer_matches_seq1_hashed, find_kmer_matches_seq2_hashed (unit C19/kmers, real code over a stubbed hash map; rules R50 entry-API push, R51): the result is exactly the strictly ascending list of all position pairs (a, b) whose k-mers seq1[a..a+k] and seq2[b..b+k] are equal (every pair is such a pair, none is missing, none twice); hash_kmers maps every k-mer that occurs to the ascending list of its positions and nothing else', 'sparse::lcskpp and sparse::sdpkpp (the real code incl. the Fenwick tree instantiated at the value types (u32,u32) resp. PrevPtr, PrevPtr::new): the returned path is a non-empty chain of valid match indices, each k-mer continuing its predecessor on the diagonal or starting at or after its end in both coordinates (event-order argument: an end event precedes every start event that can use it; Fenwick selection contract: a prefix query returns the default or a value set at an index within the prefix); traceback terminates (x strictly decreases); all u32 arithmetic in range under the `fits` bounds'],
    'decided_extra': ['sparse::lcskpp has the MAXIMUM possible LCSk++ score: the reported score equals the score of the returned chain (k for the first match, +1 for a diagonal continuation, +k for a match starting at or after the end of its predecessor) and no valid chain of the given matches scores more - proved on the real code: the Fenwick tree (instantiated at (u32,u32) with the lexicographic maximum) now has the algebraic contract of unit C18/fenwick (get == prefix fold, set updates every later prefix), the sweep keeps "no entry can be improved by an admissible link" (sweep_ok) in event order, the tree shows every ended match from its end column on and only ended matches with their final score (tree_ok), the running best dominates all entries (best_ok); optimality of all chains then follows by induction over chains (lemma_chain_bound), exactness by following the pointers (lemma_trace_score)'],
    'undecided': [
                  'exact_matches maximality, matches() hit counts (HashMap entry API has no model)', 'expand_kmer_matches; for sdpkpp only chain validity is proved (the property claims no optimality for the gap-penalised variant)'],
    'trusted': ['in C19/qindex the q-gram iterator is a stub whose contract (codes are a function of (ranks, q, text), every code <= mask) is the one proved in C19/qgrams', 'vec_map::VecMap, bit_set::BitSet (ascending iteration; in C20/alphabet: new/insert/contains/len/is_empty as a set) stubs; ceil_log2 float stub; usize::checked_shl spec', 'HashMap entry API stub (no functional spec) in C19/qindex; in C19/kmers the FxHashMap<&[u8], Vec<u32>> is a stub with a finite-map model (default, get, push_to = entry(k).or_default().push(v))', 'slice::Iter::clone keeps the remaining items',
                'one listed assume: a diagonal hit counter stays below 2^64', 'lcskpp/sdpkpp units: std specs for slice sort_unstable (permutation, ascending by the lexicographic tuple order of vstd), reverse, binary_search (Ok(i) => equal element; on a strictly sorted slice Err => no equal element), cmp::max (returns one of its arguments); derived Default/Ord of PrevPtr (all-zero default; only selection is used of the order)'],
    'level_text': 'Verus proves the index tables of the real with_max_count (counting sort over the code sequence, any alphabet size) panic-freedom of matches(), the q-gram coding (injective), and chain validity / termination / overflow-freedom of lcskpp and sdpkpp; maximal exact matches and chain optimality are not decided.',
    'level_note': 'Level other (partial). Trusted: q-gram iterator stub contract, HashMap stub, Verus/Z3.',
}

PROPS['C06'] = {
    'level': 'other',
    'units': ['C06/fmd'],
    'kani': [
        {'name': 'dna_complement', 'crate': 'alphabets', 'harness': 'dna_complement_all_bytes', 'timeout': 1200, 'obligation': 'dna::complement on all 256 bytes: Watson-Crick pairs, N fixed, lower-case twins, non-letters fixed - this is the contract of the complement stub of unit C06/fmd (complement(a) == compb(a) on $ACGTNacgtn)'},
    ],
    'oracle': 'C06',
    'decided': ['FMDIndex::smems(pattern, i, l), l >= 1, on the real code: the result is EXACTLY the set of supermaximal exact matches covering pattern position i of length >= l - (nothing else) every reported (interval, start, len) has start <= i < start+len, len >= l, occurs, cannot be extended to the left (start == 0 or pattern[start-1..start+len] occurs nowhere) nor to the right, and interval is its exact bi-interval: the forward rows are precisely the suffixes starting with the match, the reverse rows precisely those starting with its reverse complement; (everything) every pattern substring with these properties is reported. No index, underflow or overflow failure (incl. the isize round trips and the degenerate case pattern[i] not in the text)',
                'FMDIndex::all_smems(pattern, l) on the real code: every reported triple is a supermaximal match of length >= l with its exact bi-interval, and every supermaximal match of length >= l is reported at least once (the skip to the furthest end loses nothing: a skipped match would be contained in a reported one); the loop terminates',
                '"extending a bi-interval by one symbol forwards or backwards yields the bi-interval of the extended string (empty iff it does not occur)" is a POSTCONDITION of the real FMDIndex::backward_ext and forward_ext, and its base case of init_interval_with: for every text t over $ACGTNacgtn that is closed under reverse complement, every sorted suffix array pos of t and every FM index whose occ/less count the BWT of (t, pos), if (lower, lower_rev, size) is the exact bi-interval of a non-empty word w then the result is the exact bi-interval of a.w (resp. w.a); size 0 iff the extended word does not occur',
                'lemma_sym_multi: the closure hypothesis sym(t) holds for every text concat(s $ revcomp(s) $ for s in S) - the texts the property quantifies over',
                'the supporting theory in the same unit (LF mapping, backward-search step on multi-sentinel byte texts, refinement of an interval by the next symbol, permutation counting, mirror bijection, occurrence-extension chains of the work lists) is proved from first principles: no axiom',
                'FMDIndex::backward_ext: the returned bi-interval is exactly the bi-interval recurrence (k\' = C[a] + Occ(k-1, a); s\' = Occ(k+s-1, a) - Occ(k-1, a); l\' = l + number of interval rows whose symbol precedes a in the complement order $TGCNAtgcna), no arithmetic failure (also for an empty interval not starting at row 0), match_size + 1',
                'forward_ext == backward_ext of the swapped interval with the complemented symbol, swapped back', 'init_interval_with, BiInterval::{forward, revcomp, swapped}',
                'dna::complement on all 256 bytes (complete Kani proof over the real table): the contract of the complement stub'],
    'undecided': ['that the FMIndex handed to FMDIndex counts the BWT of a SORTED suffix array of a text of the documented form: this is the hypothesis fmd_of of every postcondition (C04 proves the real Occ/Less/bwt tables count; SA-IS sortedness, C03, is not proved; FMDIndex::from only checks the alphabet)',
                  'init_interval, From<FMIndex> (alphabet check)', 'patterns with symbols outside ACGTNacgtn (precondition dna_word), l == 0', 'indexes whose Occ / Less tables do not cover all of $ACGTNacgtn (precondition covers(): true for tables built with dna::n_alphabet() as FMDIndex::from documents; with a smaller alphabet, e.g. upper case only, backward_ext would index the Occ table out of bounds - FMDIndex::from checks the BWT symbols, not the table sizes)'],
    'trusted': ['FM index stub whose occ / less contracts are the ones PROVED of the real FMIndex in unit C05/fmindex, restated (occ(r, a) = number of a in bwt[0..=r] given an Occ table for a; less(a) = number of BWT symbols below a given a Less entry for a) - so the hypothesis fmd_of reduces to "the index was built over the BWT of (t, pos)" (lemma_fmd_of_bwt) and the counting laws wf() are derived (lemma_wf_of)', 'dna::complement stub - contract discharged by the Kani harness above',
                'std: slice::reverse (assume_specification: elements in reverse order), derived Copy/Clone of BiInterval (field-wise), Vec::append / mem::swap / Vec::clear as specified by vstd', 'pattern.len() < 2^47 (precondition; slices are below isize::MAX anyway)'],
    'level_text': 'Verus proves, on the real smems / all_smems / backward_ext / forward_ext / init_interval_with, the property as stated: smems returns exactly the supermaximal exact matches covering i of length >= l with exact forward and reverse-complement intervals, all_smems every supermaximal match at least once and nothing else, extension steps yield exact bi-intervals - for every reverse-complement-closed DNA text, every sorted suffix array of it and every index counting its BWT (hypothesis fmd_of); the mathematics (LF mapping, bi-interval theorem, closure of s$revcomp(s)$ texts) is machine-checked in the same unit without axioms; complement table by a complete Kani proof.',
    'level_note': 'Level other: unbounded proof of every clause GIVEN that the index counts the BWT of a sorted suffix array (SA-IS sortedness is C03 and not proved). Trusted: FM index stub under hypothesis fmd_of, slice::reverse spec, derived Copy, Verus/Z3, Kani/CBMC.',
}

PROPS['C01'] = {
    'level': 'other',
    'units': ['C01/pairwise'],
    'kani': [],
    'oracle': 'C01',
    'decided': ['global / semiglobal / local: the temporary override of the four clip penalties is undone (the aligner scoring after the call equals the one before: part of "the result does not depend on earlier use"), and the result mode is set',
                'TracebackCell: set_*_bits changes exactly the addressed 4-bit layer (value <= TB_MAX) and get_*_bits reads it back; set_all; new() is START in all layers',
                'Traceback: init resets every cell of the (m+1)x(n+1) matrix to START (nothing of an earlier alignment survives), resize/set/get index arithmetic in bounds (row-major), no overflow',
                'constructors (MatchParams::new/score, Scoring::{from_scores, new, xclip, xclip_prefix, xclip_suffix, yclip, yclip_prefix, yclip_suffix}, Aligner::{new, with_capacity, with_scoring, with_capacity_and_scoring}): each builder changes exactly the named clip penalties and keeps every other field; a fresh scoring has all clips at MIN_SCORE; a fresh aligner carries exactly the given scoring and empty DP columns / traceback (no state from elsewhere); the documented panics (positive penalties) are preconditions; capacity arithmetic in range (rule R52 for `mut self` receivers)'],
    'undecided': ['optimality of the score, validity of the returned path, score recomputation: the 340-line three-layer DP `custom` is NOT under contract (its frame "leaves the scoring unchanged" is ASSUMED by the wrapper proofs)',
                  ],
    'trusted': ['ASSUMED: custom() does not modify self.scoring (external_body stub)', 'bio_types Alignment stub', 'derived Default/Clone of TracebackCell'],
    'level_text': 'Verus proves the helper layer of the pairwise aligner (packed traceback cells, traceback matrix, clip-penalty restoration of the three mode wrappers); the dynamic program itself - and hence optimality and path validity - is not decided by this check.',
    'level_note': 'Level other (partial): helper layer only. Trusted/assumed: frame of custom(), bio_types stub, Verus/Z3.',
}

PROPS['C02'] = {
    'level': 'other',
    'units': ['C02/band', 'C02/sparse', 'C19/lcskpp', 'C19/sdpkpp', 'C19/kmers', 'C01/pairwise'],
    'kani': [],
    'oracle': 'C02',
    'decided': ['Band::new (empty band of the right shape), add_entry (the band grows, stays inside the matrix, and contains every cell within distance w of the position), add_gap (index-safe, grows; u64 interpolation cannot overflow for any u32 corners - defect D8 fixed), add_kmer (index-safe for every k-mer inside the matrix, grows, stays inside the matrix, contains the k diagonal cells of the k-mer), set_boundaries (index-, underflow- and overflow-safe in all start/end branches; grows), full_matrix (covers every cell), num_cells (exactly the number of banded cells, no overflow below 2^31 rows/cols)',
                'Band::create_from_match_path: for every k-mer backbone (`chain`: valid indices, k-mers inside the matrix, each continuing its predecessor or starting no earlier than its last cell) the band has the shape (|x|+1) x (|y|+1), stays inside the matrix and contains all k diagonal cells of every k-mer on the path; without matches it is the full matrix',
                'Band::create_with_matches: same, taking the backbone from sparse::sdpkpp (contract proved in unit C19/sdpkpp and restated on a stub: sorted matches, non-negative match score, non-positive gap penalties, u32 score arithmetic); (u32,u32)::continues',
                'sparse::sdpkpp_union_lcskpp_path: the union of the LCSk++ chain and the SDP chain is again a backbone (so the band builder precondition holds for the union entry point), given the contracts of lcskpp and sdpkpp proved in units C19/lcskpp and C19/sdpkpp',
                'sparse::lcskpp and sparse::sdpkpp (units shared with C19): the returned path is a non-empty chain of valid indices in which every k-mer continues its predecessor or starts at or after its end in both coordinates; the traceback terminates; no index or u32 overflow failure under the stated bounds',
                'Traceback::{with_capacity, resize, init, set, get} and TracebackCell (unit shared with C01): after init every cell is start-marked, independent of the previous alignment (reuse history)'],
    'decided_extra': ['the k-mer backbone computed internally or from a prehashed sequence (unit C19/kmers shared): find_kmer_matches* return exactly the sorted set of equal k-mer position pairs; lcskpp (unit C19/lcskpp shared) returns a chain of maximum LCSk++ score'],
    'undecided': ['soundness/exactness of the banded DP (compute_alignment), its MAX_CELLS guard, termination of the post-traceback completion, the Aligner::custom_with_* / global / semiglobal / local wrappers',
                  'expand_kmer_matches (mismatch expansion), optimality of the gap-penalised sdpkpp chain'],
    'trusted': ['cmp::{min,max}, Ord::cmp std specs', 'derived Clone of Range (field-wise)', '[T]::binary_search (weak: Ok(i) only at an equal element) and Result::unwrap_or std specs', 'lcskpp / sdpkpp stubs in C02/band and C02/sparse restate the contracts proved in C19/lcskpp and C19/sdpkpp', 'as C01 for the shared unit'],
    'level_text': 'Verus proves the band geometry layer of the banded aligner (shape, growth, coverage of the whole k-mer backbone, index and overflow safety of all band builders, exact cell count), the union-path builder and the traceback matrix reset; the banded dynamic program itself is not decided by contracts (bounded stand-in only).',
    'level_note': 'Level other (partial): band construction + traceback reset. Trusted: std specs listed in evidence.',
}

PROPS['C03'] = {
    'level': 'other',
    'units': ['C03/lcp', 'C03/suffix', 'C04/invert', 'C05/sampled', 'C18/smallints', 'C04/less', 'C04/occ'],
    'kani': [],
    'oracle': 'C03',
    'decided': ['lcp() (Kasai): GIVEN a sorted suffix array of a single-sentinel text of length >= 2, the LCP array holds -1 at both ends and the TRUE longest-common-prefix length of every pair of adjacent suffixes (suffix-order theory: lcp characterisation, antisymmetry, transitivity, sandwich lemma, Kasai lemma - all proved; termination of the scan proved)',
                'shortest_unique_substrings (the real generic function, any SuffixArray implementor characterised by its view): GIVEN a sorted suffix array and its LCP array, entry p is Some(l) exactly for the shortest substring starting at p that occurs nowhere else in the text (l = 1 + max of the two adjacent LCP values, by the two sandwich lemmas), and None exactly when no substring starting at p is unique; no cast or arithmetic failure for texts of at least two symbols',
                'SampledSuffixArray::{get, len} (units C05/sampled - texts with one or several sentinels - and C04/invert - single sentinel; components instantiated at references): for EVERY text and suffix array (sorted in the order of the transformed text) the sampled structure represents (every s-th row sampled, rows whose BWT symbol is a sentinel cached), get(i) == Some(pos[i]) for i < n and None otherwise; the LF walk terminates (the text position strictly decreases) - by the machine-checked LF-mapping theorem',
                'the LCP-array container SmallInts<i8, isize> behaves as a plain Vec<isize> for every value incl. exactly 127, larger and negative (unit shared with C18)',
                'bwt/less/Occ (used by the sampled suffix array walk, every Occ sampling rate) are exact (units shared with C04)'],
    'decided_extra': ['suffix_array() around SA-IS (unit C03/suffix, real code): sentinel / sentinel_count (the assert! on the sentinel being the smallest symbol, the fold counting sentinels - rules R40, R41), transform_text generic over the integer type (sentinels count down to 0, every other symbol is its alphabet rank shifted above them; every cast succeeds because alphabet size + sentinel count fits the chosen type) and the u8/u16/u32/u64 dispatch of suffix_array (R42, R43): GIVEN the assumed contract of the stub Sais::construct (on a dense integer text ending in a unique minimum, pos becomes the sorted permutation of the suffixes) the result is a permutation of all positions sorted in the order of the coding tr(t) - every sentinel below all other symbols, the final sentinel smallest, sentinel occurrences ordered by one fixed total order (a later sentinel is smaller)',
                      'the integer text handed to SA-IS meets the documented input requirement of SA-IS (dense alphabet 0..=max, last symbol the unique minimum: lemma_tt_input_ok) and is order-isomorphic to tr(t) (lemma_tt_iso); order-isomorphic integer texts have the same sorted suffix arrays (lemma_iso_sorted) - so the hypothesis "sorted in the order of tr(t)" of the C03/C05/C06 theorems is exactly the assumed contract of Sais::construct'],
    'undecided': ['SA-IS construction (Sais::{construct, calc_lms_pos, sort_lms_suffixes, calc_pos}): that the array IS sorted - induced sorting correctness is out of reach of the contracts built here (the lcp proof takes sortedness as a precondition)',
                  'suffix_array_int, Sais::new, PosTypes (not under contract)'],
    'trusted': ['ASSUMED (unit C03/suffix): the contract of Sais::construct - on a dense integer text ending in a unique minimum, pos becomes the sorted permutation of all suffix positions (SA-IS itself is not verified); Sais::new stub', 'unit C03/suffix stubs: Alphabet::new/len (the set of bytes of the text in ascending order), RankTransform::new (contract proved in C19/qgrams, restated), num_traits::cast (succeeds iff the value fits), the spec trait IntSym standing for the numeric trait bundle of the integer types u8/u16/u32/u64', 'SmallInts stub inside C03/lcp carries exactly the from_elem/set/get contracts proved in C18/smallints', 'SuffixArray trait reduced to get/len with the obvious view contract (RawSuffixArray = Vec<usize> implements it by slice access: not verified here)', 'cmp::min std spec', 'as C18 / C04 for the shared units'],
    'level_text': 'Verus proves the LCP computation (Kasai) and the shortest-unique-substring table correct for every sorted suffix array of a single-sentinel text, plus the containers and tables the module builds on; that SA-IS produces the sorted array is NOT decided by contracts (bounded stand-in only).',
    'level_note': 'Level other (partial): LCP and shortest unique substrings given sortedness, containers, tables. Suffix sorting itself undecided.',
}

NOT_APPLICABLE = {
    'C10': 'Myers traceback lives in impl_myers! macro bodies and generic handler traits over iterator adapter chains (rev().chain(cycle())): outside Verus extraction (macros, adapters) and outside Kani\'s tractable loop-free fragment; no contract within reach decides any clause (DESIGN.md §4 C10).',
    'C11': 'FASTA/FASTQ parsing is String-based (read_line, trim_end, splitn(char::is_whitespace), write!): Verus has no str byte reasoning or specs for these, Kani explodes on String/UTF-8/fmt (DESIGN.md §4 C11).',
    'C13': 'BED/GFF behaviour lives in csv + serde derive + regex + multimap (external crates and macros); contracts would be assumptions only (DESIGN.md §4 C13).',
    'C14': 'HMM algorithms are f64 log-space arithmetic over ndarray with closures; Verus leaves float operations uninterpreted and CBMC cannot model ln_1p/exp or ndarray tractably (DESIGN.md §4 C14).',
    'C15': 'Log-space accuracy bounds are real analysis over fastexp/ln_1p compositions; not decidable with uninterpreted floats (DESIGN.md §4 C15).',
    'C16': 'Partial-order alignment state is a petgraph::Graph driven through external Topo/neighbors/edges APIs mixed with closures; every clause would rest on assumed graph-library contracts (DESIGN.md §4 C16).',
}
for _p in ['C01', 'C02', 'C03', 'C04', 'C05', 'C06', 'C07', 'C08', 'C09', 'C12', 'C17', 'C19', 'C20']:
    NOT_APPLICABLE.setdefault(_p, 'check under construction in this build phase (contracts designed in DESIGN.md §4, not yet registered)')

for _p in PROPS.values():
    if 'decided_extra' in _p:
        _p['decided'] = list(_p['decided']) + list(_p.pop('decided_extra'))

"""Property table: which units / harnesses / oracle decide each property, and what is left undecided."""

PROPS = {
    'C18': {
        'level': 'proof',
        'units': ['C18/bitenc', 'C18/fenwick', 'C18/smallints'],
        'kani': [],
        'oracle': 'C18',
        'decided': ['BitEnc (every width 1..=8, all operations) equals a Vec<u8> of masked values'],
        'undecided': [],
        'trusted': [],
        'level_text': 'Verus proves, for every width, fill state and operation history, that BitEnc equals a plain vector of masked values (data-structure invariant + whole-view postconditions on every public operation).',
        'level_note': 'Trusted: Verus/Z3, rustc semantics as encoded by Verus, vstd Vec specs, usize = 64 bit, the weave tool; see evidence assumptions.',
    },
}

PROPS['C08'] = {
    'level': 'proof',
    'units': ['C08/shift_and', 'C08/kmp', 'C08/horspool', 'C08/bndm'],
    'kani': [],
    'oracle': 'C08',
    'decided': ['ShiftAnd, KMP, Horspool, BNDM: every call of Matches::next returns the next occurrence at or after the frontier, skips none, and None only when no occurrence remains (hence increasing, duplicate-free, complete), for every pattern 1..=64 (bit-parallel) / any length and every text',
                'mask/shift/lps tables built by masks, Horspool::new, lps equal their definitions'],
    'undecided': ['BOM (factor-oracle completeness theorem out of reach; no contract decides it)',
                  'constructors/find_all wrappers of ShiftAnd, KMP, BNDM (struct literal plumbing) are not yet under contract'],
    'trusted': ['Enumerate<slice::Iter<u8>>::next model (assume_specification)', 'iterator parameters instantiated at byte slices (rules R6*, INST)'],
    'level_text': 'Verus proves the iterator contract (next occurrence, none skipped, termination) on the real next() of four of the five matchers and the table-construction functions, for all patterns and texts; BOM is not decided.',
    'level_note': 'Trusted: Verus/Z3, Enumerate::next model, instantiation of the generic iterator parameters at &[u8]; BOM undecided; see evidence assumptions.',
}

NOT_APPLICABLE = {
    'C10': 'Myers traceback lives in impl_myers! macro bodies and generic handler traits over iterator adapter chains (rev().chain(cycle())): outside Verus extraction (macros, adapters) and outside Kani\'s tractable loop-free fragment; no contract within reach decides any clause (DESIGN.md §4 C10).',
    'C11': 'FASTA/FASTQ parsing is String-based (read_line, trim_end, splitn(char::is_whitespace), write!): Verus has no str byte reasoning or specs for these, Kani explodes on String/UTF-8/fmt (DESIGN.md §4 C11).',
    'C13': 'BED/GFF behaviour lives in csv + serde derive + regex + multimap (external crates and macros); contracts would be assumptions only (DESIGN.md §4 C13).',
    'C14': 'HMM algorithms are f64 log-space arithmetic over ndarray with closures; Verus leaves float operations uninterpreted and CBMC cannot model ln_1p/exp or ndarray tractably (DESIGN.md §4 C14).',
    'C15': 'Log-space accuracy bounds are real analysis over fastexp/ln_1p compositions; not decidable with uninterpreted floats (DESIGN.md §4 C15).',
    'C16': 'Partial-order alignment state is a petgraph::Graph driven through external Topo/neighbors/edges APIs mixed with closures; every clause would rest on assumed graph-library contracts (DESIGN.md §4 C16).',
}
for _p in ['C01', 'C02', 'C03', 'C04', 'C05', 'C06', 'C07', 'C08', 'C09', 'C12', 'C17', 'C19', 'C20']:
    NOT_APPLICABLE.setdefault(_p, 'check under construction in this build phase (contracts designed in DESIGN.md §4, not yet registered)')

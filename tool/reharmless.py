#!/usr/bin/env python3
"""Re-run every kept behaviour-preserving refactoring (harmless/<P>-<i>/patch.diff) against the current checks.
  reharmless.py [names...]        apply each patch to $VERIF_REPO (default /repo), run ./check <prop>, revert; prints RESULT lines
  reharmless.py --import <log>    write the verdicts of a finished (background) run into harmless/*/verdict.txt
Run it in the background on a snapshot:  vp run --with-repo -- sh -c 'VERIF_REPO=$VP_RUN_REPO python3 tool/reharmless.py'"""
import sys, os, subprocess, json, glob, time, re
ROOT = os.path.dirname(os.path.dirname(os.path.abspath(__file__)))
REPO = os.environ.get('VERIF_REPO', '/repo')
def sh(cmd, cwd=None, timeout=7200):
    p = subprocess.run(cmd, shell=True, cwd=cwd, capture_output=True, text=True, timeout=timeout, env=dict(os.environ, CARGO_NET_OFFLINE='true'))
    return p.returncode, p.stdout + p.stderr
def run(names):
    rc, out = sh('git -C %s status --porcelain --untracked-files=no' % REPO)
    if out.strip():
        print('repo not clean:', REPO); return 2
    for d in sorted(glob.glob(os.path.join(ROOT, 'harmless', '*'))):
        name = os.path.basename(d)
        if names and name not in names:
            continue
        prop = name.split('-')[0]
        rc, out = sh('git -C %s apply %s' % (REPO, os.path.join(d, 'patch.diff')))
        if rc != 0:
            print('RESULT %s PATCH-DOES-NOT-APPLY' % name); continue
        try:
            t0 = time.time()
            rcc, outc = sh('./check %s --no-evidence' % prop, cwd=ROOT)
        finally:
            sh('git -C %s checkout -- .' % REPO)
        verdict = {0: 'OK', 1: 'VIOLATION', 2: 'UNDECIDED'}.get(rcc, 'EXIT%s' % rcc)
        lines = [l[:300] for l in outc.split('\n') if re.match(r'^(OK|VIOLATION|UNDECIDED|FAILED-OBLIGATION|BUILD)', l)]
        print('RESULT %s %s %.0fs' % (name, verdict, time.time() - t0))
        print('LINES %s %s' % (name, json.dumps(lines[-8:] + ['exit=%s' % rcc])))
        sys.stdout.flush()
    return 0
def imp(log):
    txt = open(log).read()
    n = 0
    for m in re.finditer(r'^LINES (\S+) (.*)$', txt, re.M):
        name, js = m.groups()
        d = os.path.join(ROOT, 'harmless', name)
        if os.path.isdir(d):
            open(os.path.join(d, 'verdict.txt'), 'w').write('\n'.join(json.loads(js)) + '\n'); n += 1
    print('imported %d verdicts' % n)
    return 0
if __name__ == '__main__':
    if len(sys.argv) > 2 and sys.argv[1] == '--import':
        sys.exit(imp(sys.argv[2]))
    sys.exit(run(sys.argv[1:]))

#!/usr/bin/env python3
"""Re-run every kept seeded change against the current checks.
  reseed.py [names...]          apply each seeded/<name>/patch.diff to $VERIF_REPO (default /repo), run ./check <prop>, revert
  reseed.py --import <logfile>  copy the verdicts of a finished (background) run into seeded/*/meta.json
Run it in the background on a snapshot:  vp run --with-repo -- sh -c 'VERIF_REPO=$VP_RUN_REPO python3 tool/reseed.py'"""
import sys, os, subprocess, json, glob, time, re
ROOT = os.path.dirname(os.path.dirname(os.path.abspath(__file__)))
REPO = os.environ.get('VERIF_REPO', '/repo')
def sh(cmd, cwd=None, timeout=7200):
    p = subprocess.run(cmd, shell=True, cwd=cwd, capture_output=True, text=True, timeout=timeout, env=dict(os.environ, CARGO_NET_OFFLINE='true'))
    return p.returncode, p.stdout + p.stderr
def run(names):
    rc, out = sh('git -C %s status --porcelain --untracked-files=no' % REPO)
    if out.strip():
        print('repo not clean:', REPO); return 2
    for d in sorted(glob.glob(os.path.join(ROOT, 'seeded', '*'))):
        name = os.path.basename(d)
        if names and name not in names:
            continue
        prop = json.load(open(os.path.join(d, 'meta.json')))['property']
        rc, out = sh('git -C %s apply %s' % (REPO, os.path.join(d, 'patch.diff')))
        if rc != 0:
            print('RESULT %s PATCH-DOES-NOT-APPLY' % name); continue
        try:
            t0 = time.time()
            rcc, outc = sh('./check %s --no-evidence' % prop, cwd=ROOT)
        finally:
            sh('git -C %s checkout -- .' % REPO)
        verdict = {0: 'MISSED', 1: 'CAUGHT', 2: 'UNDECIDED'}.get(rcc, 'EXIT%s' % rcc)
        tail = [l[:500] for l in outc.strip().split('\n')[-7:]]
        print('RESULT %s %s %.0fs' % (name, verdict, time.time() - t0))
        print('TAIL %s %s' % (name, json.dumps(tail)))
        sys.stdout.flush()
    return 0
def imp(log):
    txt = open(log).read()
    n = 0
    for m in re.finditer(r'^RESULT (\S+) (\S+) (\d+)s$', txt, re.M):
        name, verdict, secs = m.groups()
        mp = os.path.join(ROOT, 'seeded', name, 'meta.json')
        if not os.path.exists(mp):
            continue
        meta = json.load(open(mp))
        full = {'MISSED': 'MISSED (exit 0)', 'CAUGHT': 'CAUGHT (VIOLATION)', 'UNDECIDED': 'UNDECIDED (exit 2)'}.get(verdict, verdict)
        meta['check_verdict'] = full
        meta['check_wall_s'] = int(secs)
        t = re.search(r'^TAIL %s (.*)$' % re.escape(name), txt, re.M)
        if t:
            meta['check_output_tail'] = json.loads(t.group(1))
        json.dump(meta, open(mp, 'w'), indent=1)
        n += 1
    print('imported %d verdicts' % n)
if __name__ == '__main__':
    if len(sys.argv) > 2 and sys.argv[1] == '--import':
        imp(sys.argv[2])
    else:
        sys.exit(run(sys.argv[1:]))

"""Mechanical rewrite rules (DESIGN.md §3.3).  Each generator maps the original code text (one statement head,
possibly a closing brace) to the replacement text the verifier sees.  A rewrite in a mirror whose rule has a generator
here is machine-checked on every run (replacement == generator(original), token-wise); rules without generator are
reported as hand rewrites (`machine_checked: false`).

Generators work on the single-space-joined token text.
"""
import re
from lex import lex, texts


class NoMatch(Exception):
    pass


def norm(text):
    return ' '.join(texts(lex(text)[0]))


def _m(pat, s):
    m = re.fullmatch(pat, s)
    if not m:
        raise NoMatch('pattern %r vs %r' % (pat, s))
    return m


ID = r'[A-Za-z_][A-Za-z0-9_]*'


def r1(orig, rule):
    # for (I, &X) in E.iter().enumerate() {   ->  for I in 0..E.len() { let X = E[I];
    s = norm(orig)
    m = _m(r'for \( (%s) , & (%s|\( %s(?: , %s)* \)) \) in (.+?) \. iter \( \) \. enumerate \( \) \{' % (ID, ID, ID, ID), s)
    i, x, e = m.groups()
    return 'for %s in 0..%s.len() { let %s = %s[%s];' % (i, e, x, e, i)


def r2(orig, rule):
    # for &X in E.iter() {  |  for &X in E {     ->  for X in E.iter() { let X = *X;
    s = norm(orig)
    m = re.fullmatch(r'for & (%s) in (.+?) \. iter \( \) \{' % ID, s)
    if m:
        x, e = m.groups()
        return 'for %s in %s.iter() { let %s = *%s;' % (x, e, x, x)
    m = _m(r'for & (%s) in (.+?) \{' % ID, s)
    x, e = m.groups()
    if e.startswith('& '):
        e = e[2:]
    return 'for %s in %s.iter() { let %s = *%s;' % (x, e, x, x)


def r3(orig, rule):
    # repeat(V).take(N).collect()  ->  vec![V; N]      (anywhere in a statement)
    s = norm(orig)
    m = re.search(r'(?:(?:std :: )?iter :: )?repeat \( (.+?) \) \. take \( (.+?) \) \. collect \( \)', s)
    if not m:
        raise NoMatch('no repeat().take().collect() in %r' % s)
    return s[:m.start()] + 'vec![%s; %s]' % (m.group(1), m.group(2)) + s[m.end():]


def r4(orig, rule):
    # if let Some(&X) = E {  ->  if let Some(X) = E { let X = *X;
    s = norm(orig)
    m = _m(r'if let Some \( & (%s) \) = (.+?) \{' % ID, s)
    x, e = m.groups()
    return 'if let Some(%s) = %s { let %s = *%s;' % (x, e, x, x)


def r9(orig, rule):
    # for PAT in E.by_ref() {   ->  loop { match E.next() { Some(PAT) => {
    #   for PAT in &mut E {       ->  same (IntoIterator for &mut I is the identity, like by_ref)
    s = norm(orig)
    m = re.fullmatch(r'for (.+?) in (.+?) \. by_ref \( \) \{', s) or _m(r'for (.+?) in & mut (.+?) \{', s)
    pat, e = m.groups()
    return 'loop { match %s.next() { Some(%s) => {' % (e, pat)


def r9t(orig, rule):
    _m(r'\}', norm(orig))
    return '} None => { break; } } }'


def r10(orig, rule):
    # for X in (A..B).step_by(S).take(N) {
    s = norm(orig)
    m = _m(r'for (%s) in \( (.+?) \.\. (.+?) \) \. step_by \( (.+?) \) \. take \( (.+?) \) \{' % ID, s)
    x, a, b, st, n = m.groups()
    return ('let mut %s = %s; let __b = %s; let __s = %s; let __n = %s; let mut __k: usize = 0; assert(__s != 0); '
            'while __k < __n && %s < __b {' % (x, a, b, st, n, x))


def r10t(orig, rule):
    _m(r'\}', norm(orig))
    x = rule.split()[1]
    return '%s += __s; __k += 1; }' % x


def r11(orig, rule):
    s = norm(orig)
    m = _m(r'for _ in (.+?) \{', s)
    return 'for __u in %s {' % m.group(1)


def r14(orig, rule):
    # byte-string literals b"XYZ" -> &[b'X', b'Y', b'Z']   (all literals in the statement)
    toks = lex(orig)[0]
    out = []
    hit = False
    for (k, t, w, _p) in toks:
        if k == 'str' and t.startswith('b"'):
            body = t[2:-1]
            if '\\' in body:
                raise NoMatch('escape in byte string')
            out.append('&[' + ', '.join("b'%s'" % c for c in body) + ']')
            hit = True
        else:
            out.append(t)
    if not hit:
        raise NoMatch('no byte string literal')
    return ' '.join(out)


def r17(orig, rule):
    # &mut V[..]  ->  V.as_mut_slice()
    s = norm(orig)
    m = re.search(r'& mut (%s(?: \. %s)*) \[ \.\. \]' % (ID, ID), s)
    if not m:
        raise NoMatch('no &mut V[..]')
    return s[:m.start()] + m.group(1).replace(' ', '') + '.as_mut_slice()' + s[m.end():]


def r15(orig, rule):
    # for (I, X) in E.enumerate() {  ->  let mut __it = E; let mut I: usize = 0; loop { match __it.next() { Some(X) => {
    s = norm(orig)
    m = _m(r'for \( (%s) , (.+?) \) in (.+?) \. enumerate \( \) \{' % ID, s)
    i, x, e = m.groups()
    return 'let mut __it = %s; let mut %s: usize = 0; loop { match __it.next() { Some(%s) => {' % (e, i, x)


def r15t(orig, rule):
    _m(r'\}', norm(orig))
    i = rule.split()[1]
    return '%s += 1; } None => { break; } } }' % i


def r12(orig, rule):
    # X.map_or(D, |p| EXPR)  ->  match X { Some(p) => EXPR, None => D }     (first occurrence in the statement; X a path/field/call chain)
    s = norm(orig)
    m = re.search(r'((?:%s|self)(?: \. %s(?: \( \))?)*) \. map_or \( (.+?) , \| (%s) \| (.+?) \)(?= ;| ,| \)|$| \+| -)' % (ID, ID, ID), s)
    if not m:
        raise NoMatch('no map_or')
    x, d, p, e = m.groups()
    return s[:m.start()] + '(match %s { Some(%s) => %s, None => %s })' % (x, p, e, d) + s[m.end():]


def rb(orig, rule):
    # struct/enum header: drop the trait bounds of the generic parameters (the bound traits are not available to the verifier)
    toks = texts(lex(orig)[0])
    out = []
    depth = 0
    skipping = False
    for t in toks:
        if t == '<':
            depth += 1
            if skipping:
                continue
        elif t == '>':
            depth -= 1
            if skipping and depth >= 1:
                continue
            if depth == 0:
                skipping = False
        elif t == '>>':
            depth -= 2
            if depth <= 0:
                skipping = False
                out.append('>')
                continue
        if depth == 1 and t == ':':
            skipping = True
            continue
        if depth == 1 and t == ',':
            skipping = False
        if skipping:
            continue
        out.append(t)
    if 'where' in out:
        w = out.index('where')
        end = out.index('{', w) if '{' in out[w:] else len(out)
        out = out[:w] + out[end:]
    if out == toks:
        raise NoMatch('no bounds to drop')
    return ' '.join(out)


def r6sig(orig, rule):
    # fn NAME<C, P>(pattern: P, ...) -> RET where C: Borrow<u8>, P: IntoIterator<Item = C> [, extra bounds]
    #   -> fn NAME(pattern: &[u8], ...) -> RET          (iterator parameter instantiated at a byte slice)
    s = norm(orig)
    m = _m(r'(.*?fn %s) < (%s) , (%s) > \( (.*) \) (-> .+? )?where (.+?) ,?' % (ID, ID, ID), s)
    head, c, p, args, ret, where = m.groups()
    if not re.search(r'%s : Borrow < u8 >' % c, where) or not re.search(r'%s : (IntoIterator|Iterator) < Item = %s >' % (p, c), where):
        raise NoMatch('where clause is not the byte-iterator pattern')
    args2 = re.sub(r'\b%s\b' % p, '&[u8]', args)
    if args2 == args:
        raise NoMatch('parameter type not found')
    return '%s(%s) %s' % (head, args2, ret or '')


def r6for(orig, rule):
    # for X in E {  ->  for X in E.iter() {        (E: &[u8])
    s = norm(orig)
    m = _m(r'for (%s) in (%s) \{' % (ID, ID), s)
    return 'for %s in %s.iter() {' % m.groups()


def r6b(orig, rule):
    # *c.borrow() -> *c     (Borrow<u8> for &u8 / u8 is the identity)
    s = norm(orig)
    out, n = re.subn(r'\* (%s) \. borrow \( \)' % ID, r'* \1', s)
    if n == 0:
        raise NoMatch('no *x.borrow()')
    return out


def r8(orig, rule):
    # for V in A.iter_mut() { BODY }   ->   for __i in 0..A.len() { BODY[*V := A[__i]] }
    s = norm(orig)
    m = _m(r'for (%s) in (%s) \. iter_mut \( \) \{ (.*) \}' % (ID, ID), s)
    v, a, body = m.groups()
    body2 = re.sub(r'\* %s\b' % v, '%s [ __i ]' % a, body)
    if re.search(r'\b%s\b' % v, body2):
        raise NoMatch('loop variable used other than through *%s' % v)
    return 'let __n = %s.len(); for __i in 0..__n { %s }' % (a, body2)


def r18(orig, rule):
    # assert_eq!(A, B);  ->  assert!(A == B);     (same panic condition; Verus has no spec for assert_failed's formatting machinery)
    s = norm(orig)
    m = _m(r'assert_eq ! \( (.+?) , (.+?) \) ;', s)
    return 'assert!(%s == %s);' % m.groups()


def r5(orig, rule):
    # for &A in P.rev() {   (P a byte slice after R5sig)  ->  descending index loop
    s = norm(orig)
    m = _m(r'for & (%s) in (%s) \. rev \( \) \{' % (ID, ID), s)
    a, p_ = m.groups()
    return 'let mut __i = %s.len(); while __i > 0 { __i -= 1; let %s = %s[__i];' % (p_, a, p_)


def r5sig(orig, rule):
    # fn NAME<'b, P: Iterator<Item = &'b u8> + DoubleEndedIterator>(&self, pattern: P,) -> RET {   ->   fn NAME(&self, pattern: &[u8],) -> RET {
    s = norm(orig)
    m = _m(r"(.*?fn %s) < 'b , (%s) : Iterator < Item = & 'b u8 > \+ DoubleEndedIterator > \( (.*) \) (-> .+? )?\{" % (ID, ID), s)
    head, p_, args, ret = m.groups()
    args2 = re.sub(r'\b%s\b' % p_, '&[u8]', args)
    return '%s(%s) %s{' % (head, args2, ret or '')


def r16(orig, rule):
    # implicit &mut Box<T> -> &mut T deref coercion at a call argument made explicit:  f(X);  ->  let __r: &mut T = &mut **X; f(__r);
    s = norm(orig)
    parts = rule.split(None, 2)
    x, ty = parts[1], parts[2]
    m = _m(r'(.+?) \( %s \) ;' % re.escape(x), s)
    return 'let __r: &mut %s = &mut **%s; %s(__r);' % (ty, x, m.group(1))


def r19(orig, rule):
    # X -= E;  ->  let __k = E; X -= __k;     (names the intermediate so that a proof block can sit between the call and the update;
    #                                           for a primitive left operand the right operand is evaluated first in both forms)
    s = norm(orig)
    m = _m(r'(%s(?: \. %s)*) (-=|\+=) (.+) ;' % (ID, ID), s)
    x, op, e = m.groups()
    return 'let __k = %s; %s %s __k;' % (e, x, op)


def r13(orig, rule):
    # float one-liners Verus cannot type:  (X as f64 / 8.0).ceil() as usize  ->  ceil_div8(X)        (trusted stub, spec (X+7)/8 for X < 2^53)
    #                                      (X as f32).log2().ceil() as u32|usize -> ceil_log2(X) [as usize]
    s = norm(orig)
    m = re.search(r'\( (.+?) as f64 / 8\.0 \) \. ceil \( \) as usize', s)
    if m:
        return s[:m.start()] + 'ceil_div8(%s)' % m.group(1) + s[m.end():]
    m = re.search(r'\( (.+?) as f32 \) \. log2 \( \) \. ceil \( \) as (u32|usize)', s)
    if m:
        return s[:m.start()] + 'ceil_log2(%s) as %s' % (m.group(1), m.group(2)) + s[m.end():]
    raise NoMatch('no float one-liner')


def r9f(orig, rule):
    # for X in E {   (E any iterator expression; definition of `for`)  ->  let mut __it = E; loop { match __it.next() { Some(X) => {
    s = norm(orig)
    m = _m(r'for (.+?) in (.+) \{', s)
    pat, e = m.groups()
    return 'let mut __it = %s; loop { match __it.next() { Some(%s) => {' % (e, pat)


def r17b(orig, rule):
    # f(&mut V, ...)  with V: Vec<T> coerced to &mut [T]  ->  f(V.as_mut_slice(), ...)
    s = norm(orig)
    m = re.search(r'& mut (%s)(?= ,| \))' % ID, s)
    if not m:
        raise NoMatch('no &mut V argument')
    return s[:m.start()] + m.group(1) + '.as_mut_slice()' + s[m.end():]


def r21(orig, rule):
    # tail expression E of a function body  ->  let NAME = E; NAME        (names the result so that a proof block can follow its construction)
    name = rule.split()[1]
    return 'let %s = %s; %s' % (name, norm(orig), name)


def r12m(orig, rule):
    # X.map(|p| EXPR)  on an Option (tail expression)  ->  (match X { Some(p) => Some(EXPR), None => None })
    s = norm(orig)
    m = _m(r'(.+?) \. map \( \| (%s) \| (.+) \)' % ID, s)
    x, p_, e = m.groups()
    return '(match %s { Some(%s) => Some(%s), None => None })' % (x, p_, e)


def r4m(orig, rule):
    # match arm  Some((I, &X)) => EXPR,   ->   Some((I, X)) => { let X = *X; EXPR }        (reference pattern on a Copy element)
    s = norm(orig)
    m = _m(r'Some \( \( (%s) , & (%s) \) \) => (.+) ,' % (ID, ID), s)
    i, x, e = m.groups()
    return 'Some((%s, %s)) => { let %s = *%s; %s }' % (i, x, x, x, e)


def rbw(orig, rule):
    # X.borrow()  ->  X          (Borrow<T> for &T is the identity; components instantiated at references)
    s = norm(orig)
    out, n = re.subn(r' \. borrow \( \)', '', s)
    if n == 0:
        raise NoMatch('no .borrow()')
    return out


def r22(orig, rule):
    # X.extend(repeat(V).take(N));  ->  { let __v = V; let __n = N; for __i in 0..__n { X.push(__v); } }
    #   (V a Copy value: repeat() clones it; Vec::extend pushes the items in order)
    s = norm(orig)
    m = _m(r'(.+?) \. extend \( (?:(?:std :: )?iter :: )?repeat \( (.+?) \) \. take \( (.+?) \) \) ;', s)
    x, v, n = m.groups()
    return '{ let __v = %s; let __n = %s; for __i in 0..__n { %s.push(__v); } }' % (v, n, x)


def r23(orig, rule):
    # X.extend(A..=B);  ->  for __i in __it: A..=B { X.push(__i); }
    s = norm(orig)
    m = _m(r'(.+?) \. extend \( (.+?) \.\.= (.+?) \) ;', s)
    x, a, b = m.groups()
    return 'for __i in __it: %s..=%s { %s.push(__i); }' % (a, b, x)


def r18m(orig, rule):
    # assert_eq!(A, B, "fmt", args...);  ->  assert!(A == B);   (same panic condition; the message is dropped)
    s = norm(orig)
    m = _m(r'assert_eq ! \( ([^,]+?) , ([^,]+?) , (" .*) \) ;', s) if False else None
    toks = texts(lex(orig)[0])
    if toks[:3] != ['assert_eq', '!', '('] or toks[-2:] != [')', ';']:
        raise NoMatch('not an assert_eq!(..);')
    # split top-level arguments
    args, depth, cur = [], 0, []
    for t in toks[3:-2]:
        if t in '([{':
            depth += 1
        elif t in ')]}':
            depth -= 1
        if t == ',' and depth == 0:
            args.append(' '.join(cur)); cur = []
        else:
            cur.append(t)
    if cur:
        args.append(' '.join(cur))
    if len(args) < 3 or not args[2].startswith('"'):
        raise NoMatch('no message argument')
    return 'assert!(%s == %s);' % (args[0], args[1])


def r24(orig, rule):
    # for (A, B) in X.iter().zip(Y) {   (X, Y byte slices)
    #   -> let __n = if X.len() <= Y.len() { X.len() } else { Y.len() }; for __i in 0..__n { let A = &X[__i]; let B = &Y[__i];
    #   (zip stops at the shorter side; items are references)
    s = norm(orig)
    m = _m(r'for \( (%s) , (%s) \) in (%s) \. iter \( \) \. zip \( (%s) \) \{' % (ID, ID, ID, ID), s)
    a, b, x, y = m.groups()
    return ('let __n = if %s.len() <= %s.len() { %s.len() } else { %s.len() }; for __i in 0..__n { let %s = &%s[__i]; let %s = &%s[__i];'
            % (x, y, x, y, a, x, b, y))


def rret(orig, rule):
    # return E;  ->  { let __r = E; return __r; }      (names the returned value so that a proof block can talk about it)
    s = norm(orig)
    m = _m(r'return (.+) ;', s)
    return '{ let __r = %s; return __r; }' % m.group(1)


def r26(orig, rule):
    # for X in &E {  ->  for X in E.iter() {       (E a Vec or slice: IntoIterator for &Vec<T> is the slice iterator)
    s = norm(orig)
    m = _m(r'for (%s) in & (.+?) \{' % ID, s)
    if m.group(2).startswith('mut '):
        raise NoMatch('&mut iteration')
    return 'for %s in %s.iter() {' % m.groups()


def r18a(orig, rule):
    # assert!(COND, "message" [, args]);  ->  assert!(COND);      (same panic condition; the message is dropped)
    toks = texts(lex(orig)[0])
    if toks[:3] != ['assert', '!', '('] or toks[-2:] != [')', ';']:
        raise NoMatch('not an assert!(..);')
    args, depth, cur = [], 0, []
    for t in toks[3:-2]:
        if t in '([{':
            depth += 1
        elif t in ')]}':
            depth -= 1
        if t == ',' and depth == 0:
            args.append(' '.join(cur)); cur = []
        else:
            cur.append(t)
    if cur:
        args.append(' '.join(cur))
    if len(args) < 2 or not args[1].startswith('"'):
        raise NoMatch('no message argument')
    return 'assert!(%s);' % args[0]


def rty(orig, rule):
    # let mut X = LITERAL;  ->  let mut X: T = LITERAL;     (type ascription only: rustc rejects it if the inferred type differs)
    ty = rule.split()[1]
    s = norm(orig)
    ty = rule.split(None, 1)[1]
    m = _m(r'let (mut )?(%s) = (.+) ;' % ID, s)
    return 'let %s%s: %s = %s;' % (m.group(1) or '', m.group(2), ty, m.group(3))


def r29(orig, rule):
    # (A..B).step_by(S).for_each(|X| { BODY });  ->  { let mut X: usize = A; while X < B { BODY X += S; } }
    #   (the closure body runs for X = A, A+S, ... below B; side condition X + S does not overflow - a proof obligation of the loop)
    s = norm(orig)
    m = _m(r'\( (.+?) \.\. (.+?) \) \. step_by \( (.+?) \) \. for_each \( \| (%s) \| \{ (.*) \} \) ;' % ID, s)
    a, b, st, x, body = m.groups()
    return '{ let mut %s: usize = %s; while %s < %s { %s %s += %s; } }' % (x, a, x, b, body, x, st)


def r30(orig, rule):
    # for X in (A..B).step_by(S) {  ->  { let mut X = A; while X < B {        (closed by R30t X S)
    s = norm(orig)
    m = _m(r'for (%s) in \( (.+?) \.\. (.+?) \) \. step_by \( (.+?) \) \{' % ID, s)
    x, a, b, st = m.groups()
    return '{ let mut %s = %s; while %s < %s {' % (x, a, x, b)


def r30t(orig, rule):
    _m(r'\}', norm(orig))
    x, st = rule.split()[1], rule.split()[2]
    return '%s += %s; } }' % (x, st)


def r28(orig, rule):
    # for (I, X) in A.iter().enumerate().take(HI).skip(LO) {  ->  for I in LO..HI { let X = &A[I];
    #   (side condition HI <= A.len(): the indexing A[I] is then in bounds for every I < HI - a proof obligation)
    s = norm(orig)
    m = _m(r'for \( (%s) , (%s) \) in (%s) \. iter \( \) \. enumerate \( \) \. take \( (.+?) \) \. skip \( (.+?) \) \{' % (ID, ID, ID), s)
    i, x, a, hi, lo = m.groups()
    return 'for %s in %s..%s { let %s = &%s[%s];' % (i, lo, hi, x, a, i)


def rpanic(orig, rule):
    # if !COND { panic!(MSG) }  ->  assert!(COND);      (same panic condition; the message is dropped)
    s = norm(orig)
    m = _m(r'if ! (.+?) \{ panic ! \( .* \)(?: ;)? \}', s)
    return 'assert!(%s);' % m.group(1)


def r31(orig, rule):
    # for X in V {   (V an owned Vec of Copy items, consumed by the loop)  ->  for __e in 0..V.len() { let X = V[__e];
    s = norm(orig)
    m = _m(r'for (%s) in (%s) \{' % (ID, ID), s)
    x, v = m.groups()
    return 'for __e in 0..%s.len() { let %s = %s[__e];' % (v, x, v)


def rvec(orig, rule):
    # FIELD: vec![V; N],   (V a Copy value)  ->  FIELD: { let mut __v = Vec::new(); let __x = V; let __n = N; for __i in 0..__n { __v.push(__x); } __v },
    s = norm(orig)
    m = _m(r'(%s) : vec ! \[ (.+?) ; (.+?) \] ,' % ID, s)
    f, v, n = m.groups()
    return '%s: { let mut __v = Vec::new(); let __x = %s; let __n = %s; for __i in 0..__n { __v.push(__x); } __v },' % (f, v, n)


def r32(orig, rule):
    # M[&K]  ->  *M.get(&K).unwrap()      (HashMap's Index impl is `self.get(key).expect(..)`: same value, same panic condition)
    s = norm(orig)
    out, n = re.subn(r'((?:%s \. )*%s) \[ & (%s) \]' % (ID, ID, ID), r'* \1 . get ( & \2 ) . unwrap ( )', s)
    if n == 0:
        raise NoMatch('no M[&K]')
    return out


def r1b(orig, rule):
    # for (I, X) in E.iter().enumerate() {   ->  for I in 0..E.len() { let X = &E[I];      (X bound to a reference, as the iterator yields)
    s = norm(orig)
    m = _m(r'for \( (%s) , (%s) \) in (.+?) \. iter \( \) \. enumerate \( \) \{' % (ID, ID), s)
    i, x, e = m.groups()
    return 'for %s in 0..%s.len() { let %s = &%s[%s];' % (i, e, x, e, i)


def r1t(orig, rule):
    # for (I, &X) in E.iter().enumerate().take(N) {   ->  let __n = min(N, E.len()); for I in 0..__n { let X = E[I];
    s = norm(orig)
    m = _m(r'for \( (%s) , & (%s) \) in (.+?) \. iter \( \) \. enumerate \( \) \. take \( (.+) \) \{' % (ID, ID), s)
    i, x, e, n = m.groups()
    return 'let __n = std::cmp::min(%s, %s.len()); for %s in 0..__n { let %s = %s[%s];' % (n, e, i, x, e, i)


def r33(orig, rule):
    # (A..B).map(|X| E).collect()   (tail expression, element type T from the rule argument)
    #   ->  { let mut __v: Vec<T> = Vec::new(); for X in A..B { __v.push(E); } __v }
    #   (collect of a mapped range yields E for X = A, A+1, ... below B in this order)
    s = norm(orig)
    ty = rule.split(None, 1)[1]
    m = _m(r'\( (.+?) \.\. (.+?) \) \. map \( \| (%s) \| (.+) \) \. collect \( \)' % ID, s)
    a, b, x, e = m.groups()
    return '{ let mut __v: Vec<%s> = Vec::new(); for %s in %s..%s { __v.push(%s); } __v }' % (ty, x, a, b, e)


def r34(orig, rule):
    # for &X in &S[A..] {   ->  for __i in A..S.len() { let X = S[__i];
    #   (iterating the tail slice S[A..] visits S[A], S[A+1], ... in order; side condition A <= S.len() is a proof obligation of the range)
    s = norm(orig)
    m = _m(r'for & (%s) in & (%s) \[ (.+?) \.\. \] \{' % (ID, ID), s)
    x, sl, a = m.groups()
    return 'for __i in %s..%s.len() { let %s = %s[__i];' % (a, sl, x, sl)


def r35(orig, rule):
    # for K in (LO..HI).rev() {   ->  { let mut K: T = HI; while K > LO { K -= 1;        (closed by R35t; T from the rule argument)
    #   (the reversed range yields HI-1, HI-2, ..., LO)
    s = norm(orig)
    ty = rule.split()[1]
    m = _m(r'for (%s) in \( (.+?) \.\. (.+?) \) \. rev \( \) \{' % ID, s)
    k, lo, hi = m.groups()
    return '{ let mut %s: %s = %s; while %s > %s { %s -= 1;' % (k, ty, hi, k, lo, k)


def r35t(orig, rule):
    _m(r'\}', norm(orig))
    return '} }'


def r36(orig, rule):
    # for (X, Y) in E {   ->  for __e in E { let (X, Y) = __e;          (the tuple pattern moved into a let)
    s = norm(orig)
    m = _m(r'for \( (%s) , (%s) \) in (.+) \{' % (ID, ID), s)
    x, y, e = m.groups()
    return 'for __e in %s { let (%s, %s) = __e;' % (e, x, y)


def r37(orig, rule):
    # X >= &Y   ->  *X >= Y        (comparison of two references compares the referents)
    s = norm(orig)
    out, n = re.subn(r'(?<![A-Za-z0-9_.] )\b(%s) >= & (%s)\b' % (ID, ID), r'* \1 >= \2', s)
    if n == 0:
        raise NoMatch('no X >= &Y')
    return out


def r39(orig, rule):
    # let mut X: T = repeat(V).take(N).collect();   ->  let mut X: T = { let mut __v = Vec::new(); for __i in 0..N { __v.push(V); } __v };
    #   (N copies of V)
    s = norm(orig)
    m = _m(r'let mut (%s) : (.+?) = repeat \( (.+?) \) \. take \( (.+) \) \. collect \( \) ;' % ID, s)
    x, ty, v, n = m.groups()
    return 'let mut %s: %s = { let mut __v = Vec::new(); for __i in 0..%s { __v.push(%s); } __v };' % (x, ty, n, v)


def r40(orig, rule):
    # assert!(X.iter().all(|&A| P), MSG);   ->  for A in X.iter() { let A = *A; assert!(P); }
    #   (the assertion holds iff P holds of every element; which failing element panics first is not observable)
    s = norm(orig)
    m = _m(r'assert ! \( (.+?) \. iter \( \) \. all \( \| & (%s) \| (.+?) \) , [\s\S]* \) ;' % ID, s)
    x, a, pred = m.groups()
    return 'for %s in %s.iter() { let %s = *%s; assert!(%s); }' % (a, x, a, a, pred)


def r41(orig, rule):
    # X.iter().fold(INIT, |ACC, &A| E)   (tail expression; accumulator type T from the rule argument)
    #   ->  let mut ACC: T = INIT; for A in X.iter() { let A = *A; ACC = E; } ACC
    s = norm(orig)
    ty = rule.split(None, 1)[1]
    m = _m(r'(.+?) \. iter \( \) \. fold \( (.+?) , \| (%s) , & (%s) \| (.+) \)' % (ID, ID), s)
    x, init, acc, a, e = m.groups()
    return 'let mut %s: %s = %s; for %s in %s.iter() { let %s = *%s; %s = %s; } %s' % (acc, ty, init, a, x, a, a, acc, e, acc)


def r42(orig, rule):
    # F(&E)  with a call expression E as the borrowed argument   ->  { let NAME = E; F(&NAME); }     (NAME from the rule argument;
    #   names the temporary so that a proof block can talk about it; anything before/after the call on the line is kept)
    s = norm(orig)
    name = rule.split()[1]
    m = _m(r'(.*?)((?:%s \. )*%s) \( & (.+ \)) \)(.*)' % (ID, ID), s)
    pre, f, e, post = m.groups()
    return '%s{ let %s = %s; %s(&%s); }%s' % (pre, name, e, f, name, post)


def r43(orig, rule):
    # std::uN::MAX  ->  uN::MAX        (the legacy module constant and the associated constant are the same value)
    s = norm(orig)
    out, n = re.subn(r'std :: (u8|u16|u32|u64|usize) :: MAX', r'\1::MAX', s)
    if n == 0:
        raise NoMatch('no std::uN::MAX')
    return out


def r44(orig, rule):
    # PREFIX E.iter().map(|X| BODY).collect() SUFFIX   (element type T from the rule argument; PREFIX e.g. `field:`, SUFFIX e.g. `,`)
    #   ->  PREFIX { let mut __v: Vec<T> = Vec::new(); for X in E.iter() { __v.push(BODY); } __v } SUFFIX
    s = norm(orig)
    ty = rule.split(None, 1)[1]
    m = _m(r'((?:%s : )?)(.+?) \. iter \( \) \. map \( \| (%s) \| (.+) \) \. collect \( \)((?: ,)?)' % (ID, ID), s)
    pre, e, x, body, post = m.groups()
    return '%s{ let mut __v: Vec<%s> = Vec::new(); for %s in %s.iter() { __v.push(%s); } __v }%s' % (pre, ty, x, e, body, post)


def r45(orig, rule):
    # Y.iter().copied().collect::<D>()   ->  { let mut __d: D = D::new(); for __b in Y.iter() { __d.push_back(*__b); } __d }
    #   (D a deque type with new/push_back; the items of Y are pushed in order)
    s = norm(orig)
    m = re.search(r'(%s) \. iter \( \) \. copied \( \) \. collect :: < (.+?) (>+) \( \)' % ID, s)
    if not m:
        raise NoMatch('no iter().copied().collect::<D>()')
    y, d, close = m.groups()
    d = d + ' >' * (len(close) - 1)
    dn = re.sub(r' < .*$', '', d)
    return s[:m.start()] + '{ let mut __d: %s = %s::new(); for __b in %s.iter() { __d.push_back(*__b); } __d }' % (d, dn, y) + s[m.end():]


def r46(orig, rule):
    # X.into_iter().all(|C| P)   (tail expression; X a slice)   ->  { let mut __r = true; for C in X.iter() { if !(P) { __r = false; } } __r }
    #   (all() is true iff P holds of every item; P is side-effect free, so skipping the short-circuit is not observable)
    s = norm(orig)
    m = _m(r'(.+?) \. into_iter \( \) \. all \( \| (%s) \| (.+) \)' % ID, s)
    x, c, pred = m.groups()
    return '{ let mut __r = true; for %s in %s.iter() { if !(%s) { __r = false; } } __r }' % (c, x, pred)


def r47(orig, rule):
    # S.extend(X.into_iter().map(|C| F));   (X a slice)   ->  for C in X.iter() { S.insert(F); }
    #   (extend inserts every item the iterator yields)
    s = norm(orig)
    m = _m(r'(%s) \. extend \( (.+?) \. into_iter \( \) \. map \( \| (%s) \| (.+) \) \) ;' % (ID, ID), s)
    st, x, c, f = m.groups()
    return 'for %s in %s.iter() { %s.insert(%s); }' % (c, x, st, f)


def r48(orig, rule):
    # X.into_iter().rev().map(|A| F).collect()   (tail expression; X a slice, element type T from the rule argument)
    #   ->  { let mut __v: Vec<T> = Vec::new(); let mut __i = X.len(); while __i > 0 { __i -= 1; let A = &X[__i]; __v.push(F); } __v }
    #   (the reversed iterator yields X[len-1], ..., X[0])
    s = norm(orig)
    ty = rule.split(None, 1)[1]
    m = _m(r'(.+?) \. into_iter \( \) \. rev \( \) \. map \( \| (%s) \| (.+) \) \. collect \( \)' % ID, s)
    x, a, f = m.groups()
    return '{ let mut __v: Vec<%s> = Vec::new(); let mut __i = %s.len(); while __i > 0 { __i -= 1; let %s = &%s[__i]; __v.push(%s); } __v }' % (ty, x, a, x, f)


def r49(orig, rule):
    # X.iter().collect()   (tail expression; X has an `iter()` whose Iterator::next is under contract; element type T from the rule argument)
    #   ->  { let mut __v: Vec<T> = Vec::new(); let mut __it = X.iter(); loop { match __it.next() { Some(__x) => { __v.push(__x); } None => { break; } } } __v }
    #   (collect into a Vec pushes the items in the order next() yields them, until None)
    s = norm(orig)
    ty = rule.split(None, 1)[1]
    m = _m(r'(.+?) \. iter \( \) \. collect \( \)', s)
    x = m.group(1)
    return '{ let mut __v: Vec<%s> = Vec::new(); let mut __it = %s.iter(); loop { match __it.next() { Some(__x) => { __v.push(__x); } None => { break; } } } __v }' % (ty, x)


def r50(orig, rule):
    # M.entry(K).or_default().push(V);   ->  M.push_to(K, V);
    #   (the std entry API appends V to the list stored under K, creating the empty list first when K is absent; `push_to` is the
    #    stub method of the map model carrying exactly that contract)
    s = norm(orig)
    m = _m(r'(%s) \. entry \( (.+?) \) \. or_default \( \) \. push \( (.+) \) ;' % ID, s)
    mp, k, v = m.groups()
    return '%s.push_to(%s, %s);' % (mp, k, v)


def r51(orig, rule):
    # for X in E {   with E a reference to a Vec   ->  for X in E.iter() {        (IntoIterator for &Vec<T> is iter())
    s = norm(orig)
    m = _m(r'for (%s) in (%s) \{' % (ID, ID), s)
    x, e = m.groups()
    return 'for %s in %s.iter() {' % (x, e)


def r52(orig, rule):
    # [pub] fn N(mut self, ARGS) -> R { BODY }   ->   [pub] fn N(self, ARGS) -> R { let mut this = self; BODY[self := this] }
    #   (a `mut self` receiver is a by-value parameter bound mutably; moving it into a fresh mutable local and using that local
    #    instead is the same function.  Verus does not accept `mut self`.)  Inside BODY, `assert!(C, "msg" ..);` loses its
    #    message as in R18a (same panic condition).
    toks = texts(lex(orig)[0])
    try:
        i = toks.index('(')
    except ValueError:
        raise NoMatch('no parameter list')
    if toks[i + 1:i + 3] != ['mut', 'self']:
        raise NoMatch('receiver is not `mut self`')
    b = toks.index('{')
    if toks[-1] != '}':
        raise NoMatch('not a whole fn item')
    if 'this' in toks:
        raise NoMatch('`this` already used')
    head = toks[:i + 1] + toks[i + 2:b + 1]
    body = ['this' if t == 'self' else t for t in toks[b + 1:-1]]
    out, k = [], 0
    while k < len(body):
        if body[k:k + 3] == ['assert', '!', '('] and (k == 0 or body[k - 1] in (';', '{', '}')):
            depth, j = 0, k + 2
            while True:
                if body[j] in '([{':
                    depth += 1
                elif body[j] in ')]}':
                    depth -= 1
                    if depth == 0:
                        break
                j += 1
            stmt = body[k:j + 2]
            try:
                out.append(r18a(' '.join(stmt), 'R18a'))
            except NoMatch:
                out.extend(stmt)
            k = j + 2
        else:
            out.append(body[k]); k += 1
    return ' '.join(head) + ' let mut this = self ; ' + ' '.join(out) + ' }'


def r53(orig, rule):
    # fn header with wildcard parameters:  `_: T`  ->  `__p1: T`, `__p2: T`, ..   (an unused parameter gets a name; Verus rejects `_`)
    toks = texts(lex(orig)[0])
    if 'fn' not in toks[:6]:
        raise NoMatch('not a fn header')
    out, n = [], 0
    for i, t in enumerate(toks):
        if t == '_' and i + 1 < len(toks) and toks[i + 1] == ':' and toks[i - 1] in ('(', ','):
            n += 1
            out.append('__p%d' % n)
        else:
            out.append(t)
    if n == 0:
        raise NoMatch('no wildcard parameter')
    return ' '.join(out)


def r54(orig, rule):
    # E.min_by_key(|&(_, X)| X).unwrap()  (tail expression)
    #   ->  { let mut __it = E; let mut __best = __it.next().unwrap();
    #         loop { match __it.next() { Some(__c) => { if __c.1 < __best.1 { __best = __c; } } None => { break; } } } __best }
    #   (Iterator::min_by_key folds with `if key(candidate) < key(best) { candidate } else { best }` starting from the first item, i.e. it
    #    keeps the FIRST minimal element, and returns None - here: panics in unwrap - exactly when the iterator is empty)
    s = norm(orig)
    m = _m(r'(.+?) \. min_by_key \( \| & \( _ , (%s) \) \| (%s) \) \. unwrap \( \)' % (ID, ID), s)
    e, x1, x2 = m.groups()
    if x1 != x2:
        raise NoMatch('key is not the second component')
    return ('{ let mut __it = %s; let mut __best = __it.next().unwrap(); loop { match __it.next() { Some(__c) => { if __c.1 < __best.1 '
            '{ __best = __c; } } None => { break; } } } __best }' % e)


def r55(orig, rule):
    # for &X in E {   ->  for __rX in E.iter() { let X = *__rX;      (E a reference to a slice / Vec of Copy items: IntoIterator for &[T] is
    #                                                                  iter(); the reference pattern &X copies the item out)
    s = norm(orig)
    m = _m(r'for & (%s) in (%s) \{' % (ID, ID), s)
    x, e = m.groups()
    return 'for __r%s in %s.iter() { let %s = *__r%s;' % (x, e, x, x)


def r56(orig, rule):
    # E.and_then(|X| B)   ->   (match E { Some(X) => B, None => None })        (definition of Option::and_then)
    s = norm(orig)
    m = _m(r'(.*?)(%s) \. and_then \( \| (%s) \| (.+?) \) (\{|;)' % (ID, ID), s)
    pre, e, x, b, tail = m.groups()
    if b.count('(') != b.count(')'):
        raise NoMatch('closure body not delimited')
    return '%s(match %s { Some(%s) => %s, None => None }) %s' % (pre, e, x, b, tail)


def r57(orig, rule):
    # let V = P.entry(E).or_default();   ->   let NAME = E; let V = P.entry(NAME).or_default();       (P a field path: a place, nothing to
    #   evaluate; the key expression is evaluated first either way.  Naming the key lets a proof block talk about it.)
    s = norm(orig)
    name = rule.split()[1]
    m = _m(r'let (%s) = ((?:%s \. )*%s) \. entry \( (.+) \) \. or_default \( \) ;' % (ID, ID, ID), s)
    v, pth, e = m.groups()
    return 'let %s = %s; let %s = %s.entry(%s).or_default();' % (name, e, v, pth, name)


def r58(orig, rule):
    # let V = E.last().map(|X| X.F).unwrap_or(D);   ->   let V = match E.last() { Some(X) => X.F, None => D };
    #   (Option::map then unwrap_or: the mapped value when present, the default otherwise)
    s = norm(orig)
    m = _m(r'let (%s) = (.+?) \. last \( \) \. map \( \| (%s) \| (.+?) \) \. unwrap_or \( (.+) \) ;' % (ID, ID), s)
    v, e, x, body, d = m.groups()
    return 'let %s = match %s.last() { Some(%s) => %s, None => %s };' % (v, e, x, body, d)


def r59(orig, rule):
    # E.get(I).map(|X| B)   (tail expression)   ->   match E.get(I) { Some(X) => Some(B), None => None }      (definition of Option::map)
    s = norm(orig)
    m = _m(r'(.+?) \. get \( (.+?) \) \. map \( \| (%s) \| (.+) \)' % ID, s)
    e, i, x, body = m.groups()
    return 'match %s.get(%s) { Some(%s) => Some(%s), None => None }' % (e, i, x, body)


def r60(orig, rule):
    # match E {   ->   let NAME = E; match NAME {        (the scrutinee is evaluated once, first, either way; naming it lets a proof block
    #                                                     state facts about it before the arms run)
    s = norm(orig)
    name = rule.split()[1]
    m = _m(r'match (.+) \{', s)
    return 'let %s = %s; match %s {' % (name, m.group(1), name)


def rdbg(orig, rule):
    # debug_assert!(C);  ->  assert!(C);      (debug builds panic when C fails - the test profile is a debug build; proving C covers both profiles)
    s = norm(orig)
    m = _m(r'debug_assert ! \( (.+) \) ;', s)
    return 'assert!(%s);' % m.group(1)


def r61(orig, rule):
    # E.map(|(A, B)| X)   (tail expression, E an Option of a pair)   ->   match E { Some((A, B)) => { let __r = Some(X); __r } None => { None } }      (definition of Option::map, result named)
    s = norm(orig)
    m = _m(r'(.+) \. map \( \| \( (%s) , (%s) \) \| (.+) \)' % (ID, ID), s)
    e, a, b, x = m.groups()
    return 'match %s { Some((%s, %s)) => { let __r = Some(%s); __r } None => { None } }' % (e, a, b, x)


def r62(orig, rule):
    # E.map(|X| { S; X })   (tail expression)   ->   match E { Some(X) => { S; let __r = Some(X); __r } None => { None } }      (definition of Option::map, result named)
    s = norm(orig)
    m = _m(r'(.+) \. map \( \| (%s) \| \{ (.+) ; (%s) \} \)' % (ID, ID), s)
    e, x, st, x2 = m.groups()
    assert x == x2
    return 'match %s { Some(%s) => { %s; let __r = Some(%s); __r } None => { None } }' % (e, x, st, x)


def r63(orig, rule):
    # symbols: A.OP(&B).collect(),   (OP in intersection / difference / union of bit_set::BitSet)   ->   symbols: bitset_OP(&A, &B),
    # (the adapter + collect pair is the set operation; the stub bitset_OP carries exactly that contract)
    s = norm(orig)
    m = _m(r'symbols : (.+) \. (intersection|difference|union) \( & (.+) \) \. collect \( \) ,', s)
    a, op, b = m.groups()
    return 'symbols: bitset_%s(&%s, &%s),' % (op, a, b)


def r64(orig, rule):
    # E.iter().max().map(|X| X as u8)   (tail; E a BitSet)   ->   match bitset_max(&E) { Some(X) => { let __r = Some(X as u8); __r } None => { None } }
    s = norm(orig)
    m = _m(r'(.+) \. iter \( \) \. max \( \) \. map \( \| (%s) \| (%s) as u8 \)' % (ID, ID), s)
    e, x, x2 = m.groups()
    assert x == x2
    return 'match bitset_max(&%s) { Some(%s) => { let __r = Some(%s as u8); __r } None => { None } }' % (e, x, x)


def r55b(orig, rule):
    # for &X in E.iter() {   or   for &X in &E {     ->   for __rX in E.iter() { let X = *__rX;      (as R55; `&E` iterates like `E.iter()`)
    s = norm(orig)
    try:
        m = _m(r'for & (%s) in (%s) \. iter \( \) \{' % (ID, ID), s)
    except NoMatch:
        m = _m(r'for & (%s) in & (%s) \{' % (ID, ID), s)
    x, e = m.groups()
    return 'for __r%s in %s.iter() { let %s = *__r%s;' % (x, e, x, x)


def r65(orig, rule):
    # let X = E.get(&K).cloned().unwrap_or(D);   ->   let X = match E.get(&K) { Some(__v) => *__v, None => D };
    # (Option::cloned on a reference to a Copy value copies it out; unwrap_or is the match)
    s = norm(orig)
    m = _m(r'let (%s) = (.+?) \. get \( & (%s) \) \. cloned \( \) \. unwrap_or \( (.+) \) ;' % (ID, ID), s)
    x, e, k, d = m.groups()
    return 'let %s = match %s.get(&%s) { Some(__v) => *__v, None => %s };' % (x, e, k, d)


def r66(orig, rule):
    # E.to_owned()   (E a slice of Copy pairs)   ->   pairs_to_vec(E)        (stub: a Vec with the same elements)
    s = norm(orig)
    m = _m(r'(.*) = (%s) \. to_owned \( \) ;' % ID, s)
    pre, e = m.groups()
    return '%s = pairs_to_vec(%s);' % (pre, e)


def r67(orig, rule):
    # let mut A = B.clone();   (B a Vec of Copy pairs)   ->   let mut A = pairs_clone(&B);     (stub: a Vec with the same elements)
    s = norm(orig)
    m = _m(r'let mut (%s) = (%s) \. clone \( \) ;' % (ID, ID), s)
    a, b = m.groups()
    return 'let mut %s = pairs_clone(&%s);' % (a, b)


GENERATORS = {
    'R55b': r55b, 'R65': r65, 'R66': r66, 'R67': r67,
    'R63': r63, 'R64': r64,
    'R62': r62,
    'R61': r61,
    'RDBG': rdbg,
    'R60': r60,
    'R58': r58, 'R59': r59,
    'R57': r57,
    'R55': r55, 'R56': r56,
    'R54': r54,
    'R53': r53,
    'R52': r52,
    'R50': r50, 'R51': r51,
    'R49': r49,
    'R48': r48,
    'R46': r46, 'R47': r47,
    'R44': r44, 'R45': r45,
    'R40': r40, 'R41': r41, 'R42': r42, 'R43': r43,
    'R39': r39,
    'R34': r34, 'R35': r35, 'R35t': r35t, 'R36': r36, 'R37': r37,
    'R33': r33,
    'R1b': r1b, 'R1t': r1t, 'R22': r22, 'R23': r23, 'R24': r24, 'R18m': r18m, 'RRET': rret, 'R26': r26, 'R18a': r18a, 'RTY': rty, 'R32': r32, 'R31': r31, 'RVEC': rvec, 'R29': r29, 'R30': r30, 'R30t': r30t, 'R28': r28, 'RPANIC': rpanic,
    'RBW': rbw,
    'R4m': r4m,
    'R12m': r12m,
    'R21': r21,
    'R9f': r9f, 'R17b': r17b,
    'R13': r13,
    'R19': r19,
    'R12': r12, 'R16': r16,
    'R5': r5, 'R5sig': r5sig,
    'R18': r18,
    'R8': r8,
    'R6sig': r6sig, 'R6for': r6for, 'R6b': r6b,
    'RB': rb,
    'R1': r1, 'R2': r2, 'R3': r3, 'R4': r4, 'R9': r9, 'R9t': r9t, 'R10': r10, 'R10t': r10t, 'R11': r11,
    'R14': r14, 'R15': r15, 'R15t': r15t, 'R17': r17,
}


def has_generator(rule):
    return all(part.split()[0] in GENERATORS for part in rule.split(' + '))


def apply(rule, orig):
    """apply a (possibly composite `A args + B args`) rule to the original text"""
    text = orig
    for part in rule.split(' + '):
        text = GENERATORS[part.split()[0]](text, part)
    return text

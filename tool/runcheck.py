"""check driver: weave every unit of a property from /repo's current tree, run the verifiers, classify, write evidence."""
import os
import re
import sys
import json
import time
import glob
import hashlib
import argparse
import subprocess
import concurrent.futures as cf

import unit
import known
import kani
from props import PROPS

ROOT = unit.ROOT
REPO = unit.REPO
BUILD = os.path.join(ROOT, 'build')


ORACLE_MEM_LIMIT = 6 << 30      # address-space limit of an oracle process (a runaway loop in mutated code must not take the sandbox down)


def _limit_mem():
    import resource
    resource.setrlimit(resource.RLIMIT_AS, (ORACLE_MEM_LIMIT, ORACLE_MEM_LIMIT))


def sh(cmd, timeout=None, cwd=None, env=None, limit_mem=False):
    e = dict(os.environ)
    e.update({'CARGO_NET_OFFLINE': 'true'})
    if env:
        e.update(env)
    try:
        p = subprocess.run(cmd, shell=isinstance(cmd, str), capture_output=True, text=True, timeout=timeout, cwd=cwd, env=e,
                           preexec_fn=_limit_mem if limit_mem else None)
        return p.returncode, p.stdout, p.stderr
    except subprocess.TimeoutExpired as ex:
        dec = lambda b: b.decode(errors='replace') if isinstance(b, bytes) else (b or '')
        return 124, dec(ex.stdout), dec(ex.stderr) + '\ntimeout'


# ---------------------------------------------------------------- replay crate
def replay_bin():
    """(re)build the replay binary against the current tree; returns path or None"""
    crate = os.path.join(BUILD, 'replay-crate')
    os.makedirs(crate, exist_ok=True)
    toml = open(os.path.join(ROOT, 'replay', 'Cargo.toml')).read().replace('path = "/repo"', 'path = "%s"' % REPO)
    open(os.path.join(crate, 'Cargo.toml'), 'w').write(toml)
    lock = os.path.join(ROOT, 'replay', 'Cargo.lock')
    if os.path.exists(lock):
        open(os.path.join(crate, 'Cargo.lock'), 'w').write(open(lock).read())
    src = os.path.join(crate, 'src')
    if os.path.islink(src) or os.path.exists(src):
        if os.path.islink(src):
            os.unlink(src)
    if not os.path.exists(src):
        os.symlink(os.path.join(ROOT, 'replay', 'src'), src)
    rc, out, err = sh(['cargo', 'build', '--offline', '--target-dir', os.path.join(BUILD, 'replay-target')], timeout=900, cwd=crate)
    if rc != 0:
        return None, (err or out)[-1500:]
    return os.path.join(BUILD, 'replay-target', 'debug', 'replay'), ''


def replay_search(prop, seed, budget_ms, thorough=False):
    """returns dict(status=found|none|unavailable, input, what, tried)"""
    oracle = PROPS[prop].get('oracle')
    if not oracle:
        return {'status': 'unavailable', 'why': 'no executable oracle for this property'}
    binp, err = replay_bin()
    if not binp:
        return {'status': 'unavailable', 'why': 'replay crate does not build against the current tree: ' + err}
    cmd = [binp, oracle, 'search', str(seed), str(budget_ms)] + (['thorough'] if thorough else [])
    rc, out, err = sh(cmd, timeout=budget_ms / 1000 + 120, limit_mem=True)
    for ln in out.split('\n'):
        if ln.startswith('FOUND '):
            body = ln[len('FOUND '):]
            inp, _, what = body.partition(' :: ')
            tried = 0
            if inp.startswith('tried='):
                t, _, inp = inp.partition(' ')
                tried = int(t[6:])
            return {'status': 'found', 'input': inp, 'what': what, 'tried': tried, 'cmd': ' '.join(cmd)}
        if ln.startswith('NONE'):
            return {'status': 'none', 'tried': int(ln.split('=')[1]) if '=' in ln else 0, 'cmd': ' '.join(cmd)}
    # the oracle process died (memory limit, abort) or ran into the time limit: the last announced input is the suspect;
    # it counts as a failing input only if it reproduces on its own in a fresh, equally limited process
    cur = [ln[4:] for ln in (err or '').split('\n') if ln.startswith('CUR ')]
    if cur:
        rc2, out2, err2 = sh([binp, oracle, 'run'] + cur[-1].split(' '), timeout=60, limit_mem=True)
        if rc2 not in (0, 1):
            what = 'the process %s on this input (memory limit %d GiB, time limit 60 s): non-termination or unbounded allocation' % (
                'hit the time limit' if rc2 == 124 else 'was killed/aborted (rc=%s)' % rc2, ORACLE_MEM_LIMIT >> 30)
            return {'status': 'found', 'input': cur[-1], 'what': what, 'tried': len(cur), 'cmd': ' '.join(cmd)}
        if rc2 == 1:
            return {'status': 'found', 'input': cur[-1], 'what': out2.strip()[5:] if out2.startswith('FAIL ') else out2.strip(), 'tried': len(cur), 'cmd': ' '.join(cmd)}
    return {'status': 'unavailable', 'why': 'oracle crashed: rc=%s %s' % (rc, (out + err)[-400:])}


def replay_run(prop, inp):
    binp, err = replay_bin()
    if not binp:
        return None, 'replay crate does not build: ' + err
    rc, out, err = sh([binp, PROPS[prop]['oracle'], 'run'] + inp.split(' '), timeout=300, limit_mem=True)
    if rc not in (0, 1):
        return False, 'process killed/aborted or timed out (rc=%s) under the %d GiB memory limit' % (rc, ORACLE_MEM_LIMIT >> 30)
    return rc == 0, out.strip()


# ---------------------------------------------------------------- one property
def run_unit(name, tier, seed, vacuity=False):
    vrs = os.path.join(ROOT, 'contracts', name + '.vrs')
    res, woven = unit.build(vrs, os.path.join(BUILD, name.split('/')[0]), vacuity=vacuity, canary=not vacuity)
    if woven is None:
        return res
    timeout = 240 if tier == 'quick' else 900
    extra = None
    rl = None
    if tier == 'thorough' and not vacuity:
        pass
    unit.run_verus(res, woven, timeout=timeout, rlimit=rl, extra=extra)
    # Solver instability is not a property violation.  (1) A failed obligation is re-tried with other solver seeds: any run that discharges
    # every obligation of the unit is a proof (the verdict of the verifier on the same text), so the unit counts as discharged and the
    # retry is recorded.  (2) An obligation that still fails but lies in the PRELUDE (specification functions and lemmas of the mirror, no
    # code of /repo) cannot be a violation of the property by /repo: it is reported as UNDECIDED (proof instability), never as an alarm.
    retries = []
    if res.status == 'failed':
        first_failed = list(res.failed)
        for n, sd in enumerate((seed + 101, seed + 202)):
            res2, woven2 = unit.build(vrs, os.path.join(BUILD, name.split('/')[0]), vacuity=vacuity, canary=not vacuity)
            if woven2 is None:
                break
            unit.run_verus(res2, woven2, timeout=timeout, rlimit=rl, extra=['--smt-option', 'smt.random_seed=%d' % sd])
            retries.append({'seed': sd, 'status': res2.status, 'failed': [obligation_name(f) for f in res2.failed]})
            if res2.status == 'discharged':
                res2.retry_note = 'first run failed %s; discharged with solver seed %d' % (', '.join(obligation_name(f) for f in first_failed), sd)
                res2.retries = retries
                return res2
            if res2.status == 'failed':
                # keep only obligations that fail under every seed tried so far
                names = set(obligation_name(f) for f in res2.failed)
                res.failed = [f for f in res.failed if obligation_name(f) in names]
                if not res.failed:
                    res.status = 'undecided'
                    res.reason = 'INSTABILITY: different obligations fail under different solver seeds (no obligation fails under all): %s' % json.dumps(retries)
                    break
        # (3) Lost proof context is not a violation either.  Verus verifies a loop in isolation: what held before the loop is forgotten unless an
        # invariant repeats it, so a harmless edit that introduces a local before a loop (hoisting `self.tree.len()` into `n`) loses the fact
        # `n == self.tree.len()` inside the loop and obligations fail although nothing changed semantically.  The unit is therefore re-run once
        # with `#![verifier::loop_isolation(false)]` (loops are verified in the context of their function; same code, same contracts, only the
        # encoding differs).  A run that discharges everything is a proof; obligations that fail in this encoding too are kept.
        if res.status == 'failed' and any(f.get('item') != 'prelude' for f in res.failed):
            res3, woven3 = unit.build(vrs, os.path.join(BUILD, name.split('/')[0]), vacuity=vacuity, canary=not vacuity)
            if woven3 is not None:
                wl = woven3.split('\n')
                wl[0] = '#![verifier::loop_isolation(false)] ' + wl[0]       # same line count: failure lines still map to their regions
                open(res3.out_path, 'w').write('\n'.join(wl))
                unit.run_verus(res3, '\n'.join(wl), timeout=timeout, rlimit=rl, extra=None)
                retries.append({'mode': 'loop_isolation(false)', 'status': res3.status, 'failed': [obligation_name(f) for f in res3.failed]})
                if res3.status == 'discharged':
                    res3.retry_note = 'first run failed %s; discharged with loops verified in the context of their function (loop_isolation(false))' % ', '.join(obligation_name(f) for f in first_failed)
                    res3.retries = retries
                    return res3
                if res3.status == 'failed':
                    names = set(obligation_name(f) for f in res3.failed)
                    kept = [f for f in res.failed if obligation_name(f) in names]
                    if kept:
                        res.failed = kept
        res.retries = retries
    if res.status == 'failed' and all(f.get('item') == 'prelude' for f in res.failed):
        res.status = 'undecided'
        res.reason = 'INSTABILITY: only prelude obligations (lemmas / spec functions of the mirror, independent of /repo) failed: ' + '; '.join(obligation_name(f) for f in res.failed)
    elif res.status == 'failed':
        res.failed = [f for f in res.failed if f.get('item') != 'prelude']
    return res


def vacuity_probe(name):
    """every contracted fn gets `assert(false)` at the start of its body; each of them must FAIL
    (a function that still verifies has contradictory preconditions)."""
    vrs = os.path.join(ROOT, 'contracts', name + '.vrs')
    res, woven = unit.build(vrs, os.path.join(BUILD, name.split('/')[0]), vacuity=True, canary=False)
    if woven is None:
        return {'unit': name, 'status': 'undecided', 'reason': res.reason}
    n_probes = woven.count('/*vacuity-probe*/')
    if n_probes == 0 and not re.search(r'^//@extract .* fn \w+\s*$', open(vrs).read(), re.M):
        # a pure theory unit (lemmas only, no function of /repo under contract): nothing to probe; its canary still has to fail
        return {'unit': name, 'probes': 0, 'refuted': 0, 'gave_up': 0, 'status': 'ok', 'note': 'theory unit without code regions'}
    unit.run_verus(res, woven, timeout=900, rlimit=5)
    probe_lines = set(k + 1 for k, ln in enumerate(woven.split('\n')) if '/*vacuity-probe*/' in ln)
    wl = woven.split('\n')
    refuted_lines = set(f['line'] for f in res.failed if 'assert(false)' in f['clause'] and f['line'] in probe_lines)
    gave_up_fns = set(b_['function'] for b_ in getattr(res, 'budget', []))
    refuted = gave_up = 0
    for ln in sorted(probe_lines):
        if ln in refuted_lines:
            refuted += 1
        elif unit.enclosing_fn(wl, ln) in gave_up_fns:
            gave_up += 1
    return {'unit': name, 'probes': n_probes, 'refuted': refuted, 'gave_up': gave_up,
            'status': 'ok' if refuted + gave_up >= n_probes and n_probes > 0 else 'suspect'}


def obligation_name(f):
    return '%s::%s::%s' % (f['unit'], f['function'], f['kind'])


def main(argv):
    ap = argparse.ArgumentParser()
    ap.add_argument('prop')
    ap.add_argument('--tier', default=os.environ.get('VERIF_TIER', 'quick'))
    ap.add_argument('--replay')
    ap.add_argument('--no-evidence', action='store_true')
    a = ap.parse_args(argv)
    prop = a.prop
    if prop not in PROPS:
        print('unknown property', prop)
        return 2
    seed = int(os.environ.get('VERIF_SEED', '0') or 0)
    if a.replay:
        return do_replay(prop, a.replay)
    t0 = time.time()
    P = PROPS[prop]
    tier = a.tier
    results = []
    kani_results = []
    with cf.ThreadPoolExecutor(max_workers=8) as ex:
        futs = [ex.submit(run_unit, u, tier, seed) for u in P['units']]
        kfuts = []
        for h in P.get('kani', []):
            if tier == 'thorough' or not h.get('thorough_only'):
                kfuts.append(ex.submit(kani.run_harness, h, REPO, BUILD))
        for f in futs:
            results.append(f.result())
        for f in kfuts:
            kani_results.append(f.result())
    failed = []
    undecided = []
    for r in results:
        if r.status == 'failed':
            failed.extend(r.failed)
        elif r.status != 'discharged':
            undecided.append({'unit': r.name, 'reason': r.reason, 'changed_items': r.changed_items})
    for k in kani_results:
        if k['status'] == 'failed':
            failed.extend(k['failed'])
        elif k['status'] != 'discharged':
            undecided.append({'unit': 'kani/' + k['harness'], 'reason': k['reason'], 'changed_items': []})
    knowns, _fixed = known.load(ROOT)
    known_hits = []
    new_failed = []
    for f in failed:
        nm = obligation_name(f)
        hit = [k for k in knowns if k['property'] == prop and k['obligation'] == nm.replace(' ', '_')]
        if hit:
            known_hits.append((f, hit[0]))
        else:
            new_failed.append(f)
    # thorough extras
    thorough_info = {}
    if tier == 'thorough' and not new_failed and not undecided:
        vac = []
        with cf.ThreadPoolExecutor(max_workers=8) as ex:
            for v in ex.map(vacuity_probe, P['units']):
                vac.append(v)
        thorough_info['vacuity_probes'] = vac
        for v in vac:
            if v['status'] != 'ok':
                undecided.append({'unit': v['unit'], 'reason': 'VACUITY: a contracted function verified `assert(false)` at body start: %s' % json.dumps(v), 'changed_items': []})
        # stability: second solver seed
        stab = []
        for u in P['units']:
            vrs = os.path.join(ROOT, 'contracts', u + '.vrs')
            res, woven = unit.build(vrs, os.path.join(BUILD, u.split('/')[0] + '_seed2'))
            if woven is not None:
                unit.run_verus(res, woven, timeout=900, extra=['--smt-option', 'smt.random_seed=%d' % (seed + 17)])
                stab.append({'unit': u, 'status': res.status, 'reason': res.reason})
                if res.status == 'failed':
                    new_failed.extend(res.failed)
        thorough_info['second_seed'] = stab
    violation = None
    exploration = None
    if new_failed or undecided:
        # attach a concrete input from the real code if we can (never the deciding step)
        exploration = replay_search(prop, seed, 60000)
    elif P.get('oracle'):
        # BOUNDED STAND-IN (labelled bounded, never counted as proved): differential check of the real crate against the property's
        # executable oracle on small-scope + VERIF_SEED-ed random inputs; this is what covers the clauses the contracts do not decide
        exploration = replay_search(prop, seed, 240000 if tier == 'thorough' else 20000, thorough=(tier == 'thorough'))
        exploration['label'] = 'BOUNDED stand-in (not proof): cases tried = %s; generator and bounds in replay/src/%s.rs' % (exploration.get('tried'), P['oracle'].lower())
    rc = 0
    replay_path = None
    if new_failed or (exploration and exploration.get('status') == 'found'):
        rc = 1
        os.makedirs(os.path.join(BUILD, 'replays'), exist_ok=True)
        body = {
            'property': prop,
            'failed_obligations': [dict(f, name=obligation_name(f)) for f in new_failed],
            'undecided': undecided,
            'changed_items': sorted(set(sum([r.changed_items for r in results], []))),
            'verifier_output': {r.name: r.raw_output[-6000:] for r in results if r.status == 'failed'},
            'kani_output': {k['harness']: k.get('output', '')[-6000:] for k in kani_results if k['status'] == 'failed'},
            'failing_input': exploration if exploration and exploration.get('status') == 'found' else None,
            'kani_counterexamples': [k.get('counterexample') for k in kani_results if k.get('counterexample')],
            'note': ('obligation(s) failed in the deductive verifier' if new_failed else ('verification undecided, violation by replay on the real code' if undecided else 'all obligations discharged; violation found by the BOUNDED stand-in (differential check of the real code against the property oracle) in a clause the contracts do not decide')),
            'repo': REPO,
        }
        h = hashlib.sha1(json.dumps(body, sort_keys=True).encode()).hexdigest()[:10]
        replay_path = os.path.join(BUILD, 'replays', '%s-%s.json' % (prop, h))
        json.dump(body, open(replay_path, 'w'), indent=1)
    elif undecided:
        rc = 2
    wall = time.time() - t0
    ev = evidence(prop, tier, seed, results, kani_results, new_failed, undecided, known_hits, exploration, thorough_info, wall, rc)
    if not a.no_evidence:
        os.makedirs(os.path.join(ROOT, 'evidence'), exist_ok=True)
        json.dump(ev, open(os.path.join(ROOT, 'evidence', prop + '.json'), 'w'), indent=1)
    # ---- report
    for r in results:
        print('unit %-18s %-11s verified=%d wall=%.1fs smt=%dms %s' % (r.name, r.status, r.verified, r.wall_s, r.smt_ms,
              (('rewoven: ' + ', '.join(x.split(' :: ', 1)[1] for x in r.changed_items)) if r.changed_items else '') + ((' [' + r.retry_note + ']') if getattr(r, 'retry_note', '') else '')))
    for k in kani_results:
        print('kani %-24s %-11s checks=%d wall=%.1fs' % (k['harness'], k['status'], k.get('checks', 0), k.get('wall_s', 0)))
    for (f, k) in known_hits:
        print('KNOWN-FINDING: property=%s %s (%s)' % (prop, k['what'], obligation_name(f)))
    for f in new_failed:
        print('FAILED-OBLIGATION %s :: %s  [%s] %s' % (obligation_name(f), f['clause'], f['item'], f['detail']))
    for u in undecided:
        print('UNDECIDED %s: %s' % (u['unit'], u['reason']))
    if exploration and exploration.get('status') == 'found':
        print('failing input on the real code: %s :: %s' % (exploration['input'], exploration['what']))
    if rc == 1:
        suffix = '' if (exploration and exploration.get('status') == 'found') or any(k.get('counterexample') for k in kani_results) else ' no-failing-input-found'
        print('VIOLATION property=%s replay=%s%s' % (prop, replay_path, suffix))
    elif rc == 2:
        print('UNDECIDED property=%s (exit 2; not an alarm)' % prop)
    else:
        print('OK property=%s obligations=%d discharged=%d wall=%.1fs' % (prop, ev['coverage']['obligations'], ev['coverage']['discharged'], wall))
    return rc


def evidence(prop, tier, seed, results, kani_results, failed, undecided, known_hits, exploration, thorough_info, wall, rc):
    P = PROPS[prop]
    obligations = sum(r.verified + (r.errors - (1 if r.canary_ok else 0) if r.errors else 0) for r in results) + sum(k.get('checks', 0) for k in kani_results)
    discharged = sum(r.verified for r in results if r.status in ('discharged', 'failed')) + sum(k.get('checks_ok', 0) for k in kani_results)
    fns = []
    rewrites = []
    assumptions = []
    regions = []
    for r in results:
        for f in r.functions:
            fns.append({'unit': r.name, 'function': f['function'].split('::', 1)[-1], 'mode': f['mode'], 'smt_ms': f['ms'], 'rlimit': f['rlimit'], 'ok': f['success']})
        rewrites.extend(r.rewrites)
        for asm in r.assumptions:
            assumptions.append('%s [%s] %s' % (asm['kind'], asm['where'], asm['text']))
        for g in r.regions:
            regions.append({'unit': r.name, 'item': g['item'], 'weave': g['status']})
    under_contract = [g['item'] for g in regions if ' fn ' in (' ' + g['item'].split(' :: ')[-1])]
    samples = [f for f in fns if f['mode'] == 'exec' and f['function'] != '__verif_canary'][:6] + [f for f in fns if f['mode'] == 'proof'][:3]
    for k in kani_results:
        samples.append({'kani_harness': k['harness'], 'status': k['status'], 'checks': k.get('checks', 0)})
    cov = {
        'obligations': obligations,
        'discharged': discharged,
        'checker_cmd': '; '.join([r.cmd for r in results] + [k.get('cmd', '') for k in kani_results]),
        'trusted_base': ['Verus 0.2026.09.13 + Z3 (back end for all Verus units)', 'Kani 0.68 + CBMC 6.11 (back end for kani harnesses)',
                         'tool/ lexer, locator, weave, rewrite rules (rewrites machine-checked where machine_checked=true)'] + P.get('trusted', []),
        'samples': samples,
        'explanation': 'Contracts on the real functions of /repo (extracted token-for-token from the current working tree on this run, '
                       'annotations woven in) discharged by Verus/Z3 per function; loop-free Kani harnesses over the real files where listed. '
                       'Decided clauses: %s. NOT decided by this check: %s.' % ('; '.join(P['decided']), '; '.join(P['undecided']) or 'none'),
        'functions_under_contract': under_contract,
        'items_extracted': regions,
        'items_verbatim': sum(1 for g in regions if g['weave'] == 'verbatim'),
        'items_rewoven': sum(1 for g in regions if g['weave'] == 'rewoven'),
        'rewrites_applied': rewrites,
        'verus_items_verified': sum(r.verified for r in results),
        'verus_units': [{'unit': r.name, 'status': r.status, 'verified': r.verified, 'wall_s': round(r.wall_s, 2), 'smt_ms': r.smt_ms,
                         'canary_failed_as_required': r.canary_ok, 'reason': r.reason,
                         'solver_seed_retries': getattr(r, 'retries', []), 'retry_note': getattr(r, 'retry_note', '')} for r in results],
        'kani_harnesses': [{k2: v for k2, v in k.items() if k2 not in ('output',)} for k in kani_results],
        'solver_time_ms': sum(r.smt_ms for r in results),
        'failed_obligations': [dict(f, name=obligation_name(f)) for f in failed],
        'undecided': undecided,
        'known_findings_hit': [k['what'] for (_, k) in known_hits],
        'decided_clauses': P['decided'],
        'undecided_clauses': P['undecided'],
        'exit_code': rc,
    }
    if exploration:
        cov['bounded_standin_NOT_PROOF'] = exploration
    if thorough_info:
        cov['thorough'] = thorough_info
    return {
        'property_id': prop,
        'tier': tier if tier in ('quick', 'thorough') else 'quick',
        'seed': seed,
        'level': P['level'],
        'coverage': cov,
        'assumptions': sorted(set(assumptions)) + P.get('assumed', []),
        'wall_s': round(wall, 2),
        'violations': 1 if rc == 1 else 0,
    }


def do_replay(prop, path):
    body = json.load(open(path))
    rc = 0
    fi = body.get('failing_input')
    if fi:
        ok, out = replay_run(prop, fi['input'])
        print('replay of recorded input on the real code: %s -> %s' % (fi['input'], out))
        if ok is False:
            rc = 1
    names = [f['name'] for f in body.get('failed_obligations', [])]
    if names:
        print('re-running the verifier for the recorded obligations:', ', '.join(names))
        r = main([prop, '--no-evidence'])
        rc = max(rc, 1 if r == 1 else 0)
    if rc == 1:
        print('VIOLATION property=%s replay=%s' % (prop, path))
    return rc

#!/usr/bin/env python3
"""Confirm a seeded change and run the property's check against it.
usage: seedtest.py <mutant dir with patch.diff demo.rs meta.json> <PROP> <scratch worktree> [--keep <name>]
 1. in the scratch worktree: demo passes without the patch, fails with it; `cargo test --lib` passes with it
 2. applies the patch to /repo, runs ./check PROP, reverts /repo (git checkout -- .)
 3. with --keep: stores /verif/seeded/<name>/ (patch.diff, demo.rs, meta.json incl. what was run and the check's verdict)"""
import sys, os, subprocess, json, shutil, time
ROOT = os.path.dirname(os.path.dirname(os.path.abspath(__file__)))
def sh(cmd, cwd=None, timeout=3000):
    p = subprocess.run(cmd, shell=True, cwd=cwd, capture_output=True, text=True, timeout=timeout, env=dict(os.environ, CARGO_NET_OFFLINE='true'))
    return p.returncode, p.stdout + p.stderr
def main():
    d, prop, wt = sys.argv[1], sys.argv[2], sys.argv[3]
    keep = sys.argv[sys.argv.index('--keep') + 1] if '--keep' in sys.argv else None
    skip_confirm = '--skip-confirm' in sys.argv
    patch = os.path.abspath(os.path.join(d, 'patch.diff'))
    demo = os.path.join(d, 'demo.rs')
    ran = []
    res = {}
    if not skip_confirm:
        sh('git checkout -- . && git clean -fdq tests/', cwd=wt)
        tname = 'seed_demo_%s' % prop.lower()
        shutil.copy(demo, os.path.join(wt, 'tests', tname + '.rs'))
        rc0, out0 = sh('cargo test --offline --test %s 2>&1 | tail -15' % tname, cwd=wt); ran.append('cargo test --offline --test %s (unpatched)' % tname)
        res['demo_passes_without_change'] = ('test result: ok' in out0)
        rc, out = sh('git apply %s' % patch, cwd=wt)
        if rc != 0:
            print('patch does not apply in worktree:', out); return 2
        rc1, out1 = sh('cargo test --offline --test %s 2>&1 | tail -25' % tname, cwd=wt); ran.append('cargo test --offline --test %s (patched)' % tname)
        res['demo_fails_with_change'] = ('test result: FAILED' in out1) or ('panicked' in out1 and 'test result: ok' not in out1)
        rc2, out2 = sh('cargo test --offline --lib 2>&1 | tail -5', cwd=wt); ran.append('cargo test --offline --lib (patched)')
        res['existing_tests_pass_with_change'] = ('test result: ok' in out2)
        os.unlink(os.path.join(wt, 'tests', tname + '.rs'))
        sh('git checkout -- .', cwd=wt)
        print('confirm:', res)
        if not (res['demo_passes_without_change'] and res['demo_fails_with_change'] and res['existing_tests_pass_with_change']):
            print(out0[-600:]); print(out1[-600:]); print(out2[-600:])
    # run the check against the patched /repo
    rc, out = sh('git -C /repo status --porcelain --untracked-files=no')
    if out.strip():
        print('/repo not clean; abort'); return 2
    rc, out = sh('git -C /repo apply %s' % patch)
    if rc != 0:
        print('patch does not apply to /repo:', out); return 2
    try:
        t0 = time.time()
        rcc, outc = sh('./check %s --no-evidence' % prop, cwd=ROOT, timeout=3600)
        dt = time.time() - t0
    finally:
        sh('git -C /repo checkout -- .')
    ran.append('git -C /repo apply patch.diff; ./check %s; git -C /repo checkout -- .' % prop)
    verdict = {0: 'MISSED (exit 0)', 1: 'CAUGHT (VIOLATION)', 2: 'UNDECIDED (exit 2)'}.get(rcc, 'exit %s' % rcc)
    print('check %s on mutant: %s in %.0fs' % (prop, verdict, dt))
    print('\n'.join(l[:400] for l in outc.strip().split('\n')[-8:]))
    if keep:
        dst = os.path.join(ROOT, 'seeded', keep)
        os.makedirs(dst, exist_ok=True)
        shutil.copy(patch, os.path.join(dst, 'patch.diff'))
        shutil.copy(demo, os.path.join(dst, 'demo.rs'))
        meta = {}
        try:
            meta = json.load(open(os.path.join(d, 'meta.json')))
        except Exception:
            pass
        meta.update({'property': prop, 'confirmed': res, 'what_i_ran': ran, 'check_verdict': verdict, 'check_output_tail': outc.strip().split('\n')[-6:], 'check_wall_s': round(dt, 1)})
        json.dump(meta, open(os.path.join(dst, 'meta.json'), 'w'), indent=1)
    return 0
sys.exit(main())

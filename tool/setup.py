#!/usr/bin/env python3
"""setup after a fresh restore (offline): warm the Verus cache with a trivial file; nothing else needs building
(the replay crate is built lazily, only when a check has something to replay)."""
import os, subprocess, tempfile
ROOT = os.path.dirname(os.path.dirname(os.path.abspath(__file__)))
os.makedirs(os.path.join(ROOT, 'build'), exist_ok=True)
os.makedirs(os.path.join(ROOT, 'evidence'), exist_ok=True)
d = os.path.join(ROOT, 'build', 'warm')
os.makedirs(d, exist_ok=True)
open(os.path.join(d, 'w.rs'), 'w').write('use vstd::prelude::*;\nverus!{ proof fn t() ensures 1 + 1 == 2int {} }\nfn main(){}\n')
p = subprocess.run(['verus', 'w.rs'], cwd=d, capture_output=True, text=True)
print(p.stdout.strip()[-200:])
# pre-build the replay crate (bounded stand-in / failing-input search) so that checks only rebuild incrementally
import sys
sys.path.insert(0, os.path.join(ROOT, 'tool'))
try:
    import runcheck
    b, err = runcheck.replay_bin()
    print('replay crate:', b or ('NOT BUILT: ' + err[-300:]))
except Exception as e:
    print('replay crate build skipped:', e)
print('setup ok' if p.returncode == 0 else 'verus warm-up failed: ' + p.stderr[-500:])
raise SystemExit(0 if p.returncode == 0 else 1)

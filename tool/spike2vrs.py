#!/usr/bin/env python3
"""authoring helper (not on the checking path): convert a hand-annotated Verus file into a mirror.
usage: spike2vrs.py <spike.rs> <unit name> <repo file> <path> [<path> ...]   (path may be 'repo path => spike path', and may end with ' @@ A=B,C=D' for substs;
       a path starting with 'FILE=' switches the repo file)"""
import sys
import locate
import automark

def main():
    spike, unit, repo_file = sys.argv[1:4]
    text = open(spike).read()
    jobs = []
    for spec in sys.argv[4:]:
        if spec.startswith('FILE='):
            repo_file = spec[5:]
            continue
        subst = None
        if ' @@ ' in spec:
            spec, sb = spec.split(' @@ ')
            subst = dict(kv.split('=') for kv in sb.split(','))
        if ' => ' in spec:
            path, spath = spec.split(' => ')
        else:
            path = spath = spec
        tk, s0, s1 = locate.locate_span(text, spath)
        a = text.rfind('\n', 0, s0) + 1
        b = text.find('\n', s1)
        marked, todo = automark.mark(text, repo_file, path, spath, subst)
        jobs.append((a, b, marked, todo, path))
    jobs.sort()
    out = []
    pos = 0
    for (a, b, marked, todo, path) in jobs:
        out.append(text[pos:a])
        out.append(marked)
        pos = b
        if todo:
            print('TODO x%d in %s' % (todo, path), file=sys.stderr)
    out.append(text[pos:])
    res = ''.join(out)
    res = '//@unit %s\n' % unit + res
    sys.stdout.write(res)

main()

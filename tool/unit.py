"""Build one verification unit (mirror file -> woven Verus file against the CURRENT /repo tree) and run Verus on it."""
import os
import re
import json
import time
import subprocess
import mirror
import locate
import lint
from lex import lex, strip_attrs, texts, LexError

REPO = os.environ.get('VERIF_REPO', '/repo')
ROOT = os.path.dirname(os.path.dirname(os.path.abspath(__file__)))

ASSUME_PATTERNS = [
    (re.compile(r'#\[verifier::external_body\]'), 'external_body'),
    (re.compile(r'\bassume_specification\b'), 'assume_specification'),
    (re.compile(r'\bassume\s*\('), 'assume'),
    (re.compile(r'\badmit\s*\('), 'admit'),
    (re.compile(r'#\[verifier::external\b'), 'external'),
    (re.compile(r'#\[verifier::truncate\]'), 'truncate'),
    (re.compile(r'\bglobal\s+size_of\b'), 'global size_of'),
    (re.compile(r'\baxiom\b|\bbroadcast\s+proof\b'), 'axiom'),
    (re.compile(r'#\[verifier::exec_allows_no_decreases_clause\]|#\[verifier::loop_isolation'), 'verifier attribute'),
]

FAIL_KINDS = [
    'postcondition not satisfied', 'precondition not satisfied', 'precondition not met', 'assertion failed', 'possible arithmetic underflow/overflow',
    'invariant not satisfied', 'decreases not satisfied', 'possible division by zero', 'possible bit shift underflow/overflow',
    'loop invariant', 'could not prove termination', 'assert_by_compute', 'assertion failed', 'bit shift', 'possible truncation',
    'failed this postcondition', 'index out of bounds', 'unreachable', 'call to non-static function', 'may panic',
    'cannot show invariant holds', 'termination', 'possible overflow', 'possible underflow',
]


class UnitResult:
    def __init__(self, name):
        self.name = name
        self.status = None          # discharged | failed | undecided
        self.reason = ''
        self.regions = []
        self.functions = []         # verus per-function records
        self.failed = []            # list of obligations (dict)
        self.assumptions = []
        self.handwritten_exec = []
        self.rewrites = []
        self.wall_s = 0.0
        self.smt_ms = 0
        self.verified = 0
        self.errors = 0
        self.canary_ok = False
        self.out_path = None
        self.cmd = ''
        self.raw_output = ''
        self.changed_items = []


def _scan_assumptions(text, where, first_line, out):
    for k, ln in enumerate(text.split('\n')):
        code = ln.split('//')[0]
        for pat, label in ASSUME_PATTERNS:
            if pat.search(code):
                # give some context: the next fn name
                out.append({'kind': label, 'where': '%s:%d' % (where, first_line + k), 'text': ln.strip()[:160]})


def build(vrs_path, out_dir, canary=True, vacuity=False):
    """returns (UnitResult, woven_text or None)"""
    name = os.path.relpath(vrs_path, os.path.join(ROOT, 'contracts'))[:-4]
    res = UnitResult(name)
    text = open(vrs_path).read()
    m = re.search(r'^//@rlimit\s+(\d+)', text, re.M)
    res.rlimit = int(m.group(1)) if m else 30
    try:
        parts = mirror.parse(text)
    except mirror.MirrorError as e:
        res.status = 'undecided'
        res.reason = 'TOOL: mirror syntax: %s' % e
        return res, None
    out = []
    linemap = []   # (first_out_line, n_lines, label)
    cur_line = 1
    for part in parts:
        if part[0] == 'raw':
            txt = part[1]
            _scan_assumptions(txt, os.path.basename(vrs_path), part[2], res.assumptions)
            for mm in re.finditer(r'^\s*(?:pub\s+)?(?:open\s+|closed\s+)?(spec|proof|exec)?\s*fn\s+(\w+)', txt, re.M):
                pass
            out.append(txt)
            linemap.append((cur_line, txt.count('\n'), 'prelude'))
            cur_line += txt.count('\n')
        else:
            reg = part[1]
            src = os.path.join(REPO, reg.file)
            try:
                cur = locate.locate(open(src).read(), reg.path)
            except (locate.LostItem, LexError, OSError) as e:
                res.status = 'undecided'
                res.reason = 'LOST-ITEM: %s: %s' % (reg.name, e)
                return res, None
            cur = mirror.apply_subst(cur, reg.subst)
            try:
                woven = mirror.weave(reg, cur)
            except mirror.Undecided as e:
                res.status = 'undecided'
                res.reason = str(e)
                res.changed_items.append(reg.name)
                return res, None
            except mirror.MirrorError as e:
                res.status = 'undecided'
                res.reason = 'TOOL: %s' % e
                return res, None
            issues = lint.lint_region(reg)
            if issues:
                res.status = 'undecided'
                res.reason = 'TOOL: annotation purity lint: non-specification text inside an annotation of %s: %s' % (reg.name, '; '.join(t for (_, t) in issues[:3]))
                return res, None
            for seg in reg.segs:
                if seg['kind'] == 'annot':
                    _scan_assumptions(seg['text'], reg.name, 0, res.assumptions)
                elif seg['kind'] == 'rw':
                    _scan_assumptions(''.join(mirror.GHOST_BLOCK.findall(seg['text'])), reg.name, 0, res.assumptions)
                    # hand-declared rewrites (INST / MANUAL / R20 / RSORT: no generator re-derives them from the rule text) are where the verified
                    # text deviates from /repo by the author's word: each one is listed as an assumption
                    rule = seg.get('rule', '')
                    if rule.split()[0:1] and rule.split()[0] in ('INST', 'MANUAL', 'R20', 'RSORT'):
                        res.assumptions.append({'kind': 'hand-declared rewrite', 'where': '%s:%s' % (os.path.basename(vrs_path), seg.get('lineno', 0)),
                                                'text': ('%s [%s]: %s  ->  %s' % (rule[:120], reg.name.split(' :: ')[-1], ' '.join(seg.get('orig', '').split())[:110], ' '.join(mirror.GHOST_BLOCK.sub('', seg.get('text', '')).split())[:110]))})
            if vacuity and reg.path.split()[-2] == 'fn':
                woven = _insert_vacuity_probe(woven)
            if not woven.endswith('\n'):
                woven += '\n'
            out.append(woven)
            linemap.append((cur_line, woven.count('\n'), reg.name))
            cur_line += woven.count('\n')
            res.regions.append({'item': reg.name, 'status': reg.status, 'subst': reg.subst})
            if reg.status == 'rewoven':
                res.changed_items.append(reg.name)
            for r in reg.rules:
                r = dict(r)
                r['item'] = reg.name
                res.rewrites.append(r)
    woven_text = ''.join(out)
    if canary:
        # vacuity guard: must FAIL.  placed inside the last verus! block
        idx = woven_text.rfind('} // verus!')
        if idx < 0:
            res.status = 'undecided'
            res.reason = 'TOOL: unit has no "} // verus!" terminator'
            return res, None
        woven_text = woven_text[:idx] + 'proof fn __verif_canary() ensures false {}\n' + woven_text[idx:]
    os.makedirs(out_dir, exist_ok=True)
    stem = name.replace('/', '_') + ('_vac' if vacuity else '')
    res.out_path = os.path.join(out_dir, stem + '.rs')
    open(res.out_path, 'w').write(woven_text)
    res.linemap = linemap
    return res, woven_text


def _insert_vacuity_probe(woven):
    """insert `assert(false);` at the start of the fn body: the first `{` at bracket depth 0 after the signature
    that is on its own line or ends the header.  Works on the woven text of ONE fn region."""
    # the body brace is the first '{' that follows the closing ')' of the parameter list at paren depth 0 and is not inside requires/ensures expr braces.
    # heuristic: the first line that consists only of '{' or the first '{' that ends a line after the signature's ')'.
    lines = woven.split('\n')
    depth = 0
    seen_paren = False
    for k, ln in enumerate(lines):
        code = ln.split('//')[0]
        s = code.strip()
        if not seen_paren:
            if ')' in code:
                seen_paren = True
            else:
                continue
        if s == '{' or (s.endswith('{') and not re.search(r'\b(forall|exists|match|if|else|implies|choose)\b|==>|\|', s) and re.search(r'^(pub\s+)?(fn\b|\)|->)|\)\s*(->[^{]*)?\{$', s)):
            lines[k] = ln + ' assert(false); /*vacuity-probe*/'
            return '\n'.join(lines)
    return woven


def enclosing_fn(woven_lines, line_no):
    for k in range(min(line_no, len(woven_lines)) - 1, -1, -1):
        m = re.search(r'\bfn\s+(\w+)', woven_lines[k].split('//')[0])
        if m:
            return m.group(1)
    return '?'


def region_of(res, line_no):
    for (first, n, label) in res.linemap:
        if first <= line_no < first + n:
            return label
    return 'prelude'


def run_verus(res, woven_text, timeout=300, rlimit=None, extra=None):
    t0 = time.time()
    cmd = ['verus', res.out_path, '--output-json', '--time', '--multiple-errors', '20', '--error-format=json',
           '--rlimit', str(rlimit or res.rlimit)]
    if extra:
        cmd += extra
    res.cmd = ' '.join(cmd)
    try:
        p = subprocess.run(cmd, capture_output=True, text=True, timeout=timeout, cwd=os.path.dirname(res.out_path))
    except subprocess.TimeoutExpired:
        res.wall_s = time.time() - t0
        res.status = 'undecided'
        res.reason = 'BUDGET: verus wall-clock timeout %ds' % timeout
        return res
    res.wall_s = time.time() - t0
    res.raw_output = p.stderr[-20000:]
    try:
        j = json.loads(p.stdout)
    except Exception:
        res.status = 'undecided'
        res.reason = 'TOOL: verus produced no JSON (exit %s): %s' % (p.returncode, (p.stderr or p.stdout)[-600:])
        return res
    vr = j.get('verification-results', {})
    res.verified = vr.get('verified', 0)
    res.errors = vr.get('errors', 0)
    crate = os.path.basename(res.out_path)[:-3]
    try:
        smt = j['times-ms']['smt']
        res.smt_ms = smt.get('smt-run', 0)
        for mod in smt.get('smt-run-module-times', []):
            for f in mod.get('function-breakdown', []):
                res.functions.append({'function': f['function'], 'mode': f.get('mode:', f.get('mode')), 'ms': f.get('time'),
                                      'rlimit': f.get('rlimit'), 'success': f.get('success')})
    except KeyError:
        pass
    woven_lines = woven_text.split('\n')
    diags = []
    for ln in p.stderr.split('\n'):
        ln = ln.strip()
        if not ln.startswith('{'):
            continue
        try:
            d = json.loads(ln)
        except Exception:
            continue
        if d.get('level') != 'error':
            continue
        diags.append(d)
    tool_errors = []
    budget = []
    for d in diags:
        msg = d.get('message', '')
        if msg.startswith('aborting due to') or msg.startswith('could not compile'):
            continue
        prim = None
        for sp in d.get('spans', []):
            if sp.get('is_primary') and sp.get('file_name', '').endswith(os.path.basename(res.out_path)):
                prim = sp
        if prim is None:
            for sp in d.get('spans', []):
                if sp.get('file_name', '').endswith(os.path.basename(res.out_path)):
                    prim = sp
        line_no = prim['line_start'] if prim else 0
        fn = enclosing_fn(woven_lines, line_no) if prim else '?'
        if fn == '__verif_canary':
            res.canary_ok = True
            continue
        clause = woven_lines[line_no - 1].strip()[:200] if prim and 0 < line_no <= len(woven_lines) else ''
        # secondary span (e.g. the failed postcondition / precondition clause)
        extra_clause = ''
        for sp in d.get('spans', []):
            if sp is not prim and sp.get('label'):
                if sp.get('file_name', '').endswith(os.path.basename(res.out_path)):
                    l2 = sp['line_start']
                    extra_clause = '%s: %s' % (sp['label'], woven_lines[l2 - 1].strip()[:200])
                else:
                    extra_clause = '%s (%s:%s)' % (sp['label'], sp.get('file_name'), sp.get('line_start'))
        rec = {'unit': res.name, 'function': fn, 'item': region_of(res, line_no) if prim else '?', 'kind': msg, 'clause': clause,
               'detail': extra_clause, 'line': line_no}
        if d.get('code'):
            tool_errors.append(rec)
        elif 'rlimit' in msg or 'Resource limit' in msg or 'timed out' in msg:
            budget.append(rec)
        elif any(k in msg.lower() for k in FAIL_KINDS):     # (case-insensitive: Verus capitalises some of these, e.g. `Call to non-static function fails to satisfy callee.requires`)
            res.failed.append(rec)
        else:
            tool_errors.append(rec)
    if vr.get('encountered-vir-error') or tool_errors:
        res.status = 'undecided'
        res.reason = 'TOOL: verus/rustc rejected the woven file: ' + '; '.join('%s @%s:%s [%s]' % (r['kind'][:200], r['function'], r['line'], r['clause'][:80]) for r in tool_errors[:4])
        return res
    if res.failed:
        res.status = 'failed'
        return res
    if budget:
        res.status = 'undecided'
        res.reason = 'BUDGET: rlimit exceeded in ' + ', '.join(sorted(set(b['function'] for b in budget)))
        res.budget = budget
        return res
    if not res.canary_ok:
        res.status = 'undecided'
        res.reason = 'VACUITY: the assert-false canary did not fail (inconsistent axioms?)'
        return res
    if res.errors != 1:
        res.status = 'undecided'
        res.reason = 'TOOL: %d erroneous functions reported but no classified diagnostic' % res.errors
        return res
    if res.verified < 1:
        res.status = 'undecided'
        res.reason = 'VACUITY: zero verified items'
        return res
    res.status = 'discharged'
    return res
